#!/bin/bash
# tools/seeds_regression.sh [seed ids...] : apply every stored seed to a scratch worktree of /repo HEAD and run the quick check of its
# property (plus extra checks named in seeded/<id>/also_checks, if present). One line per seed: CAUGHT / MISSED / NOAPPLY.
cd /verif
S="$@"; [ -z "$S" ] && S=$(ls seeded)
for s in $S; do
  P=/verif/seeded/$s/patch.diff; C=${s%%-*}
  [ -f $P ] || { echo "$s NOPATCH"; continue; }
  W=/tmp/wt/reg.$$.$s
  git -C /repo worktree add -q --detach $W HEAD || { echo "$s WORKTREE-FAILED"; continue; }
  if ! ( cd $W && git apply $P ) 2>/dev/null; then echo "$s NOAPPLY"; git -C /repo worktree remove --force $W; continue; fi
  res=MISSED
  for c in $C $(cat /verif/seeded/$s/also_checks 2>/dev/null); do
    out=$(VERIF_REPO=$W VERIF_EVIDENCE_DIR=/tmp/wt/reg_evidence ./check $c --tier quick 2>&1 | grep -v "^KNOWN-FINDING" | grep -E "^VIOLATION|^HELD|^INCONCLUSIVE" | head -1)
    case "$out" in VIOLATION*) res="CAUGHT by $c"; break;; esac
  done
  echo "$s $res"
  git -C /repo worktree remove --force $W
done
