#!/bin/bash
# tools/try_seed.sh <patch.diff> <check ids...> : apply a seeded defect to /repo, run quick checks, undo.
P="$1"; shift
cd /repo && git apply "$P" || { echo "patch failed to apply"; exit 9; }
cd /verif
for c in "$@"; do
  ./check $c --tier quick 2>&1 | grep -v "^KNOWN-FINDING" | tail -4
done
git -C /repo checkout -- . ; git -C /repo status --short | grep -v egg-info
