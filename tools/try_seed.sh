#!/bin/bash
# tools/try_seed.sh <abs patch.diff> <check ids...> : apply a seeded defect to a scratch worktree of /repo's HEAD
# (never to /repo itself, so background runs against /repo are not disturbed), run the quick checks against it, remove it.
P="$1"; shift
W=/tmp/wt/try.$$
git -C /repo worktree add -q --detach $W HEAD || exit 9
( cd $W && git apply "$P" ) || { echo "patch failed to apply"; git -C /repo worktree remove --force $W; exit 9; }
cd /verif
for c in "$@"; do
  VERIF_REPO=$W VERIF_EVIDENCE_DIR=/tmp/wt/reg_evidence ./check $c --tier quick 2>&1 | grep -v "^KNOWN-FINDING" | tail -4
done
git -C /repo worktree remove --force $W
