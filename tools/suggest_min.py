import json,sys
e=json.load(open('evidence/%s.json'%sys.argv[1]))['coverage']
obs=e['oracle_evaluations_per_monitor_site']; req=e['min_events_required']
for k,v in req.items(): print(k, 'required',v,'observed',obs.get(k,0), 'suggest', int(obs.get(k,0)*0.3))
