#!/bin/bash
# tools/try_seed_full.sh <abs patch.diff> <check> [extra check args]: like try_seed.sh but prints the witness summary (deduplicated by site)
P="$1"; C="$2"; shift; shift
W=/tmp/wt/try.$$
git -C /repo worktree add -q --detach $W HEAD || exit 9
( cd $W && git apply "$P" ) || { echo "patch failed to apply"; git -C /repo worktree remove --force $W; exit 9; }
cd /verif
VERIF_REPO=$W VERIF_EVIDENCE_DIR=/tmp/wt/reg_evidence ./check $C --tier quick "$@" 2>&1 | grep -v "^KNOWN-FINDING" | grep -E "witness|VIOLATION|HELD|INCONCLUSIVE|tier=" | cut -c1-220 | sed -E 's/[0-9.e+-]{6,}/N/g' | sort | uniq -c | sort -rn | head -25
git -C /repo worktree remove --force $W
