"""Developer tool (not used by any check): run one case through a check's
run_case, show what fails and with which finding key, and optionally store it
as a witness in known_findings.json.
  PYTHONPATH=/repo:/verif /venv/bin/python tools/add_finding.py C01 case.json --key KF-C01-a --status known --what "..." --predicate classify_c01
"""
import argparse, importlib, json, os, sys
sys.path.insert(0, os.path.dirname(os.path.dirname(os.path.abspath(__file__))))
from tflv import core

ap = argparse.ArgumentParser()
ap.add_argument("prop"); ap.add_argument("case")
ap.add_argument("--key"); ap.add_argument("--status", default="known")
ap.add_argument("--what", default=""); ap.add_argument("--predicate", default="")
ap.add_argument("--commit", default=None)
a = ap.parse_args()
from tflv import tfenv
tfenv.setup(0)
mod = importlib.import_module("tflv.checks." + a.prop.lower())
ctx = core.Ctx(a.prop, "quick", 0, 0, 1, 1, 600)
if hasattr(mod, "setup"): mod.setup(ctx)
case = json.load(open(a.case))
case = case.get("case", case)
ctx.begin(case)
try:
  mod.run_case(ctx, case)
except Exception as e:   # as tflv.shard.drive does: an exception escaping a case is a reported violation
  ctx.exception("harness/exception", e)
for v in ctx.violations:
  print("FAIL", v["site"], v["msg"], "finding=", v["finding"])
print("events", dict(ctx.events))
if a.key:
  path = os.path.join(os.path.dirname(os.path.dirname(os.path.abspath(__file__))), "known_findings.json")
  d = json.load(open(path))
  d["findings"] = [f for f in d["findings"] if not (f["key"] == a.key and f["property"] == a.prop)]
  e = {"property": a.prop, "key": a.key, "status": a.status, "what": a.what,
       "predicate": a.predicate, "witness": core.to_jsonable(case)}
  if a.commit: e["commit"] = a.commit
  d["findings"].append(e)
  json.dump(d, open(path, "w"), indent=1)
  print("stored", a.key)
