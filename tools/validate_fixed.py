"""Developer tool: every `fixed` witness must FAIL (unclassified) on the original snapshot of the repository.
Usage: git -C /repo worktree add --detach /tmp/wt/orig fad4c36 ; /venv/bin/python tools/validate_fixed.py /tmp/wt/orig"""
import json, subprocess, os, sys
orig = sys.argv[1]
d = json.load(open('known_findings.json'))
env = dict(os.environ, PYTHONPATH=orig + ':/verif', TF_CPP_MIN_LOG_LEVEL='3', VERIF_REPO=orig)
for f in d['findings']:
  if f['status'] != 'fixed':
    continue
  json.dump(f['witness'], open('/tmp/w.json', 'w'))
  out = subprocess.run(['/venv/bin/python', 'tools/add_finding.py', f['property'], '/tmp/w.json'], env=env, capture_output=True, text=True).stdout
  fails = [l for l in out.splitlines() if l.startswith('FAIL')]
  unknown = [l for l in fails if 'finding= None' in l]
  print(f['property'], f['key'], 'fails on original snapshot:', len(fails), '(unclassified %d)' % len(unknown), (unknown or fails or ['-'])[0][:140])
