#!/bin/bash
# tools/vet_seed.sh <PROP> <variant> : independent confirmation of a seeded defect in the scratch worktree /tmp/wt/<PROP>
#  1. demo passes on the clean worktree, 2. fails with the patch, 3. pinned suite: all BASELINE stable_pass tests still pass.
# Writes /verif/seeded/<PROP>-<variant>/{patch.diff,demo.py,notes.md,vet.json}
P="$1"; V="$2"; WT=${WT:-/tmp/wt/$P}; SRC=$WT/seed_out/$V; OUT=/verif/seeded/$P-${NAME:-$V}
mkdir -p "$OUT"
cd $WT || exit 9
git checkout -q -- . 
run_demo() { ( cd $WT && PYTHONPATH=$WT TF_CPP_MIN_LOG_LEVEL=3 CUDA_VISIBLE_DEVICES= timeout 900 /venv/bin/python $SRC/demo.py > $OUT/demo_$1.log 2>&1; echo $? ); }
clean_rc=$(run_demo clean)
git apply $SRC/patch.diff || { echo "{\"error\": \"patch does not apply\"}" > $OUT/vet.json; exit 1; }
patched_rc=$(run_demo patched)
/venv/bin/python -m pytest -ra -q -p no:cacheprovider --timeout=900 --continue-on-collection-errors --junitxml=$OUT/junit.xml 2>&1 | tail -c 3000 > $OUT/pytest_tail.log
git checkout -q -- .
/venv/bin/python - "$OUT" "$clean_rc" "$patched_rc" <<'PY'
import json, sys, xml.etree.ElementTree as ET
out, crc, prc = sys.argv[1], int(sys.argv[2]), int(sys.argv[3])
stable = set(json.load(open('/root/.vp/BASELINE.json'))['stable_pass'])
passed = set()
for tc in ET.parse(out + '/junit.xml').iter('testcase'):
  if not any(ch.tag in ('failure', 'error', 'skipped') for ch in tc):
    passed.add(tc.get('classname') + '::' + tc.get('name'))
res = {"demo_rc_clean": crc, "demo_rc_patched": prc, "stable_pass_total": len(stable),
       "stable_pass_still_passing": len(stable & passed), "regressions": sorted(stable - passed)[:20],
       "ok": crc == 0 and prc != 0 and not (stable - passed)}
json.dump(res, open(out + '/vet.json', 'w'), indent=1)
print(out, res["ok"], crc, prc, len(stable - passed))
PY
cp $SRC/patch.diff $SRC/demo.py $SRC/notes.md $OUT/ 2>/dev/null
rm -f $OUT/junit.xml
