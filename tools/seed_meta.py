"""tools/seed_meta.py <seed id> <change> <needs_to_manifest> <detected_by> : write seeded/<id>/meta.json from its vet.json"""
import json, os, sys
sid, change, needs, det = sys.argv[1:5]
d = os.path.join(os.path.dirname(os.path.dirname(os.path.abspath(__file__))), "seeded", sid)
vet = json.load(open(os.path.join(d, "vet.json")))
meta = {
 "seed": sid, "property": sid.split("-")[0], "change": change, "needs_to_manifest": needs,
 "produced_by": "independent sub-agent given only the property text (round 2: plus the list of first-round mechanisms to avoid) and a scratch worktree",
 "confirmed": {
  "demo_exit_code_clean_tree": vet.get("demo_rc_clean"), "demo_exit_code_patched_tree": vet.get("demo_rc_patched"),
  "pinned_suite_stable_pass_still_passing": "%s/%s" % (vet.get("stable_pass_still_passing"), vet.get("stable_pass_total")),
  "ok": vet.get("ok"),
  "how": "tools/vet_seed.sh: demo on the clean scratch worktree, demo with the patch applied, then the pinned pytest command of BASELINE.json with the patch applied, compared test by test with BASELINE stable_pass"},
 "detected_by": det,
 "how_run": "tools/try_seed.sh /verif/seeded/%s/patch.diff <checks> (scratch worktree of /repo HEAD + patch, quick tier, VERIF_REPO pointing at it)" % sid,
}
json.dump(meta, open(os.path.join(d, "meta.json"), "w"), indent=1)
print(sid, meta["confirmed"]["ok"], meta["confirmed"]["pinned_suite_stable_pass_still_passing"])
