#!/bin/bash
# tools/sweep.sh <tier> <seed> [checks...] : run checks sequentially, print one summary line each (developer tool)
T="$1"; S="$2"; shift 2
C="$@"; [ -z "$C" ] && C="C01 C02 C03 C04 C05 C06 C07 C08 C09 C10 C11 C12 C13 C14 C15 C16 C17 C18 C19 C20"
for c in $C; do
  VERIF_SEED=$S ./check $c --tier $T > sweep_${T}_${S}_$c.log 2>&1; rc=$?
  echo "$c rc=$rc $(grep -v '^KNOWN' sweep_${T}_${S}_$c.log | grep -E 'tier=|VIOLATION|INCONCLUSIVE|witness' | head -4 | tr '\n' '|' | cut -c1-600)"
done
