#!/bin/bash
# tools/mutate.sh <file under tensorflow_lattice/python> <python-regex> <replacement> <check ids...>
# Applies a one-line deliberate break (first match) to a scratch worktree of /repo's HEAD, runs the quick checks against it, removes it.
FREL=tensorflow_lattice/python/$1; PAT="$2"; REP="$3"; shift 3
W=/tmp/wt/mut.$$
git -C /repo worktree add -q --detach $W HEAD || exit 9
/venv/bin/python - "$W/$FREL" "$PAT" "$REP" <<'PY' || { git -C /repo worktree remove --force $W; exit 9; }
import re,sys
f,pat,rep=sys.argv[1:4]
s=open(f).read()
n=re.subn(pat,rep,s,count=1,flags=re.M)
if n[1]!=1: print("PATTERN NOT FOUND",pat); sys.exit(1)
open(f,'w').write(n[0])
PY
cd /verif
for c in "$@"; do VERIF_REPO=$W VERIF_EVIDENCE_DIR=/tmp/wt/reg_evidence ./check $c --tier quick 2>&1 | grep -v "^KNOWN-FINDING" | tail -3; done
git -C /repo worktree remove --force $W
