#!/bin/bash
# tools/mutate.sh <file under /repo/tensorflow_lattice/python> <python-regex> <replacement> <check ids...>
# Applies a one-line deliberate break (first match) to /repo, runs the quick checks, reverts.
F=/repo/tensorflow_lattice/python/$1; PAT="$2"; REP="$3"; shift 3
/venv/bin/python - "$F" "$PAT" "$REP" <<'PY' || exit 9
import re,sys
f,pat,rep=sys.argv[1:4]
s=open(f).read()
n=re.subn(pat,rep,s,count=1,flags=re.M)
if n[1]!=1: print("PATTERN NOT FOUND",pat); sys.exit(1)
open(f,'w').write(n[0])
PY
cd /verif
for c in "$@"; do ./check $c --tier quick 2>&1 | grep -v "^KNOWN-FINDING" | tail -3; done
git -C /repo checkout -- . 
