#!/bin/bash
# tools/vet_r2.sh <ID>... : vet both round-2 seeds of each property (worktree /tmp/wt/r2_<ID>), stored as seeded/<ID>-c and <ID>-d
for id in "$@"; do
  ( WT=/tmp/wt/r2_$id NAME=c /verif/tools/vet_seed.sh $id a; WT=/tmp/wt/r2_$id NAME=d /verif/tools/vet_seed.sh $id b ) > /tmp/wt/vet_r2_$id.log 2>&1 &
done
wait
