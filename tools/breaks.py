"""Developer tool: deliberate one-line breaks (DESIGN section 8) applied to a scratch worktree of /repo HEAD; the listed quick checks must fire.
Usage: /venv/bin/python tools/breaks.py [filter]   -> writes notes/breaks_result.md"""
import os, re, subprocess, sys, time
B = [
 # (name, file, regex, replacement, checks)
 ("approx monotonicity: cumulative-min loop starts too late", "lattice_lib.py", r"for i in range\(len\(layers\) - 2, -1, -1\):\n      # Compute cumulitive", "for i in range(len(layers) - 3, -1, -1):\n      # Compute cumulitive", ["C01"]),
 ("trapezoid finalize: drop the high-side update", "lattice_lib.py", r"      layers\[max_main_dim\]\[j \+ 1\] \+= rhs_update\n", "", ["C01"]),
 ("bounds squeeze: wrong scale factor", "lattice_lib.py", r"\(\(output_max \+ max_violation\) -\n                          \(output_min - min_violation\)\)\)", "((output_max + max_violation) -\n                          (output_min + min_violation)))", ["C01"]),
 ("LatticeConstraints: skip finalize when iterations == 0", "lattice_layer.py", r"      if self.enforce_strict_monotonicity:", "      if self.enforce_strict_monotonicity and self.num_projection_iterations:", ["C01"]),
 ("Dykstra roll-back with + instead of -", "lattice_lib.py", r'rolled_back_weights = weights - last_change\[\("MONOTONICITY", dim,', 'rolled_back_weights = weights + last_change[("MONOTONICITY", dim,', ["C08"]),
 ("partial edgeworth /4 -> /2", "lattice_lib.py", r"correction = tf.maximum\(difference_in_slopes / 4, 0\)", "correction = tf.maximum(difference_in_slopes / 2, 0)", ["C08"]),
 ("hypercube: drop min(distance, 1)", "lattice_lib.py", r"weights = 1.0 - tf.minimum\(distance, 1.0\)", "weights = 1.0 - distance", ["C02"]),
 ("simplex: drop outer-edge minimum", "lattice_lib.py", r"np.array\(lattice_sizes\) - 2\)", "np.array(lattice_sizes) - 1)", ["C02"]),
 ("clip bound size instead of size-1", "lattice_lib.py", r"upper_bounds = \[dim_size - 1.0 for dim_size in lattice_sizes\]", "upper_bounds = [dim_size - 0.0 for dim_size in lattice_sizes]", ["C02"]),
 ("PWL decreasing clip uses maximum", "pwl_calibration_lib.py", r"    return tf.minimum\(heights, 0.0\)", "    return tf.maximum(heights, 0.0)", ["C04"]),
 ("PWL interpolation weight not capped at 1", "pwl_calibration_lib.py", r"  weights = tf.minimum\(weights, 1.0\)\n", "", ["C05"]),
 ("categorical default -> bucket 0", "categorical_calibration_layer.py", r"replacement = tf.zeros_like\(inputs\) \+ \(self.num_buckets - 1\)", "replacement = tf.zeros_like(inputs)", ["C05"]),
 ("PWL missing test on the clipped branch only (<=)", "pwl_calibration_layer.py", r"tf.equal\(inputs, self._missing_input_value_tensor\)", "tf.less_equal(inputs, self._missing_input_value_tensor)", ["C05"]),
 ("Linear: decreasing mask", "linear_lib.py", r"value=\[0.0 if m == -1 else 1.0 for m in monotonicities\]", "value=[0.0 if m == 1 else 1.0 for m in monotonicities]", ["C06"]),
 ("Linear: range scaling not undone", "linear_lib.py", r"    weights /= scalings\n", "", ["C06"]),
 ("Linear layer: clip by min only", "linear_layer.py", r"clip_value_max=self.clip_value_max\)", "clip_value_max=self.clip_value_max * 1e9)", ["C20"]),
 ("categorical constraint: no min clip", "categorical_calibration_lib.py", r"  if output_min is not None:\n    projected_weights = tf.maximum\(projected_weights, output_min\)\n", "", ["C06"]),
 ("KFL init without sort", "kronecker_factored_lattice_lib.py", r"tf.sort\(weight, axis=1\) if monotonicity else weight", "weight if monotonicity else weight", ["C10"]),
 ("KFL root 1/(dims+1)", "kronecker_factored_lattice_lib.py", r"tf.pow\(full_projection_factor, 1.0 / dims\)", "tf.pow(full_projection_factor, 1.0 / (dims + 1))", ["C07"]),
 ("KFL scale bound doubled", "kronecker_factored_lattice_lib.py", r"    bound = \(output_max - output_min\) / 2.0\n    scale = tf.clip_by_value", "    bound = (output_max - output_min)\n    scale = tf.clip_by_value", ["C07"]),
 ("KFL direction ignored in monotone projection", "kronecker_factored_lattice_lib.py", r"  direction = tf.expand_dims\(tf.sign\(scale\), axis=1\)\n\n  # TODO: optimize", "  direction = tf.expand_dims(tf.abs(tf.sign(scale)), axis=1)\n\n  # TODO: optimize", ["C07"]),
 ("Laplacian on the wrong slices", "lattice_lib.py", r"    diff = slices\[1:\] - slices\[0:-1\]", "    diff = slices[1:] - slices[0:1]", ["C13"]),
 ("Hessian: wrong second difference", "pwl_calibration_layer.py", r"      nonlinearity = x\[2:\] - x\[1:-1\]\n\n    losses = \[\]\n    if self.l1:\n      losses.append\(self.l1 \* tf.reduce_sum\(tf.abs\(nonlinearity\)\)\)", "      nonlinearity = x[2:] + x[1:-1]\n\n    losses = []\n    if self.l1:\n      losses.append(self.l1 * tf.reduce_sum(tf.abs(nonlinearity)))", ["C13"]),
 ("torsion: l1[i] only", "lattice_lib.py", r"tf.reduce_sum\(tf.abs\(torsion\)\) \* l1\[i\] \* l1\[j\]", "tf.reduce_sum(tf.abs(torsion)) * l1[i] * l1[i]", ["C13"]),
 ("lattice assert: reduce_max for monotonicity", "lattice_lib.py", r"diff = tf.reduce_min\(weights_layers\[j\] - weights_layers\[j - 1\]\)", "diff = tf.reduce_max(weights_layers[j] - weights_layers[j - 1])", ["C12"]),
 ("lattice assert: trapezoid high side not asserted", "lattice_lib.py", r"              rhs_diff >= -eps,", "              rhs_diff >= -1e9,", ["C12"]),
 ("Lattice.get_config drops clip_inputs", "lattice_layer.py", r'        "clip_inputs": self.clip_inputs,\n', "", ["C11"]),
 ("conditional PWL: missing output without sigmoid", "conditional_pwl_calibration.py", r"missing_output = keypoint_output_min \+ tf.sigmoid\(\n          kernel_outputs\[:, :, -1\]\n      \)", "missing_output = keypoint_output_min + (\n          kernel_outputs[:, :, -1]\n      )", ["C15"]),
 ("random ensemble replace=True", "premade_lib.py", r"feature_names_not_in_lattice, size=remaining_size, replace=False\)\)", "feature_names_not_in_lattice, size=remaining_size, replace=True))", ["C17"]),
 ("compute_keypoints: duplicate-index repair removed", "premade_lib.py", r"          used_idx.add\(candidate_idx\)\n          quantiles_idx\[i\] = candidate_idx\n", "          used_idx.add(candidate_idx)\n", ["C18"]),
 ("premade: lattice input range lattice_size", "premade_lib.py", r"output_init_max = output_max = feature_config.lattice_size - 1.0", "output_init_max = output_max = feature_config.lattice_size - 0.0", ["C03"]),
 ("units axis appended as monotone (+ [1])", "lattice_lib.py", r"    monotonicities = list\(monotonicities\) \+ \[0\]\n    unimodalities = list\(unimodalities\) \+ \[0\]", "    monotonicities = list(monotonicities) + [1]\n    unimodalities = list(unimodalities) + [0]", ["C09"]),
 ("Aggregation: sum instead of mean", "aggregation_layer.py", r"return tf.reduce_mean\(tf.ragged.map_flat_values\(self.model, x\), axis=1\)", "return tf.reduce_sum(tf.ragged.map_flat_values(self.model, x), axis=1)", ["C14"]),
 ("custom gradient: num_zeros >= 1", "kronecker_factored_lattice_lib.py", r"tf.equal\(num_zeros, 1\)", "tf.greater_equal(num_zeros, 1)", ["C19"]),
 ("Linear: units>1 kernel not transposed (bias added twice)", "linear_layer.py", r"      result \+= self.bias\n", "      result += self.bias * 2\n", ["C20"]),
 ("verify: lattice size < 2 accepted", "lattice_lib.py", r"    if size < 2:\n      raise ValueError\(\"All lattice sizes", "    if size < 1:\n      raise ValueError(\"All lattice sizes", ["C16"]),
]
flt = sys.argv[1] if len(sys.argv) > 1 else ""
rows = []
for name, f, pat, rep, checks in B:
  if flt and flt not in name and flt not in ",".join(checks):
    continue
  W = "/tmp/wt/brk.%d" % os.getpid()
  subprocess.run(["git", "-C", "/repo", "worktree", "add", "-q", "--detach", W, "HEAD"], check=True)
  try:
    p = os.path.join(W, "tensorflow_lattice/python", f)
    s = open(p).read()
    s2, n = re.subn(pat, rep, s, count=1, flags=re.M)
    if n != 1:
      rows.append((name, f, "PATTERN NOT FOUND", ""))
      print(name, "PATTERN NOT FOUND")
      continue
    open(p, "w").write(s2)
    for c in checks:
      t0 = time.time()
      r = subprocess.run(["./check", c, "--tier", "quick"], cwd="/verif", env=dict(os.environ, VERIF_REPO=W, VERIF_EVIDENCE_DIR="/tmp/wt/reg_evidence"), capture_output=True, text=True)
      out = [l for l in r.stdout.splitlines() if not l.startswith("KNOWN-FINDING")]
      wit = next((l.strip() for l in out if l.strip().startswith("witness")), "")
      verdict = "CAUGHT" if r.returncode == 1 else ("inconclusive" if r.returncode == 2 else "MISSED")
      rows.append((name, c, verdict, wit[:160]))
      print("%-8s %s %s (%.0fs) %s" % (verdict, c, name, time.time() - t0, wit[:120]), flush=True)
  finally:
    subprocess.run(["git", "-C", "/repo", "worktree", "remove", "--force", W])
if not flt:
  with open("/verif/notes/breaks_result.md", "w") as fo:
    fo.write("# Deliberate one-line breaks (tools/breaks.py), quick tier, VERIF_SEED=0\n\n| break | check | verdict | first witness |\n|---|---|---|---|\n")
    for r in rows:
      fo.write("| %s | %s | %s | %s |\n" % (r[0], r[1], r[2], r[3].replace("|", "/")))
print(sum(1 for r in rows if r[2] == "CAUGHT"), "caught of", len(rows))
