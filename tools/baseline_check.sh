#!/bin/bash
# tools/baseline_check.sh [repo dir] : run the pinned suite of BASELINE.json on the given tree (default /repo) with no verification
# environment variable set, and compare test by test with BASELINE stable_pass. Developer tool.
R=${1:-/repo}; J=/tmp/baseline_$$.junit.xml
( cd $R && env -u TENSORFLOW_LATTICE_VERIF /venv/bin/python -m pytest -ra -q -p no:cacheprovider --timeout=900 --continue-on-collection-errors --junitxml=$J > /tmp/baseline_$$.log 2>&1 )
/venv/bin/python - "$J" <<'PY'
import json, sys, xml.etree.ElementTree as ET
stable = set(json.load(open('/root/.vp/BASELINE.json'))['stable_pass'])
passed = set()
for tc in ET.parse(sys.argv[1]).iter('testcase'):
  if not any(ch.tag in ('failure', 'error', 'skipped') for ch in tc):
    passed.add(tc.get('classname') + '::' + tc.get('name'))
print("stable_pass %d, still passing %d, regressions %s, newly passing (not in stable) %d" % (len(stable), len(stable & passed), sorted(stable - passed)[:10], len(passed - stable)))
PY
rm -f $J
