"""Regenerates MANIFEST.json from tflv/registry.py and tools/manifest_meta.json
(developer tool; validates against the schema)."""
import json, os, sys
HERE = os.path.dirname(os.path.dirname(os.path.abspath(__file__)))
sys.path.insert(0, HERE)
from tflv import registry
meta = json.load(open(os.path.join(HERE, "tools", "manifest_meta.json")))
props = [json.loads(l) for l in open(os.path.join(HERE, "properties.jsonl"))]
checks = []
for p in props:
  pid = p["id"]
  if pid not in registry.CHECKS:
    continue
  m = registry.META[pid]
  checks.append({
      "property_id": pid,
      "quick_cmd": "./check %s --tier quick" % pid,
      "thorough_cmd": "./check %s --tier thorough" % pid,
      "evidence_file": "evidence/%s.json" % pid,
      "replay_cmd_template": "./check %s --replay {path}" % pid,
      "engine": "tflv",
      "level_claimed": {"category": "exploration", "text": m["text"], "design_ref": m.get("design_ref", "DESIGN.md section 5 " + pid)},
      "level_note": m["note"],
      "technique": m["technique"],
  })
na = [{"property_id": p["id"], "reason": meta["not_applicable"].get(p["id"], "check not built yet in this round")}
      for p in props if p["id"] not in registry.CHECKS]
man = {
    "version": 1,
    "setup_cmd": "./check --selftest",
    "hooks": {
        "guard": "TENSORFLOW_LATTICE_VERIF",
        "enable": "no in-repo hooks: monitors are attached from the harness with setattr on the repository's module/class attributes; ./check exports TENSORFLOW_LATTICE_VERIF=1 (reserved, unused by /repo) and imports /repo's working tree directly (PYTHONPATH=/repo, python -B)",
        "baseline_off_cmd": "cd /repo && env -u TENSORFLOW_LATTICE_VERIF /venv/bin/python -m pytest -ra -q -p no:cacheprovider --timeout=900 --continue-on-collection-errors",
        "source_commits": [],
        "add_only": True,
    },
    "engines": [{"name": "tflv", "path": "tflv/", "serves_properties": [c["property_id"] for c in checks],
                 "kind_free_text": "runtime monitoring: seeded hostile workloads drive the real tensorflow_lattice code; contract-style monitors and float64 reference-model oracles (NumPy/SciPy: NNLS/LP/interpolation) judge every observed call; sharded subprocesses, three-valued verdicts, mechanism-keyed known findings"}],
    "checks": checks,
    "notes": meta.get("notes", ""),
    "not_applicable": na,
}
json.dump(man, open(os.path.join(HERE, "MANIFEST.json"), "w"), indent=1)
try:
  import jsonschema
  jsonschema.validate(man, json.load(open("/root/.vp/MANIFEST.schema.json")))
  print("MANIFEST.json valid,", len(checks), "checks,", len(na), "not_applicable")
except ImportError:
  print("written (jsonschema not available here)")
