#!/bin/bash
# tools/vet_round.sh <worktree prefix, e.g. r3> <name for variant a> <name for variant b> <ID>... : vet both seeds of each property from
# /tmp/wt/<prefix>_<ID>/seed_out/{a,b}, stored as seeded/<ID>-<nameA> and seeded/<ID>-<nameB>; properties run in parallel.
PFX=$1; NA=$2; NB=$3; shift 3
for id in "$@"; do
  ( WT=/tmp/wt/${PFX}_$id NAME=$NA /verif/tools/vet_seed.sh $id a; WT=/tmp/wt/${PFX}_$id NAME=$NB /verif/tools/vet_seed.sh $id b ) > /tmp/wt/vet_${PFX}_$id.log 2>&1 &
done
wait
