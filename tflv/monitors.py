"""Contract-style monitors attached from the harness to real functions of the
repository (setattr on the module / class attribute, so every caller that goes
through the attribute -- the library's own internal calls, Keras optimizers,
the repository's tests -- is observed).

A monitor snapshots what it needs, calls the original, evaluates named
post-conditions that *record* into the context and never raise into the
monitored code.  Symbolic (graph-traced) calls are counted but not judged.
"""
import functools

import numpy as np


def is_concrete(*xs):
  for x in xs:
    if x is None:
      continue
    if isinstance(x, (np.ndarray, float, int, list, tuple)):
      continue
    if not hasattr(x, "numpy"):
      return False
    try:
      x.numpy()
    except Exception:
      return False
  return True


def npy(x, dtype=np.float64):
  if x is None:
    return None
  if hasattr(x, "numpy"):
    x = x.numpy()
  return np.array(x, dtype=dtype)


class Monitors(object):

  def __init__(self, ctx):
    self.ctx = ctx
    self._installed = []
    self.depth = 0

  def wrap(self, owner, name, post, site=None, pre=None):
    orig = getattr(owner, name)
    site = site or ("%s.%s" % (getattr(owner, "__name__", str(owner)), name))
    ctx = self.ctx
    mon = self

    @functools.wraps(orig)
    def wrapper(*args, **kwargs):
      snap = None
      if pre is not None:
        try:
          snap = pre(*args, **kwargs)
        except Exception as e:  # monitor bug: report, do not disturb the call
          ctx.exception("monitor-pre/" + site, e)
      out = orig(*args, **kwargs)
      try:
        post(ctx, site, snap, args, kwargs, out)
      except Exception as e:
        ctx.exception("monitor-post/" + site, e)
      return out

    wrapper.__wrapped_by_tflv__ = orig
    setattr(owner, name, wrapper)
    self._installed.append((owner, name, orig))
    return wrapper

  def uninstall(self):
    for owner, name, orig in reversed(self._installed):
      setattr(owner, name, orig)
    self._installed = []
