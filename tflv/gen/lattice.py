"""Seeded generators for Lattice configurations and kernels (structured
classes rather than one flat distribution, so that rare corners are hit in
every run)."""
import numpy as np

KERNEL_CLASSES = ["gauss", "big", "tiny", "ties", "ints", "sorted", "anti",
                  "const", "spike", "neg_feasible_like", "far_offset"]


def lattice_sizes(rng, max_vertices, shape_class=None, min_rank=1, max_rank=5):
  shape_class = shape_class or rng.choice(
      ["all2", "mixed", "runs", "big_dim", "rank1"], p=[.25, .35, .2, .1, .1])
  if shape_class == "rank1":
    sizes = [int(rng.choice([2, 3, 4, 5, 7]))]
  elif shape_class == "all2":
    sizes = [2] * int(rng.randint(max(2, min_rank), max_rank + 1))
  elif shape_class == "runs":
    a, b = int(rng.choice([2, 3])), int(rng.choice([2, 3, 4]))
    sizes = [a] * int(rng.randint(1, 3)) + [b] * int(rng.randint(1, 3))
    if rng.rand() < .5:
      sizes = sizes + [a]
  elif shape_class == "big_dim":
    sizes = [int(rng.choice([5, 6, 8]))] + [int(rng.choice([2, 3])) for _ in range(int(rng.randint(0, 3)))]
    rng.shuffle(sizes)
  else:
    sizes = [int(rng.choice([2, 3, 4, 5], p=[.35, .35, .2, .1])) for _ in range(int(rng.randint(max(2, min_rank), max_rank + 1)))]
  sizes = [int(s) for s in sizes][:max_rank]
  while int(np.prod(sizes)) > max_vertices:
    k = int(np.argmax(sizes))
    if sizes[k] > 2:
      sizes[k] -= 1
    else:
      sizes.pop()
  return sizes, str(shape_class)


def lattice_config(rng, max_vertices=256, approx_families=True, force=None,
                   iters_choices=(0, 1, 2, 5, 10), units_choices=(1, 1, 2, 3),
                   min_mono=0):
  """Returns (cfg, labels).  `force`: optional class label steering trusts:
  'ew', 'tz', 'ew+tz_match', 'ew+tz_other', 'tz_shared_cond', 'tz_mono_cond',
  'none'."""
  sizes, shape_class = lattice_sizes(rng, max_vertices)
  rank = len(sizes)
  units = int(rng.choice(units_choices))
  while int(np.prod(sizes)) * units > max_vertices * 2 and units > 1:
    units -= 1
  pm = rng.choice([.3, .6, 1.0])
  mono = [int(rng.rand() < pm) for _ in range(rank)]
  if sum(mono) < min_mono:
    for d in rng.permutation(rank)[:min_mono]:
      mono[int(d)] = 1
  labels = ["shape:" + shape_class, "rank:%d" % rank, "units:%d" % units]
  trust_class = force or rng.choice(
      ["none", "ew", "tz", "ew+tz_match", "ew+tz_other", "tz_shared_cond", "tz_mono_cond", "many"],
      p=[.15, .15, .15, .1, .1, .1, .1, .15])
  ew, tz = [], []
  if rank >= 2 and trust_class != "none":
    if sum(mono) == 0:
      mono[int(rng.randint(rank))] = 1
    if sum(mono) == rank and trust_class not in ("tz_mono_cond",) and rng.rand() < .6:
      # make room for a free conditional feature
      mono[int(rng.randint(rank))] = 0
      if sum(mono) == 0:
        mono[0] = 1
    mains_all = [d for d in range(rank) if mono[d]]
    nm = int(rng.randint(1, len(mains_all) + 1))
    if nm == rank:
      nm = rank - 1
    main_set = [int(x) for x in rng.choice(mains_all, size=max(nm, 1), replace=False)]
    cond_set = [d for d in range(rank) if d not in main_set]
    if trust_class == "tz_mono_cond":
      mc = [c for c in cond_set if mono[c]]
      if not mc:
        mono[cond_set[0]] = 1
    dirs = {}

    def pick(m=None, c=None):
      m = int(rng.choice(main_set)) if m is None else m
      c = int(rng.choice(cond_set)) if c is None else c
      dr = dirs.setdefault((m, c), int(rng.choice([-1, 1])))
      return (m, c, dr)
    if trust_class == "ew":
      ew = [pick() for _ in range(int(rng.randint(1, 3)))]
    elif trust_class == "tz":
      tz = [pick() for _ in range(int(rng.randint(1, 3)))]
    elif trust_class == "ew+tz_match":
      t = pick()
      ew, tz = [t], [t]
    elif trust_class == "ew+tz_other":
      ew, tz = [pick()], [pick()]
    elif trust_class == "tz_shared_cond":
      c = int(rng.choice(cond_set))
      tz = [pick(m=m, c=c) for m in main_set[:2]]
      if rng.rand() < .6:
        ew = [pick()]
    elif trust_class == "tz_mono_cond":
      mc = [c for c in cond_set if mono[c]]
      tz = [pick(c=int(rng.choice(mc)))]
      if rng.rand() < .7:
        ew = [pick()]
    else:
      for _ in range(int(rng.randint(2, 5))):
        (ew if rng.rand() < .5 else tz).append(pick())
    ew = sorted(set(ew))
    tz = sorted(set(tz))
  else:
    trust_class = "none"
  labels.append("trust:" + str(trust_class))
  unimod = [0] * rank
  mdom, rdom, jmono, junimod = [], [], [], []
  if approx_families:
    for d in range(rank):
      if not mono[d] and sizes[d] >= 3 and rng.rand() < .3:
        unimod[d] = int(rng.choice([-1, 1]))
    monos = [d for d in range(rank) if mono[d]]
    if len(monos) >= 2 and rng.rand() < .3:
      a, b = [int(x) for x in rng.choice(monos, 2, replace=False)]
      mdom.append((a, b))
    if len(monos) >= 2 and rng.rand() < .3:
      a, b = [int(x) for x in rng.choice(monos, 2, replace=False)]
      rdom.append((a, b))
    if rank >= 2 and rng.rand() < .25:
      a, b = [int(x) for x in rng.choice(rank, 2, replace=False)]
      jmono.append((a, b))
    cand = [d for d in range(rank) if not mono[d] and not unimod[d] and sizes[d] >= 3]
    if len(cand) >= 1 and rng.rand() < .25:
      k = int(rng.randint(1, min(2, len(cand)) + 1))
      dims = [int(x) for x in rng.choice(cand, k, replace=False)]
      junimod.append((dims, str(rng.choice(["valley", "peak"]))))
  for nm_, v in (("unimod", any(unimod)), ("mdom", mdom), ("rdom", rdom), ("jmono", jmono), ("junimod", junimod)):
    if v:
      labels.append("approx:" + nm_)
  b = str(rng.choice(["none", "min", "max", "both"], p=[.3, .15, .15, .4]))
  omin = omax = None
  if b in ("min", "both"):
    omin = float(rng.choice([-1.0, 0.0, 0.5, -100.0]))
  if b in ("max", "both"):
    omax = (omin if omin is not None else 0.0) + float(rng.choice([0.5, 1.0, 3.0, 1000.0]))
  labels.append("bounds:" + b)
  iters = int(rng.choice(iters_choices))
  labels.append("iters:%d" % iters)
  cfg = dict(sizes=sizes, units=units, mono=mono, unimod=unimod, ew=[list(t) for t in ew],
             tz=[list(t) for t in tz], mdom=[list(t) for t in mdom], rdom=[list(t) for t in rdom],
             jmono=[list(t) for t in jmono], junimod=[[list(d), s] for d, s in junimod],
             omin=omin, omax=omax, iters=iters)
  return cfg, labels


def kernel(rng, n, units, kclass=None):
  kclass = kclass or str(rng.choice(KERNEL_CLASSES))
  if kclass == "gauss":
    w = rng.normal(size=(n, units))
  elif kclass == "big":
    w = rng.normal(size=(n, units)) * 1e4
  elif kclass == "tiny":
    w = rng.normal(size=(n, units)) * 1e-4
  elif kclass == "ties":
    w = rng.randint(0, 2, size=(n, units)).astype(float)
  elif kclass == "ints":
    w = rng.randint(-3, 4, size=(n, units)).astype(float)
  elif kclass == "sorted":
    w = np.sort(rng.normal(size=(n, units)), axis=0)
  elif kclass == "anti":
    w = -np.sort(rng.normal(size=(n, units)), axis=0)
  elif kclass == "const":
    w = np.ones((n, units)) * rng.normal(size=(1, units)) * 3
  elif kclass == "spike":
    w = np.zeros((n, units))
    for u in range(units):
      w[int(rng.randint(n)), u] = float(rng.choice([-1, 1])) * float(rng.choice([1, 50]))
  elif kclass == "far_offset":
    w = rng.normal(size=(n, units)) + float(rng.choice([-1, 1])) * 500.0
  else:  # neg_feasible_like: decreasing in index sum -> violates every monotone row
    w = -np.cumsum(np.abs(rng.normal(size=(n, units))), axis=0)
  # different magnitudes per unit so a reduction over the wrong axis cannot hide
  if units > 1 and kclass not in ("ties", "ints"):
    w = w * np.array([1.0, 10.0, 0.1, 3.0])[:units][None, :]
  return kclass, w.astype(np.float32)


def constraint_kwargs(cfg):
  """cfg -> keyword arguments for LatticeConstraints / Lattice."""
  t = lambda l: [tuple(x) for x in l] or None
  return dict(
      lattice_sizes=list(cfg["sizes"]),
      monotonicities=list(cfg["mono"]),
      unimodalities=list(cfg["unimod"]) if any(cfg.get("unimod") or []) else None,
      edgeworth_trusts=t(cfg.get("ew") or []),
      trapezoid_trusts=t(cfg.get("tz") or []),
      monotonic_dominances=t(cfg.get("mdom") or []),
      range_dominances=t(cfg.get("rdom") or []),
      joint_monotonicities=t(cfg.get("jmono") or []),
      joint_unimodalities=[(tuple(d), s) for d, s in (cfg.get("junimod") or [])] or None,
      output_min=cfg.get("omin"), output_max=cfg.get("omax"))
