"""Seeded generators for PWL calibrator configurations and kernels."""
import numpy as np

SPACINGS = [0.01, 0.5, 1.0, 1.0, 7.0]


def pwl_config(rng, i, iters_choices=(0, 1, 2, 8, 30), allow_cyclic=True):
  nk = int(rng.choice([2, 3, 4, 5, 6, 9, 40], p=[.16, .16, .16, .16, .15, .15, .06]))      # 40: calibrators far larger than any test uses
  units = int(rng.choice([1, 1, 2, 3]))
  mono = int([1, -1, 0][i % 3])
  conv = int(rng.choice([0, 0, 1, -1]))
  b = str(rng.choice(["none", "min", "max", "both"], p=[.15, .2, .2, .45]))
  omin = omax = None
  if b in ("min", "both"):
    omin = float(rng.choice([-1.0, 0.0, 0.5, -20.0]))
  if b in ("max", "both"):
    omax = (omin if omin is not None else 0.0) + float(rng.choice([0.0, 0.5, 1.0, 3.0, 100.0]))
  cmin = bool(rng.rand() < .35) and omin is not None and mono != 0
  cmax = bool(rng.rand() < .35) and omax is not None and mono != 0
  cyclic = bool(allow_cyclic and mono == 0 and conv == 0 and rng.rand() < .3)
  lengths = [float(x) for x in rng.choice(SPACINGS, size=nk - 1)]
  if rng.rand() < .2:
    lengths = [float(rng.uniform(0.05, 3.0)) for _ in range(nk - 1)]
  iters = int(rng.choice(iters_choices))
  cfg = dict(mono=mono, conv=conv, omin=omin, omax=omax, clamp_min=cmin, clamp_max=cmax,
             cyclic=cyclic, units=units, lengths=lengths, kp0=float(rng.choice([0.0, -3.0, 10.0])), iters=iters)
  labels = ["mono:%d" % mono, "conv:%d" % conv, "bounds:" + b, "clamp:%d%d" % (cmin, cmax),
            "cyclic:%d" % cyclic, "units:%d" % units, "nk:%d" % nk, "iters:%d" % iters]
  return cfg, labels


def pwl_kernel(rng, nk, units, mono, kclass=None):
  kclass = kclass or str(rng.choice(["gauss", "big", "farbias", "wrongsign", "tiny", "ints", "zeros", "rightsign"]))
  w = rng.normal(size=(nk, units))
  if kclass == "big":
    w *= 1e3
  elif kclass == "farbias":
    w[0] += float(rng.choice([-50, 50]))
  elif kclass == "wrongsign":
    w[1:] = -np.abs(w[1:]) * (mono if mono else 1)
  elif kclass == "rightsign":
    w[1:] = np.abs(w[1:]) * (mono if mono else 1)
  elif kclass == "tiny":
    w *= 1e-4
  elif kclass == "ints":
    w = rng.randint(-3, 4, size=(nk, units)).astype(float)
  elif kclass == "zeros":
    w[1:] = 0.0
  if units > 1 and kclass not in ("ints",):
    w = w * np.array([1.0, 10.0, 0.1, 3.0])[:units][None, :]
  return kclass, w.astype(np.float32)


def pwl_feasible(rng, cfg):
  """Kernel whose keypoint outputs satisfy every configured constraint with a
  margin where a margin exists (constructive)."""
  lengths = np.asarray(cfg["lengths"], dtype=np.float64)
  nk = len(lengths) + 1
  units = cfg["units"]
  mono, conv = cfg["mono"], cfg["conv"]
  omin, omax = cfg.get("omin"), cfg.get("omax")
  cols = []
  for u in range(units):
    if conv != 0:
      slopes = np.sort(rng.normal(size=nk - 1))
      if conv == -1:
        slopes = slopes[::-1]
      if mono == 1:
        slopes = slopes - min(slopes.min(), 0.0) + float(rng.uniform(0.0, 0.5))
      elif mono == -1:
        slopes = slopes - max(slopes.max(), 0.0) - float(rng.uniform(0.0, 0.5))
    else:
      slopes = rng.normal(size=nk - 1)
      if mono == 1:
        slopes = np.abs(slopes)
      elif mono == -1:
        slopes = -np.abs(slopes)
    heights = slopes * lengths
    out = np.concatenate([[0.0], np.cumsum(heights)])
    lo, hi = out.min(), out.max()
    span = max(hi - lo, 1e-9)
    if omin is not None and omax is not None:
      width = omax - omin
      cm, cx = cfg.get("clamp_min"), cfg.get("clamp_max")
      if width <= 0:
        a, off = 0.0, omin
      elif cm and cx:
        a, off = width / span, omin
      elif cm:
        a = min(1.0, width * float(rng.uniform(.3, .9)) / span); off = omin
      elif cx:
        a = min(1.0, width * float(rng.uniform(.3, .9)) / span); off = omax - a * (hi - lo)
      else:
        a = min(1.0, width * float(rng.uniform(.3, .9)) / span)
        off = omin + (width - a * (hi - lo)) * float(rng.uniform(.1, .9))
      out = (out - lo) * a + off
    elif omin is not None:
      out = out - lo + omin + (0.0 if cfg.get("clamp_min") else float(rng.uniform(0.05, 2.0)))
    elif omax is not None:
      out = out - hi + omax - (0.0 if cfg.get("clamp_max") else float(rng.uniform(0.05, 2.0)))
    else:
      out = out + float(rng.normal())
    cols.append(np.concatenate([[out[0]], np.diff(out)]))
  return np.stack(cols, axis=1)
