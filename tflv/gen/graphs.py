"""Random acyclic pair graphs (chains, diamonds, forests, shared parents,
duplicate pairs) over a node set, listed in random order."""
import numpy as np


def dag_pairs(rng, nodes, kind=None, max_pairs=8):
  """Returns (pairs [(lo, hi)...] meaning value[lo] <= value[hi], kind)."""
  nodes = [int(v) for v in nodes]
  if len(nodes) < 2:
    return [], "empty"
  kind = kind or str(rng.choice(["chain", "fan_out", "fan_in", "diamond", "forest", "random", "single", "dup"]))
  order = [nodes[int(k)] for k in rng.permutation(len(nodes))]
  pairs = []
  if kind == "single":
    pairs = [(order[0], order[1])]
  elif kind == "chain":
    L = int(rng.randint(2, len(order) + 1))
    pairs = [(order[k], order[k + 1]) for k in range(L - 1)]
  elif kind == "fan_out":          # one lower end, several upper neighbours
    pairs = [(order[0], order[k]) for k in range(1, min(len(order), 4))]
  elif kind == "fan_in":
    pairs = [(order[k], order[0]) for k in range(1, min(len(order), 4))]
  elif kind == "diamond" and len(order) >= 4:
    a, b, c, d = order[:4]
    pairs = [(a, b), (a, c), (b, d), (c, d)]
    if len(order) > 4 and rng.rand() < .5:
      pairs.append((d, order[4]))
  elif kind == "forest" and len(order) >= 4:
    pairs = [(order[0], order[1]), (order[2], order[3])]
    if len(order) >= 6:
      pairs += [(order[2], order[4]), (order[5], order[3])]
  elif kind == "dup":
    pairs = [(order[0], order[1]), (order[0], order[1])]
    if len(order) > 2:
      pairs.append((order[1], order[2]))
  else:
    kind = "random"
    for a in range(len(order)):
      for b in range(a + 1, len(order)):
        if rng.rand() < .35 and len(pairs) < max_pairs:
          pairs.append((order[a], order[b]))
    if not pairs:
      pairs = [(order[0], order[1])]
  idx = rng.permutation(len(pairs))
  return [pairs[int(k)] for k in idx], kind
