"""Seeded generator of small, fully specified premade model configs (and
calibrator->lattice/linear Sequential stacks), with a JSON description from
which the model can be rebuilt exactly (replay)."""
import numpy as np

KP = [0.0, 1.0, 2.0, 3.0]
KINDS = ["linear", "lattice", "lattice_kfl", "ens_explicit", "ens_explicit_kfl", "ens_random", "rtl", "rtl_kfl", "stack_lattice", "stack_linear", "stack_rtl"]
FEATURE_TYPES = ["inc", "dec", "none", "cat", "catnone"]


def describe(rng, kind=None, allow_convexity=True, nf=None):
  """Returns a JSON-able description of a model."""
  kind = kind or str(rng.choice(KINDS))
  nf = nf or int(rng.randint(2, 5))
  ls = int(rng.choice([2, 2, 3]))
  same_ls = kind in ("lattice_kfl", "ens_explicit_kfl", "rtl", "rtl_kfl", "stack_rtl")
  feats = []
  for i in range(nf):
    t = str(rng.choice(FEATURE_TYPES, p=[.3, .2, .15, .25, .1]))
    f = {"name": "f%d" % i, "type": t, "lattice_size": ls if same_ls else int(rng.choice([2, 3])), "default_value": None}
    if t in ("cat", "catnone"):
      f["num_buckets"] = int(rng.choice([3, 4, 5]))
      if t == "cat":
        if rng.rand() < .5:
          f["pairs"] = [[0, 1], [0, 2]] if rng.rand() < .6 else [[0, 1], [1, 2]]
        else:
          # any acyclic set of pairs, listed in any order (joins, forks, diamonds: the projection visits them topologically)
          from tflv.gen import graphs
          f["num_buckets"] = int(rng.choice([4, 5]))
          pr, _ = graphs.dag_pairs(rng, list(range(f["num_buckets"])), kind=str(rng.choice(["diamond", "random", "random", "fan_in", "forest"])))
          f["pairs"] = [[int(a), int(b)] for a, b in pr]
      if rng.rand() < .25:
        f["default_value"] = -1
    else:
      if rng.rand() < .3:
        f["default_value"] = -1.0
      f["always_monotonic"] = bool(rng.rand() < .2)
      f["clamp_min"] = bool(t != "none" and rng.rand() < .2)
      f["clamp_max"] = bool(t != "none" and rng.rand() < .2)
      f["keypoints_type"] = str(rng.choice(["fixed", "fixed", "learned_interior"]))
      f["convexity"] = int(rng.choice([0, 0, 0, 1, -1])) if allow_convexity else 0
      if f["keypoints_type"] == "learned_interior":
        f["convexity"] = 0
    feats.append(f)
  if kind in ("stack_lattice", "stack_linear", "stack_rtl"):
    for f in feats:
      f["lattice_size"] = max(2, f["lattice_size"])
  b = str(rng.choice(["none", "both", "both", "min", "max"]))
  omin = omax = None
  if b in ("min", "both"):
    omin = float(rng.choice([-1.0, 0.0]))
  if b in ("max", "both"):
    omax = (omin if omin is not None else 0.0) + float(rng.choice([1.0, 2.0]))
  oc = bool(rng.rand() < .3)
  if kind == "stack_linear":
    omin = omax = None      # a Linear stack has no output bounds of its own
    b = "none"
  d = {"kind": kind, "features": feats, "omin": omin, "omax": omax, "bounds": b, "output_calibration": oc,
       "interpolation": str(rng.choice(["hypercube", "simplex"])), "use_bias": bool(rng.rand() < .5),
       "separate_calibrators": bool(rng.rand() < .5), "use_linear_combination": bool(rng.rand() < .4),
       "random_seed": int(rng.randint(100)), "num_terms": int(rng.choice([1, 2])),
       "oc_keypoints_type": str(rng.choice(["fixed", "learned_interior"]))}
  names = [f["name"] for f in feats]
  if kind.startswith("ens_explicit"):
    lat = [[str(x) for x in rng.choice(names, size=min(2, nf), replace=False)] for _ in range(3)]
    for n_ in names:
      if not any(n_ in l for l in lat):
        lat.append([n_, names[0] if names[0] != n_ else names[1]])
    d["lattices"] = lat
  # per-feature and model-level regularizer configs (both at once: the builder merges the two lists)
  d["regularizers"] = bool(rng.rand() < .25)
  d["num_lattices"] = max(2, int(np.ceil(nf / 2.0)) + int(rng.randint(0, 2)))
  d["lattice_rank"] = 2
  return d


def build(desc):
  """desc -> keras model (premade or Sequential stack)."""
  import tensorflow_lattice as tfl
  import tf_keras as keras
  kind = desc["kind"]
  fcs = []
  for f in desc["features"]:
    if f["type"] in ("cat", "catnone"):
      fcs.append(tfl.configs.FeatureConfig(
          f["name"], lattice_size=f["lattice_size"], num_buckets=f["num_buckets"],
          monotonicity=[tuple(p) for p in f["pairs"]] if f["type"] == "cat" else "none",
          default_value=f["default_value"]))
    else:
      fcs.append(tfl.configs.FeatureConfig(
          f["name"], lattice_size=f["lattice_size"],
          monotonicity={"inc": "increasing", "dec": "decreasing", "none": "none"}[f["type"]],
          pwl_calibration_input_keypoints=list(KP), default_value=f["default_value"],
          pwl_calibration_always_monotonic=f["always_monotonic"], pwl_calibration_convexity=f["convexity"],
          pwl_calibration_clamp_min=f["clamp_min"], pwl_calibration_clamp_max=f["clamp_max"],
          pwl_calibration_input_keypoints_type=f["keypoints_type"],
          regularizer_configs=([tfl.configs.RegularizerConfig(name="calib_wrinkle", l2=1e-3)] if desc.get("regularizers") else None)))
  omin, omax, oc = desc["omin"], desc["omax"], desc["output_calibration"]
  oi = [omin if omin is not None else -1.0, omax if omax is not None else 2.0]
  common = dict(feature_configs=fcs, output_min=omin, output_max=omax, output_calibration=oc,
                output_initialization=oi if not oc else [float(v) for v in np.linspace(oi[0], oi[1], 4)],
                output_calibration_input_keypoints_type=desc["oc_keypoints_type"])
  if desc.get("regularizers") and not kind.startswith("stack"):
    common["regularizer_configs"] = [tfl.configs.RegularizerConfig(name="calib_hessian", l2=1e-3)] + (
        [] if (kind == "linear" or "kfl" in kind) else [tfl.configs.RegularizerConfig(name="torsion", l2=1e-3)])   # KFL rejects lattice regularizers
  if kind == "linear":
    cfg = tfl.configs.CalibratedLinearConfig(
        use_bias=bool(omin is None and omax is None and not oc and desc["use_bias"]), **common)
    return tfl.premade.CalibratedLinear(cfg)
  if kind in ("lattice", "lattice_kfl"):
    cfg = tfl.configs.CalibratedLatticeConfig(
        parameterization="kronecker_factored" if "kfl" in kind else "all_vertices",
        interpolation=desc["interpolation"] if "kfl" not in kind else "hypercube", num_terms=desc["num_terms"], **common)
    return tfl.premade.CalibratedLattice(cfg)
  if kind in ("ens_explicit", "ens_explicit_kfl", "ens_random", "rtl", "rtl_kfl"):
    if kind.startswith("rtl"):
      lat = "rtl_layer"
    elif kind == "ens_random":
      lat = "random"
    else:
      lat = [list(l) for l in desc["lattices"]]
    cfg = tfl.configs.CalibratedLatticeEnsembleConfig(
        lattices=lat, num_lattices=desc["num_lattices"], lattice_rank=desc["lattice_rank"],
        parameterization="kronecker_factored" if "kfl" in kind else "all_vertices", num_terms=desc["num_terms"],
        interpolation=desc["interpolation"] if "kfl" not in kind else "hypercube",
        separate_calibrators=desc["separate_calibrators"], use_linear_combination=desc["use_linear_combination"],
        random_seed=desc["random_seed"], **common)
    if kind == "ens_random":
      tfl.premade_lib.set_random_lattice_ensemble(cfg)
    return tfl.premade.CalibratedLatticeEnsemble(cfg)
  # Sequential stack: ParallelCombination of calibrators -> Lattice / Linear
  # (stack_rtl: the documented two-layer RTL stack - calibrators -> RTL(separate_outputs=True) -> RTL, functional API)
  comb = tfl.layers.ParallelCombination() if kind != "stack_rtl" else []
  sizes, monos = [], []
  for f in desc["features"]:
    s = f["lattice_size"]
    sizes.append(s)
    if f["type"] in ("cat", "catnone"):
      comb.append(tfl.layers.CategoricalCalibration(
          num_buckets=f["num_buckets"], output_min=0.0, output_max=s - 1.0,
          monotonicities=[tuple(p) for p in f["pairs"]] if f["type"] == "cat" else None,
          default_input_value=f["default_value"]))
      monos.append(1 if f["type"] == "cat" else 0)
    else:
      comb.append(tfl.layers.PWLCalibration(
          input_keypoints=list(KP), output_min=0.0, output_max=s - 1.0,
          monotonicity={"inc": "increasing", "dec": "decreasing", "none": "none"}[f["type"]],
          clamp_min=f["clamp_min"], clamp_max=f["clamp_max"], convexity=f["convexity"],
          impute_missing=f["default_value"] is not None, missing_input_value=f["default_value"],
          input_keypoints_type=f["keypoints_type"]))
      monos.append(1 if f["type"] in ("inc", "dec") else 0)
  if kind == "stack_rtl":
    inp = keras.layers.Input(shape=(len(sizes),))
    groups = {"unconstrained": [], "increasing": []}
    for i, (cal, m) in enumerate(zip(comb, monos)):
      groups["increasing" if m else "unconstrained"].append(cal(inp[:, i:i + 1]))
    groups = {k: v for k, v in groups.items() if v}
    ls = sizes[0]
    h = tfl.layers.RTL(num_lattices=desc["num_lattices"], lattice_rank=2, lattice_size=ls, output_min=0.0, output_max=ls - 1.0,
                       separate_outputs=True, random_seed=desc["random_seed"], interpolation=desc["interpolation"])(groups)
    out = tfl.layers.RTL(num_lattices=2, lattice_rank=2, lattice_size=ls, output_min=omin, output_max=omax, average_outputs=True,
                         random_seed=desc["random_seed"] + 1, interpolation=desc["interpolation"])(h)
    return keras.models.Model(inp, out)
  model = keras.models.Sequential()
  model.add(keras.layers.Input(shape=(len(sizes),)))
  model.add(comb)
  if kind == "stack_lattice":
    model.add(tfl.layers.Lattice(lattice_sizes=sizes, monotonicities=monos, output_min=omin, output_max=omax,
                                 interpolation=desc["interpolation"]))
  else:
    # calibrators are already oriented: the linear layer must be increasing in each calibrated, monotone input
    model.add(tfl.layers.Linear(num_input_dims=len(sizes), monotonicities=monos,
                                normalization_order=1 if (omin is not None or omax is not None) and all(monos) else None,
                                use_bias=False if (omin is not None or omax is not None) else True))
  return model


def stack_has_bounds(desc):
  """Whether the property's bound claim applies to a stack (Lattice enforces
  output bounds itself; a Linear stack is bounded only as a weighted average)."""
  if desc["kind"] == "stack_lattice":
    return True
  if desc["kind"] == "stack_linear":
    return False
  return True


def grid_axes(desc):
  nf = len(desc["features"])
  num = np.array([-1.5, 0.0, 0.5, 1.0, 1.7, 3.0, 4.5]) if nf <= 3 else np.array([-1.5, 0.0, 1.2, 3.0, 4.5])
  axes = []
  for f in desc["features"]:
    axes.append(np.arange(f["num_buckets"]) if f["type"] in ("cat", "catnone") else num)
  return axes


def model_inputs(desc, cols):
  """cols: list of 1-D arrays per feature -> the input structure the model takes."""
  if desc["kind"].startswith("stack"):
    return np.stack([np.asarray(c, dtype=np.float32) for c in cols], axis=1)
  out = []
  for f, c in zip(desc["features"], cols):
    dt = np.int32 if f["type"] in ("cat", "catnone") else np.float32
    out.append(np.asarray(c).reshape(-1, 1).astype(dt))
  return out
