"""C10 - Freshly built layers already satisfy their monotonicity and bound
constraints.

Monitors: the weights immediately after build (every tfl initializer through
the real layer), layer.assert_constraints(), constraint(initial kernel).
Oracles: shape predicates written from the documentation (linear / valley /
peak / constant along dims, init range, sortedness, equal heights / slopes),
grid monotonicity + bounds for KFL, O-cat for categorical.
"""
import itertools

import numpy as np

from tflv import core
from tflv import findings
from tflv.gen import graphs
from tflv.gen import lattice as genl
from tflv.oracles import feasible as feas

PROPERTY = "C10"
RULE = ("case = (layer kind, configuration: sizes/keypoints/buckets, units, monotonicities, unimodalities, bounds incl. one-sided and negative "
        "ranges, initializer id, random seed); the real layer is built and its fresh weights are judged; non-trivial = some monotonicity / "
        "unimodality / bound / ordering is configured; distinct by digest of the configuration (+ seed for random initializers)")
MIN_EVENTS = {
    "quick": {"PWLCalibration.init/function-shape": 60, "PWLCalibration.init/keypoints-are-the-configured-ones": 60, "Lattice.init/shape": 80, "Lattice.init/assert_constraints": 80, "Lattice.init/constraint-leaves-unchanged": 40,
              "PWLCalibration.init/shape": 80, "PWLCalibration.init/assert_constraints": 80,
              "KFL.init/monotone-bounded-on-grid": 50, "CategoricalCalibration.init/feasible": 40},
    "thorough": {"PWLCalibration.init/function-shape": 2100, "PWLCalibration.init/keypoints-are-the-configured-ones": 2100, "Lattice.init/shape": 3500, "Lattice.init/assert_constraints": 3500, "Lattice.init/constraint-leaves-unchanged": 1800,
                 "PWLCalibration.init/shape": 3500, "PWLCalibration.init/assert_constraints": 3500,
                 "KFL.init/monotone-bounded-on-grid": 2200, "CategoricalCalibration.init/feasible": 1800},
}
ASSUMPTIONS = [
    "configurations rejected by the constructor with ValueError (e.g. one-sided bounds that make the init range empty) are counted as rejected, not judged",
    "shape predicates with tol = 1e-5*max(1,|kernel|)",
]
_state = {}


def setup(ctx):
  from tflv import tfenv
  tf, tfl = tfenv.setup()
  _state.update(tf=tf, tfl=tfl)


def _ensure():
  if "tf" not in _state:
    setup(None)
  return _state


def _bounds(rng):
  b = str(rng.choice(["none", "min", "max", "both", "both_negative"]))
  omin = omax = None
  if b == "min":
    omin = float(rng.choice([-1.0, 0.0, 0.5, -30.0, 4.0]))
  elif b == "max":
    omax = float(rng.choice([0.5, 1.0, 3.0, 100.0, -2.0]))
  elif b == "both":
    omin = float(rng.choice([0.0, 0.5, -1.0]))
    omax = omin + float(rng.choice([0.5, 1.0, 10.0]))
  elif b == "both_negative":
    omax = float(rng.choice([-1.0, -0.25]))
    omin = omax - float(rng.choice([0.5, 4.0]))
  return b, omin, omax


def gen_cases(ctx):
  rng = ctx.rng
  kinds = ["lattice", "lattice", "pwl", "pwl", "kfl", "categorical"]
  for i in range(ctx.n):
    kind = kinds[i % len(kinds)]
    b, omin, omax = _bounds(rng)
    units = int(rng.choice([1, 1, 2, 3]))
    seed = int(rng.randint(2**31 - 1))
    if kind == "lattice":
      sizes, _ = genl.lattice_sizes(rng, 200, max_rank=4)
      rank = len(sizes)
      mono = [int(rng.rand() < .5) for _ in range(rank)]
      unimod = [0] * rank
      for d in range(rank):
        if not mono[d] and sizes[d] >= 3 and rng.rand() < .4:
          unimod[d] = int(rng.choice([-1, 1]))
      if rng.rand() < .15:
        mono = [0] * rank
        unimod = [0] * rank
      yield {"kind": kind, "sizes": sizes, "units": units, "mono": mono, "unimod": unimod, "bounds": b, "omin": omin, "omax": omax,
             "init": str(rng.choice(["linear_initializer", "random_monotonic_initializer", "random_uniform_or_linear_initializer"])),
             "mono_spelling": str(rng.choice(["int", "str"])), "seed": seed}
    elif kind == "pwl":
      nk = int(rng.choice([2, 3, 5, 8]))
      kp = np.concatenate([[0.0], np.cumsum(rng.choice([.1, .5, 1., 4.], size=nk - 1))]) + float(rng.choice([-3.0, 0.0, 10.0]))
      mono = int(rng.choice([-1, 0, 1]))
      yield {"kind": kind, "kp": [float(v) for v in kp], "units": units, "mono": mono, "conv": 0, "bounds": b, "omin": omin, "omax": omax,
             "clamp_min": bool(mono and omin is not None and rng.rand() < .3), "clamp_max": bool(mono and omax is not None and rng.rand() < .3),
             "init": str(rng.choice(["equal_heights", "equal_slopes"])), "cyclic": bool(mono == 0 and rng.rand() < .2), "seed": seed,
             "kp_type": "learned_interior" if rng.rand() < .35 else "fixed", "impute": bool(rng.rand() < .4),
             "via_config": bool(rng.rand() < .3)}
      # is_cyclic with equal_slopes cannot be built at all (TypeError in the initializer): that is C16's known finding KF-C16-c
    elif kind == "kfl":
      dims = int(rng.randint(1, 4))
      mm = str(rng.choice(["some", "all", "none_list", "None"]))
      mono = {"some": [int(rng.rand() < .5) for _ in range(dims)], "all": [1] * dims, "none_list": [0] * dims, "None": None}[mm]
      yield {"kind": kind, "L": int(rng.choice([2, 3, 4])), "dims": dims, "units": int(rng.choice([1, 2])), "terms": int(rng.choice([1, 2, 3])),
             "mono": mono, "bounds": b, "omin": omin, "omax": omax, "clip": bool(rng.rand() < .5), "seed": seed}
    else:
      nb = int(rng.randint(2, 7))
      pairs, gk = graphs.dag_pairs(rng, list(range(nb))) if rng.rand() < .6 else ([], "none")
      yield {"kind": kind, "nb": nb, "units": units, "pairs": [list(p) for p in pairs], "graph": gk, "bounds": b, "omin": omin, "omax": omax,
             "init": str(rng.choice(["uniform", "constant"])), "seed": seed}


def _assert_ok(ctx, site, layer, what, scale=None):
  """The layer's own assert_constraints().  Its default eps is an absolute 1e-6; PWLCalibration evaluates call() at the
  float32 keypoints, whose interpolation weight at the last keypoint can round to 1 - 1e-6, so an exactly feasible kernel of
  magnitude 4 is reported 4e-6 off its clamp.  With `scale` given, a rejection at the default eps is re-judged at
  eps = 1e-5 * scale - the rounding allowance used by every other oracle here - and only that verdict counts."""
  tf = _state["tf"]
  try:
    layer.assert_constraints()
    ctx.check(site, True)
    return True
  except tf.errors.InvalidArgumentError as e:
    if scale is not None and core.REL_TOL * scale > 1e-6:
      try:
        layer.assert_constraints(eps=core.REL_TOL * scale)
        ctx.note("assert_constraints:default-eps-below-float32-rounding")
        ctx.check(site, True)
        return True
      except tf.errors.InvalidArgumentError:
        pass
    return str(e).strip().splitlines()[0][:200]
  except Exception as e:
    ctx.check(site, False, "%s: assert_constraints() raised %s: %s" % (what, type(e).__name__, str(e)[:200]))
    return True


def _run_lattice(ctx, case, st):
  tf, tfl = st["tf"], st["tfl"]
  sizes, units = case["sizes"], case["units"]
  rank = len(sizes)
  mono, unimod = case["mono"], case["unimod"]
  mono_arg = ["increasing" if m else "none" for m in mono] if case["mono_spelling"] == "str" else mono
  tf.keras.utils.set_random_seed(case["seed"] % (2**31))
  try:
    layer = tfl.layers.Lattice(lattice_sizes=sizes, units=units, monotonicities=mono_arg,
                               unimodalities=unimod if any(unimod) else None,
                               output_min=case["omin"], output_max=case["omax"], kernel_initializer=case["init"])
    if case["seed"] % 3 == 0:
      layer = tfl.layers.Lattice.from_config(layer.get_config())     # re-created from its own config, then built afresh
      ctx.cls("lattice:via_config")
    layer.build((None, rank) if units == 1 else (None, units, rank))
  except ValueError as e:
    ctx.note("rejected:lattice:" + str(e)[:60])
    return False, None
  K = layer.kernel.numpy().astype(np.float64)
  init = case["init"]
  ctx.cls("lattice:init=" + init, "lattice:bounds=" + case["bounds"], "units:%d" % units)
  from tensorflow_lattice.python import lattice_lib
  imin, imax = lattice_lib.default_init_params(case["omin"], case["omax"])
  direct = case["seed"] % 4 == 1
  if direct:
    # the public helper behind the layer (also RTL's entry point), with an explicit initialization range inside the bounds:
    # the kernel it produces has the same documented shape, over [init_min, init_max]
    from tensorflow_lattice.python import lattice_layer as ll_
    r_ = np.random.RandomState(case["seed"])
    lo_, hi_ = imin, imax
    a_ = lo_ + (hi_ - lo_) * float(r_.choice([0.0, 0.2, 0.5]))
    b_ = a_ + (hi_ - a_) * float(r_.choice([0.25, 0.5, 1.0]))
    try:
      ini = ll_.create_kernel_initializer(init, lattice_sizes=sizes, monotonicities=mono, output_min=case["omin"], output_max=case["omax"],
                                          unimodalities=unimod if any(unimod) else None, joint_unimodalities=None, init_min=a_, init_max=b_)
      K = np.asarray(ini(shape=(int(np.prod(sizes)), units), dtype=tf.float32)).astype(np.float64)
    except ValueError as e:
      ctx.note("rejected:create_kernel_initializer:" + str(e)[:60])
      return False, None
    imin, imax = a_, b_
    ctx.cls("lattice:create_kernel_initializer(init_min,init_max)")
  W = K.reshape(sizes + [units])
  tol = core.REL_TOL * core.scale_of(K, [imin, imax])
  msgs = []
  if not np.all(np.isfinite(K)):
    msgs.append("non-finite initial kernel")
  if abs(K.min() - min(imin, imax)) > tol and init != "random_monotonic_initializer":
    msgs.append("min %.6g != init range min %.6g" % (K.min(), imin))
  if abs(K.max() - max(imin, imax)) > tol and init != "random_monotonic_initializer":
    msgs.append("max %.6g != init range max %.6g" % (K.max(), imax))
  if K.min() < imin - tol or K.max() > imax + tol:
    msgs.append("kernel [%.6g, %.6g] outside init range [%.6g, %.6g]" % (K.min(), K.max(), imin, imax))
  if init == "random_monotonic_initializer":
    for d in range(rank):
      if (-np.diff(W, axis=d)).max() > tol:
        msgs.append("random monotonic init decreases along dim %d" % d)
    if not direct:
      # different seeds give different kernels (if there is any freedom)
      tf.keras.utils.set_random_seed((case["seed"] + 1) % (2**31))
      l2 = tfl.layers.Lattice(lattice_sizes=sizes, units=units, monotonicities=mono_arg, output_min=case["omin"], output_max=case["omax"],
                              kernel_initializer=init)
      l2.build((None, rank) if units == 1 else (None, units, rank))
      if imax > imin and np.array_equal(l2.kernel.numpy(), layer.kernel.numpy()):
        msgs.append("random monotonic init identical for two different seeds")
  else:
    eff_mono = list(mono)
    if not any(mono) and not any(unimod):
      eff_mono = [1] * rank
    for d in range(rank):
      df = np.diff(W, axis=d)
      if eff_mono[d]:
        if df.min() < -tol:
          msgs.append("linear init decreases along monotone dim %d" % d)
        if sizes[d] >= 3 and np.abs(np.diff(W, n=2, axis=d)).max() > tol:
          msgs.append("linear init not linear along monotone dim %d" % d)
        if imax > imin and df.max() <= tol:
          msgs.append("linear init is flat along monotone dim %d" % d)
      elif unimod[d]:
        k = np.arange(sizes[d] - 1)
        first = k < sizes[d] // 2
        inc = first if unimod[d] == -1 else ~first
        shape = [1] * W.ndim
        shape[d] = -1
        sgn = np.where(inc, 1.0, -1.0).reshape(shape)
        if (-sgn * df).max() > tol:
          msgs.append("init along unimodal dim %d is not %s-shaped" % (d, "valley" if unimod[d] == 1 else "peak"))
        if imax > imin and np.abs(df).max() <= tol:
          msgs.append("init flat along unimodal dim %d" % d)
      else:
        if np.abs(df).max() > tol:
          msgs.append("init not constant along unconstrained dim %d" % d)
  if units > 1 and np.abs(K - K[:, :1]).max() > 0 and init != "random_monotonic_initializer":
    msgs.append("units initialised differently")
  ctx.check("Lattice.init/shape", not msgs, "; ".join(msgs), info={"kernel": core.brief(K.tolist()), "init_range": [imin, imax], "direct": direct})
  if direct:
    return bool(any(mono) or any(unimod) or imax > imin), None
  r = _assert_ok(ctx, "Lattice.init/assert_constraints", layer, "Lattice")
  if r is not True:
    ctx.check("Lattice.init/assert_constraints", False, "fresh Lattice fails its own assert_constraints(): %s" % r)
  c = layer.kernel.constraint
  # claimed only for configurations with nothing but monotonicity and bounds
  if c is not None and not any(unimod):
    out = c(layer.kernel).numpy().astype(np.float64)
    d = float(np.abs(out - K).max())
    ctx.check("Lattice.init/constraint-leaves-unchanged", d <= 10 * tol, "weight constraint moves the initial kernel by %.3g" % d, ratio=d / (10 * tol))
  nontrivial = bool(any(mono) or any(unimod) or case["omin"] is not None or case["omax"] is not None)
  return nontrivial, None


def _run_pwl(ctx, case, st):
  tf, tfl = st["tf"], st["tfl"]
  if case["cyclic"] and case["init"] == "equal_slopes":
    case = dict(case, init="equal_heights")
  kp = case["kp"]
  units, mono = case["units"], case["mono"]
  try:
    layer = tfl.layers.PWLCalibration(input_keypoints=kp, units=units, monotonicity=mono, output_min=case["omin"], output_max=case["omax"],
                                      clamp_min=case["clamp_min"], clamp_max=case["clamp_max"], kernel_initializer=case["init"],
                                      is_cyclic=case["cyclic"], input_keypoints_type=case.get("kp_type", "fixed"),
                                      **({"impute_missing": True, "missing_input_value": -1000.0} if case.get("impute") else {}))
    if case.get("via_config"):
      # a layer re-created from its own config (clone_model, model_from_json) is built by the same initializers
      layer = tfl.layers.PWLCalibration.from_config(layer.get_config())
      ctx.cls("pwl:via_config")
    layer.build((None, 1))
  except ValueError as e:
    ctx.note("rejected:pwl:" + str(e)[:60])
    return False, None
  ctx.cls("pwl:keypoints=" + case.get("kp_type", "fixed"), "pwl:units=%d" % units)
  K = layer.kernel.numpy().astype(np.float64)
  outs = np.cumsum(K, axis=0)
  imin, imax = layer._output_init_min, layer._output_init_max
  tol = core.REL_TOL * core.scale_of(outs, [imin, imax])
  ctx.cls("pwl:init=" + case["init"], "pwl:mono=%d" % mono, "pwl:bounds=" + case["bounds"], "pwl:cyclic=%s" % case["cyclic"])
  msgs = []
  start, end = (imax, imin) if mono == -1 else (imin, imax)
  if abs(outs[0, 0] - start) > tol:
    msgs.append("first keypoint output %.6g != %.6g" % (outs[0, 0], start))
  h = K[1:]
  if not case["cyclic"]:
    if abs(outs[-1, 0] - end) > tol:
      msgs.append("last keypoint output %.6g != %.6g" % (outs[-1, 0], end))
    sgn = -1.0 if mono == -1 else 1.0
    if (sgn * h).min() < -tol:
      msgs.append("initial function not monotone in the configured direction")
    if h.shape[0] >= 2:
      if case["init"] == "equal_heights":
        if np.abs(h - h[:1]).max() > tol:
          msgs.append("heights not equal")
      else:
        lens = np.diff(np.asarray(kp, dtype=np.float32).astype(np.float64))
        sl = h / lens[:, None]
        if np.abs(sl - sl[:1]).max() > core.REL_TOL * max(1.0, np.abs(sl).max()) * 10:
          msgs.append("slopes not equal")
  if case["omin"] is not None and outs.min() < case["omin"] - tol:
    msgs.append("initial outputs below output_min")
  if case["omax"] is not None and outs.max() > case["omax"] + tol:
    msgs.append("initial outputs above output_max")
  ctx.check("PWLCalibration.init/shape", not msgs, "; ".join(msgs), info={"keypoint_outputs": outs[:, 0].tolist(), "init_range": [imin, imax]})
  # the initial *function*, through call(): it passes through the configured keypoints (fixed or learned: the initial
  # learned keypoints are the configured ones) at the equal-heights / equal-slopes values, in every unit
  kp64 = np.asarray(kp, dtype=np.float64)
  rng_ = kp64[-1] - kp64[0]
  ki = layer.keypoints_inputs().numpy().astype(np.float64)            # (nk, units) or (nk,)
  ki = ki.reshape(len(kp64), -1)
  dk = float(np.abs(ki - kp64[:, None]).max())
  ctx.check("PWLCalibration.init/keypoints-are-the-configured-ones", dk <= 1e-5 * max(1.0, rng_, np.abs(kp64).max()),
            "fresh layer reports keypoints %.6g away from input_keypoints" % dk, info={"reported": ki.T.tolist(), "configured": kp64.tolist()})
  if not case["cyclic"]:
    nk = len(kp64)
    if case["init"] == "equal_heights":
      want_kp = np.linspace(start, end, nk)
    else:
      want_kp = start + (end - start) * (kp64 - kp64[0]) / rng_
    mids = (kp64[:-1] + kp64[1:]) / 2
    xs = np.concatenate([kp64, mids])
    want = np.concatenate([want_kp, (want_kp[:-1] + want_kp[1:]) / 2])
    y = layer(tf.constant(xs.reshape(-1, 1).astype(np.float32))).numpy().astype(np.float64).reshape(len(xs), -1)
    seg = np.abs(np.diff(want_kp)) / np.diff(kp64)
    tf_ = 1e-4 * core.scale_of(want, [imin, imax]) + float(seg.max()) * 1e-5 * max(1.0, rng_, np.abs(kp64).max())
    e = float(np.abs(y - want[:, None]).max())
    ctx.check("PWLCalibration.init/function-shape", e <= tf_,
              "fresh %s layer is off its %s function by %.3g (tol %.3g) in some unit" % (case.get("kp_type", "fixed"), case["init"], e, tf_),
              info={"x": xs.tolist(), "want": want.tolist(), "got": y.T.tolist()}, ratio=e / tf_)
  if case.get("impute"):
    # the learned value substituted for missing inputs is a weight with the same output bounds
    mo = layer.missing_output.numpy().astype(np.float64)
    okm = (case["omin"] is None or mo.min() >= case["omin"] - tol) and (case["omax"] is None or mo.max() <= case["omax"] + tol)
    moc = layer.missing_output.constraint(layer.missing_output).numpy() if layer.missing_output.constraint is not None else mo
    okm = okm and float(np.abs(moc - mo).max()) <= tol
    ctx.cls("pwl:impute_missing")
    ctx.check("PWLCalibration.init/missing-output-in-bounds", bool(okm),
              "fresh layer's learned missing output %s is outside [%s, %s] (or moved by its own constraint)" % (mo.ravel().tolist(), case["omin"], case["omax"]))
  r = _assert_ok(ctx, "PWLCalibration.init/assert_constraints", layer, "PWLCalibration", scale=core.scale_of(outs, [imin, imax]))
  if r is not True:
    ctx.check("PWLCalibration.init/assert_constraints", False, "fresh PWLCalibration fails its own assert_constraints(): %s" % r)
  c = layer.kernel.constraint
  out = c(layer.kernel).numpy().astype(np.float64)
  d = float(np.abs(out - K).max())
  ctx.check("PWLCalibration.init/constraint-leaves-unchanged", d <= 10 * tol, "weight constraint moves the initial kernel by %.3g" % d, ratio=d / (10 * tol))
  return bool(mono or case["omin"] is not None or case["omax"] is not None), None


def _run_kfl(ctx, case, st):
  tf, tfl = st["tf"], st["tfl"]
  L, dims, units = case["L"], case["dims"], case["units"]
  tf.keras.utils.set_random_seed(case["seed"] % (2**31))
  try:
    extra = {}
    if case["seed"] % 3 == 2:
      case = dict(case, omin=None, omax=None, bounds="none")       # (bounds are a statement about the library's own scale initializer)
      # a scale of mixed signs across units and terms (any Keras initializer may be given for the scale): the library's
      # kernel initializer takes the scale as an argument and orders each unit's and term's weights accordingly
      import tf_keras
      extra["scale_initializer"] = tf_keras.initializers.RandomUniform(-1.0, 1.0, seed=case["seed"] % 1000)
      ctx.cls("kfl:scale=mixed-signs")
    layer = tfl.layers.KroneckerFactoredLattice(lattice_sizes=L, units=units, num_terms=case["terms"], monotonicities=case["mono"],
                                                output_min=case["omin"], output_max=case["omax"], clip_inputs=case["clip"], **extra)
    g = np.linspace(0, L - 1, 2 * (L - 1) + 1) if not case["clip"] else np.linspace(-1, L, 2 * (L + 1) + 1)
    pts = np.array(list(itertools.product(g, repeat=dims)), dtype=np.float32)
    X = pts if units == 1 else np.repeat(pts[:, None, :], units, axis=1)
    y = layer(tf.constant(X)).numpy().astype(np.float64)
  except ValueError as e:
    ctx.note("rejected:kfl:" + str(e)[:60])
    return False, None
  Y = y.reshape([len(g)] * dims + [units])
  tol = core.REL_TOL * core.scale_of(Y, [b for b in (case["omin"], case["omax"]) if b is not None])
  msgs = []
  for d, m in enumerate(case["mono"] or []):
    if m and (-np.diff(Y, axis=d)).max() > tol:
      msgs.append("fresh KFL decreases along increasing input %d by %.3g" % (d, (-np.diff(Y, axis=d)).max()))
  if case["omin"] is not None and Y.min() < case["omin"] - tol:
    msgs.append("fresh KFL output %.6g below output_min" % Y.min())
  if case["omax"] is not None and Y.max() > case["omax"] + tol:
    msgs.append("fresh KFL output %.6g above output_max" % Y.max())
  ctx.cls("kfl:bounds=" + case["bounds"], "kfl:dims=%d" % dims)
  ctx.check("KFL.init/monotone-bounded-on-grid", not msgs, "; ".join(msgs))
  r = _assert_ok(ctx, "KFL.init/assert_constraints", layer, "KroneckerFactoredLattice")
  if r is not True:
    ctx.check("KFL.init/assert_constraints", False, "fresh KFL fails its own assert_constraints(): %s" % r)
  if layer.kernel.constraint is not None:
    K = layer.kernel.numpy().astype(np.float64)
    d = float(np.abs(layer.kernel.constraint(layer.kernel).numpy() - K).max())
    ctx.check("KFL.init/constraint-leaves-unchanged", d <= 1e-5 * core.scale_of(K), "kernel constraint moves the initial kernel by %.3g" % d)
  if layer.scale.constraint is not None:
    S = layer.scale.numpy().astype(np.float64)
    d = float(np.abs(layer.scale.constraint(layer.scale).numpy() - S).max())
    ctx.check("KFL.init/constraint-leaves-unchanged", d <= 1e-6 * core.scale_of(S), "scale constraint moves the initial scale by %.3g" % d)
  return bool(any(case["mono"] or []) or case["omin"] is not None or case["omax"] is not None), None


def _run_cat(ctx, case, st):
  tf, tfl = st["tf"], st["tfl"]
  tf.keras.utils.set_random_seed(case["seed"] % (2**31))
  try:
    layer = tfl.layers.CategoricalCalibration(num_buckets=case["nb"], units=case["units"], output_min=case["omin"], output_max=case["omax"],
                                              monotonicities=[tuple(p) for p in case["pairs"]] or None, kernel_initializer=case["init"])
    layer.build((None, 1))
  except ValueError as e:
    ctx.note("rejected:categorical:" + str(e)[:60])
    return False, None
  K = layer.kernel.numpy().astype(np.float64)
  tol = core.REL_TOL * core.scale_of(K)
  ctx.cls("categorical:init=" + case["init"], "categorical:graph=" + case["graph"], "categorical:bounds=" + case["bounds"])
  bmsg = []
  lo_bad = case["omin"] is not None and K.min() < case["omin"] - tol
  hi_bad = case["omax"] is not None and K.max() > case["omax"] + tol
  if lo_bad or hi_bad:
    bmsg.append("initial values [%.6g, %.6g] outside [%s, %s]" % (K.min(), K.max(), case["omin"], case["omax"]))
  one_sided = (case["omin"] is None) != (case["omax"] is None)
  fkb = findings.classify_c10_categorical_bounds(case["omin"], case["omax"], case["init"]) if bmsg else None
  ctx.check("CategoricalCalibration.init/bounds", not bmsg, "; ".join(bmsg), info={"init": case["init"]}, finding=fkb)
  v = max([float((K[i] - K[j]).max()) for i, j in case["pairs"]] + [0.0])
  fk = "KF-C03-a" if v > tol else None
  ctx.check("CategoricalCalibration.init/feasible", v <= tol, "fresh kernel violates its ordering pairs by %.3g" % v,
            info={"pairs": case["pairs"], "kernel": K.tolist()}, finding=fk)
  r = _assert_ok(ctx, "CategoricalCalibration.init/assert_constraints", layer, "CategoricalCalibration")
  if r is not True:
    # assert_constraints uses eps = 1e-6: a fresh kernel that ignores its ordering pairs by less than this check's own
    # tolerance (1e-5 * scale) is the same finding (thorough tier: two uniform(-0.05, 0.05) values 3e-6 apart)
    fk2 = "KF-C03-a" if (v > tol or (v > 0 and "Monotonicity violation" in str(r))) else (fkb if bmsg else None)
    ctx.check("CategoricalCalibration.init/assert_constraints", False, "fresh CategoricalCalibration fails its own assert_constraints(): %s" % r,
              finding=fk2)
  return bool(case["pairs"] or case["omin"] is not None or case["omax"] is not None), None


def run_case(ctx, case):
  st = _ensure()
  fn = {"lattice": _run_lattice, "pwl": _run_pwl, "kfl": _run_kfl, "categorical": _run_cat}[case["kind"]]
  nontrivial, _ = fn(ctx, case, st)
  return nontrivial, core.digest(case)
