"""C01 - Lattice weight constraint (strict mode) and finalize_constraints()
return kernels meeting every strict shape constraint; feasible kernels are
returned unchanged.

Monitors: LatticeConstraints.__call__ (strict instances),
lattice_lib.finalize_constraints, Lattice.finalize_constraints (layer kernel
before/after).  Oracle: float64 violation maps of O-rows (monotonicity,
Edgeworth, trapezoid) per unit + exact bound test; feasible => unchanged.
"""
import numpy as np

from tflv import core
from tflv import findings
from tflv import modes
from tflv import monitors
from tflv.gen import lattice as gen
from tflv.oracles import lattice as ol
from tflv.oracles import feasible as feas

PROPERTY = "C01"
RULE = ("cases = (lattice configuration, kernel, entry point) drawn from structured classes "
        "(shape x trust class x approx families x bounds x iterations x kernel class); "
        "non-trivial = the configuration has >=1 strictly enforced family and either the input "
        "violated a strict row or a bound by > tol (projection had work to do) or the case is a "
        "feasible-must-stay-unchanged case; distinct by digest of (config, entry point, kernel)")
MIN_EVENTS = {
    "quick": {"LatticeConstraints.__call__/strict-rows": 300,
              "lattice_lib.finalize_constraints/strict-rows": 60,
              "Lattice.finalize_constraints/strict-rows": 20,
              "feasible-unchanged": 60},
    "thorough": {"LatticeConstraints.__call__/strict-rows": 5000,
                 "lattice_lib.finalize_constraints/strict-rows": 2000,
                 "Lattice.finalize_constraints/strict-rows": 300,
                 "feasible-unchanged": 1000},
}
ASSUMPTIONS = [
    "float32 layer arithmetic judged with tol = 1e-5*max(1,|w_in|,|w_out|); bounds judged exactly against float32(bound)",
    "approximately enforced families (unimodality, dominances, joint constraints) are configured alongside but not asserted",
    "documented exception (>=2 trapezoid trusts sharing a conditional feature with Edgeworth trusts present): trapezoid rows of those trusts exempt",
    "kernels are finite and small enough that no float32 overflow occurs (|w| <= 1e5)",
]

_state = {}


def _tuples(l):
  return [tuple(x) for x in (l or [])]


def strict_report(cfg, w_in, w_out, floor=1.0):
  """Judges one constraint output.  Returns list of failures
  [(kind, key, maxviol, tol, info)], and bookkeeping."""
  sizes, units = list(cfg["sizes"]), int(w_out.shape[1])
  mono, ew, tz = cfg["mono"], _tuples(cfg.get("ew")), _tuples(cfg.get("tz"))
  # intermediate values of the bound squashing live at the magnitude of the
  # bounds themselves (w - output_min), so they belong to the rounding scale
  scale = core.scale_of(w_in, w_out, [b for b in (cfg.get('omin'), cfg.get('omax')) if b is not None], floor=floor)
  tol = core.REL_TOL * scale
  W = np.asarray(w_out, dtype=np.float64).reshape(sizes + [units])
  failures, ratios = [], []
  if not np.all(np.isfinite(W)):
    return [("nonfinite", ("nonfinite",), float("inf"), tol, {})], []
  # documented exception
  exempt = set()
  if ew:
    conds = {}
    for t in tz:
      conds.setdefault(t[1], []).append(t)
    for c, ts in conds.items():
      if len(ts) >= 2:
        exempt.update(ts)
  maps = ol.violation_maps(W, sizes, mono, ew, tz)
  for key, V in maps.items():
    mx = float(V.max()) if V.size else 0.0
    if key[0] == "trapezoid" and tuple(key[1:4]) in exempt:
      if mx > tol:
        failures.append(("documented-exception", key, mx, tol, {}))
      continue
    if mx > tol:
      info = {"max_violation": mx, "tol": tol, "scale": scale}
      if key[0] == "monotonicity":
        info["positions"] = np.argwhere(V > tol)[:2000].tolist()
        info["n_positions"] = int((V > tol).sum())
      failures.append(("row", key, mx, tol, info))
    else:
      ratios.append((max(mx, 0.0) / tol, key))
  return failures, ratios


def bounds_report(cfg, w_out, tol=0.0):
  fails = []
  cast = np.asarray(w_out).dtype.type if np.asarray(w_out).dtype.kind == "f" else np.float32   # the value the op compares against
  if cfg.get("omin") is not None:
    lo = float(np.min(w_out))
    if not lo >= float(cast(cfg["omin"])) - tol:
      fails.append(("lower", lo, float(cast(cfg["omin"]))))
  if cfg.get("omax") is not None:
    hi = float(np.max(w_out))
    if not hi <= float(cast(cfg["omax"])) + tol:
      fails.append(("upper", hi, float(cast(cfg["omax"]))))
  return fails


def judge(ctx, site, cfg, w_in, w_out, check_bounds, floor=1.0):
  """Post-condition shared by generated workloads and the repo-tests plugin."""
  failures, ratios = strict_report(cfg, w_in, w_out, floor)
  has_strict = any(cfg["mono"]) or cfg.get("ew") or cfg.get("tz")
  if has_strict:
    bad = [f for f in failures if f[0] != "documented-exception"]
    for f in failures:
      if f[0] == "documented-exception":
        ctx.note("documented-exception-trapezoid-residual")
    for r, key in ratios:
      ctx.near(r, site + "/" + key[0])
    if not bad:
      ctx.check(site + "/strict-rows", True)
    for kind, key, mx, tol, info in bad:
      fk = findings.classify_c01(cfg, kind, key, info)
      ctx.check(site + "/strict-rows", False,
                "%s %s violated by %.3g (tol %.3g)" % (kind, list(key), mx, tol),
                info={k: v for k, v in info.items() if k != "positions"}, finding=fk)
  if check_bounds and (cfg.get("omin") is not None or cfg.get("omax") is not None):
    # the constraint ends with tf.maximum/minimum: exact.  The layer method
    # adds (projection - kernel) back onto the variable, which rounds: tol.
    if check_bounds == "exact":
      bf = bounds_report(cfg, w_out)
      ctx.check(site + "/bounds-exact", not bf, "kernel leaves bounds: %s" % (bf,))
    else:
      bf = bounds_report(cfg, w_out, tol=core.tol_of(w_in, w_out))
      ctx.check(site + "/bounds-tol", not bf, "kernel leaves bounds: %s" % (bf,))
  return failures


def input_violation(cfg, w_in):
  return feas.lattice_violation(cfg, w_in)


# -------------------------------------------------------------------------
def setup(ctx):
  from tflv import tfenv
  tf, tfl = tfenv.setup()
  _state["tf"] = tf
  from tensorflow_lattice.python import lattice_layer, lattice_lib
  _state["ll"], _state["lib"] = lattice_layer, lattice_lib


def _ensure():
  if "tf" not in _state:
    setup(None)
  return _state["tf"], _state["ll"], _state["lib"]


def gen_cases(ctx):
  rng = ctx.rng
  maxv = 256 if ctx.tier == "quick" else 1024
  trust_classes = ["none", "ew", "tz", "ew+tz_match", "ew+tz_other", "tz_shared_cond", "tz_mono_cond", "many"]
  i = 0
  ncfg = 0
  while i < ctx.n:
    force = trust_classes[ncfg % len(trust_classes)]
    ncfg += 1
    big = (ctx.tier == "thorough" and ncfg % 25 == 0)
    cfg, labels = gen.lattice_config(rng, max_vertices=(4096 if big else maxv), force=force,
                                     iters_choices=(0, 1, 2, 5, 10, 50) if ctx.tier == "thorough" else (0, 1, 2, 5, 10))
    n = int(np.prod(cfg["sizes"]))
    entry = ["constraint", "lib_finalize", "constraint", "layer_finalize", "constraint"][ncfg % 5]
    for rep in range(2):
      mode = "random" if rep == 0 else str(rng.choice(["feasible_lp", "feasible_struct", "random", "near_feasible"]))
      if mode == "feasible_lp" and n > 150:
        mode = "feasible_struct"
      kclass = None
      kscale = None
      if mode in ("random",):
        kclass, w = gen.kernel(rng, n, cfg["units"])
        if rng.rand() < .12 and float(np.abs(w).max()) > 0:
          # micro kernels: the projections are scale-equivariant (sums, averages, max/min - no absolute constants), so
          # without bounds a kernel of magnitude 1e-8 must come out as feasible *relative to its own scale*
          kscale = float(rng.choice([1e-8, 1e-12, 1e-20]))
          cfg = dict(cfg, omin=None, omax=None)
          w = (w.astype(np.float64) * kscale).astype(np.float32)
          kclass = "micro/" + kclass
        w = w.tolist()
      else:
        w = None  # built in run_case from the seed below (keeps replay exact: stored after build)
      yield {"kind": entry, "cfg": cfg, "mode": mode, "kclass": kclass, "w": w, "kscale": kscale,
             "kseed": int(rng.randint(2**31 - 1)), "labels": labels,
             "exec": modes.pick(rng, (0.7, 0.3, 0.0), allow=("eager", "graph")),
             "dtype": "float64" if rng.rand() < .12 else "float32"}
      i += 1


def _materialise_kernel(case):
  cfg = case["cfg"]
  n, units = int(np.prod(cfg["sizes"])), cfg["units"]
  if case.get("w") is not None:
    return np.asarray(case["w"], dtype=np.float32).reshape(n, units)
  rng = np.random.RandomState(case["kseed"])
  if case["mode"] == "feasible_lp":
    w = feas.lattice_feasible_lp(cfg, rng)
  else:
    w = feas.lattice_feasible_struct(cfg, rng)
  if case["mode"] == "near_feasible":
    w = w + rng.normal(size=w.shape) * 1e-3 * max(1.0, float(np.abs(w).max()))
  w = feas.map_into_bounds(w, cfg, rng) if case["mode"] != "near_feasible" else w
  w = np.asarray(w, dtype=np.float32)
  case["w"] = w.tolist()
  return w


def run_case(ctx, case):
  tf, ll, lib = _ensure()
  cfg = case["cfg"]
  w = _materialise_kernel(case)
  kw = gen.constraint_kwargs(cfg)
  kind = case["kind"]
  ctx.cls(*case.get("labels", []))
  ctx.cls("entry:" + kind, "mode:" + case["mode"], "kernel:" + str(case.get("kclass") or case["mode"]))
  ex = case.get("exec", "eager")
  dt = case.get("dtype", "float32")
  ctx.cls("exec:" + ex, "dtype:" + dt)
  w = w.astype(dt)
  floor = 1.0
  if case.get("kscale"):
    floor = 0.0
    ctx.cls("micro-kernel")
  strict_in, every_in = input_violation(cfg, w)
  scale_in = core.scale_of(w, floor=floor)
  feasible_in = every_in <= 1e-6 * scale_in
  has_strict = bool(any(cfg["mono"]) or cfg.get("ew") or cfg.get("tz"))
  has_bounds = cfg.get("omin") is not None or cfg.get("omax") is not None

  if kind == "constraint":
    c = ll.LatticeConstraints(num_projection_iterations=cfg["iters"], **kw)
    out = modes.call(tf, ex, c, tf.constant(w)).numpy()
    site = "LatticeConstraints.__call__"
    judge(ctx, site, cfg, w, out, check_bounds="exact", floor=floor)
    # idempotence on outputs the oracle judges feasible for every family
    s2, e2 = input_violation(cfg, out)
    if e2 <= 1e-6 * core.scale_of(out, floor=floor):
      out2 = modes.call(tf, ex, c, tf.constant(out)).numpy()
      d = float(np.max(np.abs(out2.astype(np.float64) - out)))
      t = 1e-4 * core.scale_of(out, floor=floor)
      ctx.check("feasible-unchanged", d <= t,
                "constraint moved its own feasible output by %.3g (tol %.3g)" % (d, t),
                info={"entry": site, "moved": d}, ratio=d / t)
  elif kind == "lib_finalize":
    out = modes.call(tf, ex, lambda t: lib.finalize_constraints(
        t, lattice_sizes=kw["lattice_sizes"], monotonicities=kw["monotonicities"],
        edgeworth_trusts=kw["edgeworth_trusts"], trapezoid_trusts=kw["trapezoid_trusts"],
        output_min=kw["output_min"], output_max=kw["output_max"]), tf.constant(w)).numpy()
    site = "lattice_lib.finalize_constraints"
    judge(ctx, site, cfg, w, out, check_bounds=None, floor=floor)
  else:
    mstep = bool(case["kseed"] % 2)
    shape = (None, len(cfg["sizes"])) if cfg["units"] == 1 else (None, cfg["units"], len(cfg["sizes"]))
    lkw = dict(kw, **({} if dt == "float32" else {"dtype": dt}))
    if case["kseed"] % 5 == 0:
      # TF1 graph mode, as the method documents ("in graph mode returns a group op ... which has to be executed"):
      # own Graph, weights fed through a placeholder, the returned op run in a Session, kernel fetched through it
      v1 = tf.compat.v1
      ctx.cls("exec:v1-session")
      graph = tf.Graph()
      with graph.as_default():
        layer = ll.Lattice(units=cfg["units"], monotonic_at_every_step=mstep, num_projection_iterations=cfg["iters"], **lkw)
        layer.build(shape)
        ph = v1.placeholder(layer.kernel.dtype, layer.kernel.shape)
        assign = layer.kernel.assign(ph)
        fin = layer.finalize_constraints()
        with v1.Session(graph=graph) as sess:
          sess.run(v1.global_variables_initializer())
          sess.run(assign, {ph: w})
          sess.run(fin)
          out = sess.run(layer.kernel)
    else:
      layer = ll.Lattice(units=cfg["units"], monotonic_at_every_step=mstep, num_projection_iterations=cfg["iters"], **lkw)
      layer.build(shape)
      if case["kseed"] % 3 == 1:
        # finalize_constraints() is called again and again on one layer (after every epoch, say): an earlier call on another
        # kernel must leave nothing behind that the call judged here picks up
        layer.kernel.assign((np.random.RandomState(case["kseed"]).normal(size=w.shape) * 3).astype(dt))
        layer.finalize_constraints()
        ctx.cls("layer_finalize:second-call-on-the-same-layer")
      layer.kernel.assign(w)
      layer.finalize_constraints()
      out = layer.kernel.numpy()
    site = "Lattice.finalize_constraints"
    ctx.cls("monotonic_at_every_step:%s" % mstep)
    judge(ctx, site, cfg, w, out, check_bounds="tol", floor=floor)

  if feasible_in:
    d = float(np.max(np.abs(out.astype(np.float64) - w.astype(np.float64))))
    t = 1e-4 * core.scale_of(w, out, floor=floor)
    ctx.check("feasible-unchanged", d <= t,
              "%s moved a feasible kernel by %.3g (tol %.3g; input violation %.3g)" % (site, d, t, every_in),
              info={"entry": site, "moved": d, "input_violation": every_in}, ratio=d / t)
  work = strict_in > core.REL_TOL * scale_in
  nontrivial = (has_strict or has_bounds) and (work or feasible_in)
  return nontrivial, core.digest([cfg, kind, ex, dt, core.arr_digest(w)])
