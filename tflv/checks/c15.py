"""C15 - Conditional calibration (pwl_calibration_fn) and CDF (cdf_fn, CDF
layer) are bounded and monotone by construction; documented call forms are
accepted.

Monitors: the public callables at their boundary.  Oracle O-pairs on sorted
inputs / coordinate-wise pairs, range tests, clamp / cyclic / missing-value
equalities.  No reference implementation is needed: every claim is a predicate
on the outputs (plus the derived parameters the function itself returns, used
for the float32 conditioning bound and for the KF-C05-a mechanism predicate).
"""
import numpy as np

from tflv import core
from tflv import modes
from tflv import findings

PROPERTY = "C15"
RULE = ("case = pwl_calibration_fn (units, #keypoints, parameter magnitude in {1,30,1e2,1e4}, parameter shapes: None / 2-D / 3-D, batch 1 or B, "
        "monotonicity, clamps, cyclic, missing mode, inputs incl. exactly the end keypoints and the missing value) | cdf_fn / CDF layer "
        "(activation, reduction, sparsity, scaling type, magnitudes); non-trivial = outputs not all equal; distinct by digest of (options, parameters, inputs)")
MIN_EVENTS = {
    "quick": {"pwl_calibration_fn/in-range": 1000, "pwl_calibration_fn/monotone": 30, "pwl_calibration_fn/clamp-at-ends": 100,
              "pwl_calibration_fn/cyclic-ends-equal": 8, "pwl_calibration_fn/missing": 40, "pwl_calibration_fn/call-form-accepted": 60,
              "cdf/in-range": 30, "cdf/monotone": 90},
    "thorough": {"pwl_calibration_fn/in-range": 40000, "pwl_calibration_fn/monotone": 1200, "pwl_calibration_fn/clamp-at-ends": 4000,
                 "pwl_calibration_fn/cyclic-ends-equal": 300, "pwl_calibration_fn/missing": 1500, "pwl_calibration_fn/call-form-accepted": 2500,
                 "cdf/in-range": 1200, "cdf/monotone": 3500},
}
ASSUMPTIONS = [
    "parameter magnitudes up to 1e4 (1e30-scale values overflow x - location, which the properties exclude)",
    "tolerance 1e-5*max(1,|bounds|) plus the float32 conditioning bound sum_i |height_i|*min(1, delta/length_i) of the derived segments",
    "call forms generated: those on which docstring, validator and the repository's tests agree (None / 2-D / 3-D with second dimension `units` for output parameters, 1 or `units` for input parameters; batch 1 or batch_size)",
    "CDF monotonicity is claimed for non-negative scaling only (learned scalings after their NonNeg constraint)",
]
_state = {}


def setup(ctx):
  from tflv import tfenv
  tf, tfl = tfenv.setup()
  from tensorflow_lattice.python import conditional_pwl_calibration as cpc
  from tensorflow_lattice.python import conditional_cdf as ccdf
  _state.update(tf=tf, tfl=tfl, cpc=cpc, ccdf=ccdf)


def _ensure():
  if "tf" not in _state:
    setup(None)
  return _state


def gen_cases(ctx):
  rng = ctx.rng
  for i in range(ctx.n):
    if i % 3 != 2:
      mono = ["none", "increasing"][i % 2]
      nk = int(rng.choice([2, 3, 4, 5, 8], p=[.3, .2, .2, .15, .15]))      # nk == 2: the documented form without interior keypoint parameters
      miss = str(rng.choice(["no", "derived", "value"]))
      yield {"kind": "pwl", "units": int(rng.choice([1, 1, 2, 3])), "nk": nk, "mono": mono,
             "clamp_min": bool(mono == "increasing" and rng.rand() < .5), "clamp_max": bool(mono == "increasing" and rng.rand() < .5),
             "cyclic": bool(mono == "none" and rng.rand() < .4), "missing": miss,
             "mag": float(rng.choice([1.0, 30.0, 1e2, 1e4])), "in_form": str(rng.choice(["3d", "3d_units1", "2d", "none_if_nk2"])),
             "out_form": str(rng.choice(["3d", "2d"])), "batch_params": bool(rng.rand() < .5),
             "imin": float(rng.choice([0.0, -5.0, 100.0])), "irange": float(rng.choice([1.0, 10.0, 0.01, 0.25])),
             "omin": float(rng.choice([0.0, -2.0, 10.0])), "orange": float(rng.choice([1.0, 5.0, 0.0])),
             "wide": bool(rng.rand() < .5), "seed": int(rng.randint(2**31 - 1)), "exec": modes.pick(rng, (0.5, 0.2, 0.3))}
    else:
      sf = int(rng.choice([1, 1, 2]))
      yield {"kind": str(rng.choice(["cdf_fn", "cdf_layer"])), "units": sf * int(rng.choice([1, 2])), "input_dim": sf * int(rng.choice([1, 2, 3])),
             "nkp": int(rng.choice([1, 2, 5])), "activation": str(rng.choice(["relu6", "sigmoid"])),
             "reduction": str(rng.choice(["mean", "geometric_mean", "none"])), "sparsity": sf,
             "scaling": str(rng.choice(["none", "positive", "exp", "fixed", "learned_shared", "learned_per_input"])),
             "mag": float(rng.choice([1.0, 30.0, 1e2, 1e4])), "seed": int(rng.randint(2**31 - 1)), "exec": modes.pick(rng, (0.5, 0.2, 0.3)),
             "dtype": "float64" if rng.rand() < .15 else "float32"}


def _run_pwl(ctx, case, st):
  tf, cpc = st["tf"], st["cpc"]
  rng = np.random.RandomState(case["seed"])
  units, nk, mono = case["units"], case["nk"], case["mono"]
  cmin, cmax, cyc = case["clamp_min"], case["clamp_max"], case["cyclic"]
  imin, imax = case["imin"], case["imin"] + case["irange"]
  omin, omax = case["omin"], case["omin"] + case["orange"]
  miss = case["missing"]
  miv = (0.0 if (rng.rand() < .3 and imin != 0.0) else float(np.float32(imin - 3.0))) if miss != "no" else None      # 0.0: a marker that is falsy (never one of the probed end keypoints)
  mov = float(omin + 0.25 * (omax - omin)) if miss == "value" else None
  out_size = nk - cmin - cmax - cyc + (miss == "derived")
  if out_size <= 0:
    ctx.note("rejected:trivial-function")
    return False, None
  B = 14
  pb = B if case["batch_params"] else 1
  mag = case["mag"]
  # ---- parameters in the requested documented form ------------------------------
  if nk == 2:
    kin = None
    in_form = "None"
  else:
    in_units = 1 if case["in_form"] == "3d_units1" else units
    kin = (rng.normal(size=(pb, in_units, nk - 2)) * mag).astype(np.float32)
    in_form = case["in_form"] if case["in_form"] != "none_if_nk2" else "3d"
    if in_form == "2d":
      # documented: (1, P) / (batch, P), shared by all units
      kin = kin[:, 0, :]
  kout = (rng.normal(size=(pb, units, out_size)) * mag).astype(np.float32)
  out_form = case["out_form"]
  if out_form == "2d" and units == 1:
    kout = kout[:, 0, :]
  else:
    out_form = "3d"
  cols = units if (case["wide"] and units > 1) else 1
  x = np.sort(rng.uniform(imin - 0.3 * case["irange"], imax + 0.3 * case["irange"], size=(B, cols)), axis=0).astype(np.float32)
  x[0, :], x[-1, :] = imin - 2 * case["irange"], imax + 2 * case["irange"]
  x[1, :], x[-2, :] = np.float32(imin), np.float32(imax)
  x = np.sort(x, axis=0)
  kw = dict(keypoint_input_min=imin, keypoint_input_max=imax, keypoint_output_min=omin, keypoint_output_max=omax,
            units=units, monotonicity=mono, clamp_min=cmin, clamp_max=cmax, is_cyclic=cyc,
            missing_input_value=miv, missing_output_value=mov)
  ctx.cls("pwl:mono=" + mono, "pwl:clamp=%d%d" % (cmin, cmax), "pwl:cyclic=%s" % cyc, "pwl:missing=" + miss,
          "pwl:in_form=" + in_form, "pwl:out_form=" + out_form, "pwl:batch_params=%s" % case["batch_params"],
          "pwl:mag=%g" % mag, "pwl:units=%d" % units, "pwl:nk=%d" % nk)
  ex = case.get("exec", "eager")
  ctx.cls("exec:" + ex)
  # parameters shared across the batch (leading dimension 1) keep it static under graph_dyn
  dyn = [True, pb == B, pb == B]

  def pwl(derived, xx, ki, ko):
    if ki is None:
      return modes.call(tf, ex, lambda a, c: cpc.pwl_calibration_fn(a, None, c, return_derived_parameters=derived, **kw),
                        tf.constant(xx), tf.constant(ko), dyn=[dyn[0], dyn[2]])
    return modes.call(tf, ex, lambda a, b_, c: cpc.pwl_calibration_fn(a, b_, c, return_derived_parameters=derived, **kw),
                      tf.constant(xx), tf.constant(ki), tf.constant(ko), dyn=dyn)
  try:
    y, deltas, heights = pwl(True, x, kin, kout)
    y2 = pwl(False, x, kin, kout)
  except Exception as e:  # documented form rejected / crashed
    ctx.check("pwl_calibration_fn/call-form-accepted", False,
              "documented call form rejected: %s: %s" % (type(e).__name__, str(e).strip().splitlines()[-1][:200]),
              info={"in_form": in_form, "out_form": out_form, "nk": nk, "units": units})
    return True, None
  ctx.check("pwl_calibration_fn/call-form-accepted", True)
  y, deltas, heights = y.numpy().astype(np.float64), deltas.numpy(), heights.numpy()
  same = np.array_equal(y, y2.numpy().astype(np.float64), equal_nan=True)
  ctx.check("pwl_calibration_fn/derived-flag-does-not-change-output", bool(same), "return_derived_parameters changes the output")
  deltas = np.broadcast_to(deltas, (max(deltas.shape[0], 1), units, nk - 1))
  heights = np.broadcast_to(heights, (max(heights.shape[0], 1), units, nk))
  tol0 = core.REL_TOL * core.scale_of([omin, omax])
  delta = 4 * core.F32_EPS * max(abs(imin), abs(imax), 1e-30) * (1 + nk / 4.0)

  def cond_tol(b, u, xq=None):
    """Rounding allowance: the weight of piece i is uncertain by min(1, delta/length_i) - but only for an input within
    delta of that piece; an input clearly left (right) of it gives the piece weight exactly 0 (1) in any float32
    implementation, so a piece dropped for inputs far to its right is not absorbed."""
    d = deltas[min(b, deltas.shape[0] - 1), u].astype(np.float64)
    h = heights[min(b, heights.shape[0] - 1), u, 1:].astype(np.float64)
    unc = np.minimum(1.0, delta / np.maximum(d, 1e-300))
    if xq is not None:
      left = imin + np.concatenate([[0.0], np.cumsum(d)[:-1]])
      near = (xq >= left - 4 * delta) & (xq <= left + d + 4 * delta)
      unc = np.where(near, unc, 0.0)
    return tol0 + float(np.sum(np.abs(h) * unc))

  def degenerate(b, u):
    d = deltas[min(b, deltas.shape[0] - 1), u].astype(np.float32)
    k32 = (np.float32(imin) + np.concatenate([[0], np.cumsum(d)[:-1]]).astype(np.float32)).astype(np.float32)
    return k32, (k32 + d).astype(np.float32) == k32

  for b in range(B):
    for u in range(units):
      xv = x[b, u if cols > 1 else 0]
      yv = y[b, u]
      is_missing = miv is not None and xv == np.float32(miv)
      info = {"x": float(xv), "unit": u, "got": float(yv)}
      if is_missing:
        if mov is not None:
          ok = abs(yv - mov) <= tol0
        else:
          ok = np.isfinite(yv) and omin - tol0 <= yv <= omax + tol0
        ctx.check("pwl_calibration_fn/missing", bool(ok), "missing input -> %.6g (expected %s)" % (yv, mov if mov is not None else "a value inside the bounds"), info=info)
        continue
      t = cond_tol(b, u, float(xv))
      fk = None
      ok = bool(np.isfinite(yv)) and omin - t <= yv <= omax + t
      if not ok:
        fk = findings.classify_c05(xv, degenerate(b, u))
      ctx.check("pwl_calibration_fn/in-range", ok, "output %.9g not finite/inside [%g, %g] at x=%.9g" % (yv, omin, omax, xv), info=info, finding=fk,
                ratio=(max(omin - yv, yv - omax, 0) / t) if np.isfinite(yv) else None)
      if np.isfinite(yv):
        if cmin and xv <= np.float32(imin):
          ctx.check("pwl_calibration_fn/clamp-at-ends", abs(yv - omin) <= t, "clamp_min: f(%.9g)=%.9g, expected %.9g" % (xv, yv, omin), info=info)
        if cmax and xv >= np.float32(imax):
          ctx.check("pwl_calibration_fn/clamp-at-ends", abs(yv - omax) <= t, "clamp_max: f(%.9g)=%.9g, expected %.9g" % (xv, yv, omax), info=info)
  if miv is not None:
    xm = np.full((2, cols), np.float32(miv), dtype=np.float32)
    dyn = [True, False, False]
    ym = pwl(False, xm, None if kin is None else (kin[:1] if kin.shape[0] > 1 else kin), kout[:1] if kout.shape[0] > 1 else kout).numpy()
    if mov is not None:
      okm = bool(np.all(np.abs(ym - mov) <= tol0))
    else:
      okm = bool(np.all(np.isfinite(ym)) and ym.min() >= omin - tol0 and ym.max() <= omax + tol0)
      # the derived missing output is documented: sigmoid of each unit's last output parameter, rescaled into the range
      ko = (kout[:1] if kout.shape[0] > 1 else kout).astype(np.float64)
      ko = ko.reshape(1, -1, ko.shape[-1]) if ko.ndim == 3 else ko.reshape(1, 1, ko.shape[-1])
      last = np.clip(ko[0, :, -1], -700, 700)
      want = omin + (omax - omin) / (1.0 + np.exp(-last))               # (units,) or (1,)
      want = np.broadcast_to(want.reshape(1, -1), (2, units)) if want.size in (1, units) else None
      if okm and want is not None and ym.shape == (2, units):
        em = float(np.abs(ym - want).max())
        okm = em <= tol0 + 1e-5 * abs(omax - omin)
    ctx.check("pwl_calibration_fn/missing", okm, "missing input value maps to %s" % ym.tolist())
  if mono == "increasing" and not case["batch_params"]:
    for u in range(units):
      col = x[:, u if cols > 1 else 0]
      keep = np.array([findings.classify_c05(v, degenerate(0, u)) is None for v in col])
      yy = y[keep, u]
      t = cond_tol(0, u)
      ok = bool(np.all(np.isfinite(yy))) and bool(np.all(np.diff(yy) >= -t))
      ctx.check("pwl_calibration_fn/monotone", ok, "monotonicity='increasing' but outputs decrease by %.3g on sorted inputs (unit %d)" % (
          float(-np.nanmin(np.diff(yy))) if yy.size > 1 else 0.0, u), info={"unit": u, "x": col[keep].tolist(), "y": yy.tolist()})
  if cyc:
    for u in range(units):
      i0 = int(np.where(x[:, u if cols > 1 else 0] == np.float32(imin))[0][0])
      i1 = int(np.where(x[:, u if cols > 1 else 0] == np.float32(imax))[0][-1])
      if case["batch_params"]:
        continue
      t = cond_tol(0, u)
      a, b_ = y[i0, u], y[i1, u]
      fk = None
      ok = bool(np.isfinite(a) and np.isfinite(b_)) and abs(a - b_) <= 2 * t
      if not ok:
        fk = findings.classify_c05(np.float32(imin), degenerate(0, u)) or findings.classify_c05(np.float32(imax), degenerate(0, u))
      ctx.check("pwl_calibration_fn/cyclic-ends-equal", ok, "is_cyclic: f(min)=%.9g != f(max)=%.9g" % (a, b_), finding=fk)
  fin = y[np.isfinite(y)]
  return (fin.size > 0 and float(fin.max() - fin.min()) > 0), core.digest([case, core.arr_digest(x, kout)])


def _run_cdf(ctx, case, st):
  tf, tfl, ccdf = st["tf"], st["tfl"], st["ccdf"]
  rng = np.random.RandomState(case["seed"])
  units, D, nkp, sf = case["units"], case["input_dim"], case["nkp"], case["sparsity"]
  act, red, mag = case["activation"], case["reduction"], case["mag"]
  B = 10
  x = (rng.normal(size=(B, D)) * mag).astype(np.float32)
  ex = case.get("exec", "eager")
  ctx.cls("exec:" + ex)
  ctx.cls("cdf:" + case["kind"], "cdf:act=" + act, "cdf:red=" + red, "cdf:sparsity=%d" % sf, "cdf:scaling=" + case["scaling"], "cdf:mag=%g" % mag)
  if case["kind"] == "cdf_fn":
    loc = (rng.normal(size=(B, D, nkp, units // sf)) * mag).astype(np.float32)
    sc_mode = case["scaling"] if case["scaling"] in ("none", "positive", "exp") else "positive"
    scal, mult = None, None
    if sc_mode == "positive":
      scal = np.abs(rng.normal(size=(B, D, 1, 1))).astype(np.float32) * float(rng.choice([1e-3, 1.0, 50.0]))
      if rng.rand() < .3:
        scal[rng.rand(*scal.shape) < .3] = 0.0
    elif sc_mode == "exp":
      scal = (rng.normal(size=(B, D, nkp, 1)) * 3).astype(np.float32)
      mult = float(rng.choice([0.5, 1.0, 2.0]))

    def f(xx):
      xx = np.asarray(xx, dtype=np.float32)
      reps = xx.shape[0] // B
      L = np.tile(loc, (reps, 1, 1, 1))
      S = None if scal is None else np.tile(scal, (reps, 1, 1, 1))
      kw_ = dict(units=units, activation=act, reduction=red, sparsity_factor=sf, scaling_exp_transform_multiplier=mult)
      if S is None:
        return modes.call(tf, ex, lambda a, b_: ccdf.cdf_fn(a, b_, None, **kw_), tf.constant(xx), tf.constant(L)).numpy().astype(np.float64)
      return modes.call(tf, ex, lambda a, b_, c: ccdf.cdf_fn(a, b_, c, **kw_), tf.constant(xx), tf.constant(L), tf.constant(S)).numpy().astype(np.float64)
    eps = 1e-8
  else:
    st_ = case["scaling"] if case["scaling"] in ("fixed", "learned_shared", "learned_per_input") else "fixed"
    dt = case.get("dtype", "float32")
    ctx.cls("cdf:dtype=" + dt)
    layer = tfl.layers.CDF(num_keypoints=nkp, units=units, activation=act, reduction=red, sparsity_factor=sf,
                           input_scaling_type=st_, input_scaling_init=float(rng.choice([0.1, 1.0, 20.0])),
                           input_scaling_monotonicity="increasing", **({} if dt == "float32" else {"dtype": dt}))
    layer(tf.constant(x.astype(dt)))
    layer.kernel.assign((rng.normal(size=layer.kernel.shape) * mag).astype(np.float32))
    if st_ != "fixed":
      v = (rng.normal(size=layer.input_scaling.shape) * 5).astype(np.float32)
      layer.input_scaling.assign(v)
      if dt == "float32":
        layer.input_scaling.assign(layer.input_scaling.constraint(layer.input_scaling))   # NonNeg, as training would
      else:
        # tf_keras' NonNeg casts its mask to floatx (float32) and cannot be applied to a float64 weight: not lattice code
        layer.input_scaling.assign(np.maximum(v, 0))

    def f(xx):
      return modes.call(tf, ex, layer, tf.constant(np.asarray(xx, dtype=np.float32).astype(dt))).numpy().astype(np.float64)
    eps = 1e-3
  y = f(x)
  lo, hi = 0.0, 1.0
  if red == "geometric_mean":
    hi = 1.0 + eps
  ok = bool(np.all(np.isfinite(y))) and y.min() >= lo - 1e-6 and y.max() <= hi + 1e-5
  ctx.check("cdf/in-range", ok, "outputs leave [%g, %g]: min %.9g max %.9g" % (lo, hi, np.nanmin(y), np.nanmax(y)),
            info={"min": float(np.nanmin(y)), "max": float(np.nanmax(y))})
  # monotone in every input: raise one coordinate at a time
  for d in range(D):
    x2 = x.copy()
    x2[:, d] += np.abs(rng.normal(size=B)).astype(np.float32) * float(rng.choice([1e-2, 1.0, mag]))
    y2 = f(x2)
    worst = float((y - y2).max())
    ctx.check("cdf/monotone", worst <= 1e-6 * (1.0 + hi), "output decreases by %.3g when input %d increases" % (worst, d),
              info={"dim": d, "worst": worst}, ratio=max(worst, 0) / (1e-6 * (1 + hi)))
  if case["kind"] == "cdf_layer" and D > 1:
    # the documented `(batch_size, 1)` input form: one column shared by every input dimension of the built kernel
    xs = x[:, :1]
    try:
      ys = f(xs)
      yt = f(np.repeat(xs, D, axis=1))
      ok = bool(np.all(np.isfinite(ys))) and ys.min() >= lo - 1e-6 and ys.max() <= hi + 1e-5
      ctx.check("cdf/in-range", ok, "shared-input form (batch, 1): outputs leave [%g, %g]: min %.9g max %.9g" % (lo, hi, np.nanmin(ys), np.nanmax(ys)),
                info={"form": "shared", "min": float(np.nanmin(ys)), "max": float(np.nanmax(ys))})
      same = ys.shape == yt.shape and float(np.abs(ys - yt).max()) <= 1e-5
      ctx.check("cdf/shared-input-equals-repeated-column", same,
                "(batch, 1) input differs from the same column repeated %d times by %s" % (D, float(np.abs(ys - yt).max()) if ys.shape == yt.shape else "shape %s vs %s" % (ys.shape, yt.shape)),
                info={"form": "shared", "reduction": red, "sparsity": sf})
      xs2 = xs + np.abs(rng.normal(size=xs.shape)).astype(np.float32)
      worst = float((ys - f(xs2)).max())
      ctx.check("cdf/monotone", worst <= 1e-6 * (1.0 + hi), "shared-input form: output decreases by %.3g when the input increases" % worst, info={"form": "shared"})
    except Exception as e:
      ctx.check("cdf/shared-input-equals-repeated-column", False, "(batch, 1) input raised %s: %s" % (type(e).__name__, str(e).strip().splitlines()[-1][:160]),
                info={"form": "shared", "reduction": red, "sparsity": sf})
  return float(y.max() - y.min()) > 0, core.digest([case, core.arr_digest(x)])


def run_case(ctx, case):
  st = _ensure()
  if case["kind"] == "pwl":
    return _run_pwl(ctx, case, st)
  return _run_cdf(ctx, case, st)
