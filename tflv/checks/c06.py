"""C06 - Linear / categorical weight constraints enforce signs, orderings,
dominance, norm; feasible weights unchanged.

Monitors: LinearConstraints.__call__, CategoricalCalibrationConstraints.__call__
(and through them linear_lib.project / categorical_calibration_lib.project /
internal_utils.approximately_project_categorical_partial_monotonicities).
Oracles O-lin / O-cat: sign, (range-scaled) dominance, per-unit norm, ordering
pairs of a random DAG, exact bounds.
"""
import numpy as np

from tflv import core
from tflv import modes
from tflv.gen import graphs

PROPERTY = "C06"
RULE = ("case = (layer kind, dims/buckets, units, monotonicity vector, acyclic dominance/ordering graph of a labelled shape "
        "(chain, fan-out, fan-in, diamond, forest, duplicate pairs, random), input ranges, normalization order, bounds, weight class); "
        "non-trivial = at least one constraint configured and the input violated it (or it is a feasible-must-stay-unchanged case); "
        "distinct by digest of (config, weights)")
MIN_EVENTS = {
    "quick": {"LinearConstraints.__call__/sign-exact": 300, "LinearConstraints.__call__/dominance": 150,
              "LinearConstraints.__call__/norm": 100, "CategoricalCalibrationConstraints.__call__/pairs": 300,
              "CategoricalCalibrationConstraints.__call__/bounds-exact": 200, "feasible-unchanged": 200},
    "thorough": {"LinearConstraints.__call__/sign-exact": 10000, "LinearConstraints.__call__/dominance": 5000,
                 "LinearConstraints.__call__/norm": 3000, "CategoricalCalibrationConstraints.__call__/pairs": 10000,
                 "CategoricalCalibrationConstraints.__call__/bounds-exact": 6000, "feasible-unchanged": 6000},
}
ASSUMPTIONS = [
    "signs and bounds judged exactly; dominance / ordering inequalities with tol = 1e-5*scale (range dominance scaled by the input range); norm within 1e-5 unless max|w| < 1e-6",
    "only acyclic pair graphs are generated (cycles are the C16 known finding KF-C16-a)",
]

_state = {}


def setup(ctx):
  from tflv import tfenv
  tf, tfl = tfenv.setup()
  from tensorflow_lattice.python import linear_layer, categorical_calibration_layer
  _state.update(tf=tf, lin=linear_layer, cat=categorical_calibration_layer)


def _ensure():
  if "tf" not in _state:
    setup(None)
  return _state["tf"], _state["lin"], _state["cat"]


def _weights(rng, n, units, kclass=None):
  kclass = kclass or str(rng.choice(["gauss", "big", "tiny", "ties", "zeros", "ints", "sorted", "anti", "one_hot"]))
  w = rng.normal(size=(n, units))
  if kclass == "big":
    w *= 1e4
  elif kclass == "tiny":
    w *= 1e-4
  elif kclass == "ties":
    w = rng.randint(0, 2, size=(n, units)).astype(float)
  elif kclass == "zeros":
    w = np.zeros((n, units))
    if rng.rand() < .5:
      w[int(rng.randint(n)), :] = rng.normal(size=units) * 1e-9
  elif kclass == "ints":
    w = rng.randint(-3, 4, size=(n, units)).astype(float)
  elif kclass == "sorted":
    w = np.sort(w, axis=0)
  elif kclass == "anti":
    w = -np.sort(w, axis=0)
  elif kclass == "one_hot":
    w = np.zeros((n, units))
    for u in range(units):
      w[int(rng.randint(n)), u] = float(rng.choice([-2.0, 3.0]))
  if units > 1 and kclass not in ("ties", "ints", "zeros"):
    w = w * np.array([1.0, 10.0, 0.1])[:units][None, :]
  return kclass, w.astype(np.float32)


def gen_cases(ctx):
  rng = ctx.rng
  for i in range(ctx.n):
    units = int(rng.choice([1, 1, 2, 3]))
    if i % 2 == 0:
      n = int(rng.randint(1, 9))
      mode = str(rng.choice(["mixed", "all_inc", "all_dec", "none"], p=[.5, .25, .15, .1]))
      mono = {"mixed": [int(rng.choice([-1, 0, 1])) for _ in range(n)], "all_inc": [1] * n,
              "all_dec": [-1] * n, "none": [0] * n}[mode]
      inc = [d for d in range(n) if mono[d] == 1]
      dec = [d for d in range(n) if mono[d] == -1]
      mdom, mk = ([], "none")
      if len(inc) >= 2 and rng.rand() < .6:
        pairs, mk = graphs.dag_pairs(rng, inc)
        mdom = [[b, a] for (a, b) in pairs]            # (dominant, weak): w[weak] <= w[dom]
      rdom, rk = ([], "none")
      used = set(x for p in mdom for x in p)   # the library rejects a dimension in both dominance kinds
      inc_free = [d for d in inc if d not in used]
      grp = inc_free if (len(inc_free) >= 2 and (rng.rand() < .6 or len(dec) < 2)) else dec
      imin, imax = [None] * n, [None] * n
      for d in range(n):
        if rng.rand() < .5:
          imin[d] = float(rng.choice([-1.0, 0.0, -100.0, 1e-3]))
          imax[d] = imin[d] + float(rng.choice([1e-3, 0.5, 1.0, 10.0, 1000.0]))
      if len(grp) >= 2 and rng.rand() < .6:
        pairs, rk = graphs.dag_pairs(rng, grp)
        rdom = [[b, a] for (a, b) in pairs]
        for d in set(x for p in rdom for x in p):
          if imin[d] is None:
            imin[d] = float(rng.choice([-1.0, 0.0, -100.0]))
            imax[d] = imin[d] + float(rng.choice([1e-3, 0.5, 1.0, 10.0, 1000.0]))
        # a feature outside every dominance pair may have a degenerate (constant) input range: still a valid layer
        in_rdom = set(x for p in rdom for x in p)
        for d in range(n):
          if d not in in_rdom and rng.rand() < .25:
            imin[d] = float(rng.choice([-1.0, 0.0, 2.5]))
            imax[d] = imin[d]
      order = [None, 1, 2][int(rng.randint(3))]
      kclass, w = _weights(rng, n, units)
      yield {"kind": "linear", "n": n, "units": units, "mono": mono, "mdom": mdom, "rdom": rdom,
             "imin": imin, "imax": imax, "order": order, "kclass": kclass, "w": w.tolist(),
             "mode": str(rng.choice(["random", "random", "feasible"])),
             "labels": ["mono:" + mode, "mdom:" + mk, "rdom:" + rk, "norm:%s" % order],
             "exec": modes.pick(rng, (0.7, 0.3, 0.0), allow=("eager", "graph")),
             "dtype": "float64" if rng.rand() < .12 else "float32"}
    else:
      nb = int(rng.randint(1, 9))
      pairs, gk = ([], "none")
      if nb >= 2 and rng.rand() < .85:
        pairs, gk = graphs.dag_pairs(rng, list(range(nb)))
      b = str(rng.choice(["none", "min", "max", "both"]))
      omin = omax = None
      if b in ("min", "both"):
        omin = float(rng.choice([-1.0, 0.0, 0.5]))
      if b in ("max", "both"):
        omax = (omin if omin is not None else 0.0) + float(rng.choice([0.0, 0.5, 3.0]))
      kclass, w = _weights(rng, nb, units)
      yield {"kind": "categorical", "nb": nb, "units": units, "pairs": [list(p) for p in pairs],
             "omin": omin, "omax": omax, "kclass": kclass, "w": w.tolist(),
             "mode": str(rng.choice(["random", "random", "feasible"])),
             "labels": ["graph:" + gk, "bounds:" + b],
             "exec": modes.pick(rng, (0.7, 0.3, 0.0), allow=("eager", "graph")),
             "dtype": "float64" if rng.rand() < .12 else "float32"}


def lin_violation(case, w):
  """(sign violation, dominance violation (scaled), tol for dominance)."""
  W = np.asarray(w, dtype=np.float64)
  mono = case["mono"]
  sign = 0.0
  for d, m in enumerate(mono):
    if m == 1:
      sign = max(sign, float(-W[d].min()))
    elif m == -1:
      sign = max(sign, float(W[d].max()))
  dom = 0.0
  for (a, b) in case["mdom"]:
    dom = max(dom, float((W[b] - W[a]).max()))
  s = [(-1.0 if m == -1 else 1.0) for m in mono]
  for d in range(len(mono)):
    if case["imin"][d] is not None and case["imax"][d] is not None:
      s[d] *= (np.float32(case["imax"][d]) - np.float32(case["imin"][d]))
  rd = 0.0
  smax = 1.0
  for (a, b) in case["rdom"]:
    rd = max(rd, float((s[b] * W[b] - s[a] * W[a]).max()))
    smax = max(smax, abs(s[a]), abs(s[b]))
  return sign, dom, rd, smax


def _lin_feasible(rng, case):
  """Constructive feasible Linear weights: magnitudes from a potential that
  respects both dominance graphs, then (optionally) normalised."""
  n, units = case["n"], case["units"]
  mono = case["mono"]
  s = [1.0] * n
  for d in range(n):
    if case["imin"][d] is not None and case["imax"][d] is not None:
      s[d] = float(np.float32(case["imax"][d]) - np.float32(case["imin"][d]))
  cols = []
  for u in range(units):
    mag = np.abs(rng.normal(size=n)) + 0.1
    for _ in range(4 * n + 4):       # relax until both graphs hold (with margin)
      for (a, b) in case["mdom"]:
        if mag[a] < mag[b] * 1.05:
          mag[a] = mag[b] * 1.1
      for (a, b) in case["rdom"]:
        if mag[a] * s[a] < mag[b] * s[b] * 1.05:
          mag[a] = mag[b] * s[b] / s[a] * 1.1
    w = np.array([mag[d] if mono[d] == 1 else (-mag[d] if mono[d] == -1 else float(rng.normal())) for d in range(n)])
    if case["order"]:
      nrm = np.linalg.norm(w, ord=case["order"])
      w = w / nrm
    cols.append(w)
  return np.stack(cols, axis=1).astype(np.float32)


def run_case(ctx, case):
  tf, lin, cat = _ensure()
  ctx.cls("kind:" + case["kind"], "units:%d" % case["units"], "weights:" + case["kclass"], "mode:" + case["mode"], *case["labels"])
  ctx.cls("exec:" + case.get("exec", "eager"), "dtype:" + case.get("dtype", "float32"))
  if case["kind"] == "linear":
    return _run_linear(ctx, case, tf, lin)
  return _run_categorical(ctx, case, tf, cat)


def _run_linear(ctx, case, tf, lin):
  n, units = case["n"], case["units"]
  w = np.asarray(case["w"], dtype=np.float32).reshape(n, units)
  if case["mode"] == "feasible":
    w = _lin_feasible(np.random.RandomState(core.seed_for("C06", 0, 0, core.arr_digest(w))), case)
    case["w"] = w.tolist()
  # the documented spellings of a monotonicity: {-1, 0, 1} or {'decreasing', 'none', 'increasing'} (decided by the case content,
  # so that stored witnesses replay)
  mono_arg = case["mono"]
  if (sum(case["mono"]) + n + units + len(case["rdom"])) % 3 == 1:
    mono_arg = [{1: "increasing", -1: "decreasing", 0: "none"}[int(m)] for m in case["mono"]]
    ctx.cls("spelling:strings")
  c = lin.LinearConstraints(
      monotonicities=mono_arg, monotonic_dominances=[tuple(p) for p in case["mdom"]] or None,
      range_dominances=[tuple(p) for p in case["rdom"]] or None,
      input_min=case["imin"], input_max=case["imax"], normalization_order=case["order"])
  ex = case.get("exec", "eager")
  w = w.astype(case.get("dtype", "float32"))
  out = modes.call(tf, ex, c, tf.constant(w)).numpy()
  site = "LinearConstraints.__call__"
  ok_fin = bool(np.all(np.isfinite(out)))
  ctx.check(site + "/finite", ok_fin, "non-finite weights returned")
  if not ok_fin:
    return True, None
  sign, dom, rd, smax = lin_violation(case, out)
  scale = core.scale_of(w, out)
  tol = core.REL_TOL * scale
  if any(case["mono"]):
    ctx.check(site + "/sign-exact", sign <= 0.0, "weight with the wrong sign by %.3g" % sign,
              info={"out": out.tolist()})
  if case["mdom"]:
    ctx.check(site + "/dominance", dom <= tol, "monotonic dominance violated by %.3g (tol %.3g)" % (dom, tol),
              info={"mdom": case["mdom"], "out": out.tolist()}, ratio=max(dom, 0) / tol)
  if case["rdom"]:
    ctx.check(site + "/dominance", rd <= tol * smax, "range dominance violated by %.3g (tol %.3g)" % (rd, tol * smax),
              info={"rdom": case["rdom"], "out": out.tolist()}, ratio=max(rd, 0) / (tol * smax))
  if case["order"]:
    for u in range(units):
      nrm = float(np.linalg.norm(out[:, u].astype(np.float64), ord=case["order"]))
      pre = float(np.abs(out[:, u]).max())
      okn = abs(nrm - 1.0) <= 1e-5 or pre < 1e-6
      ctx.check(site + "/norm", okn, "unit %d: L%d norm %.8g after the constraint" % (u, case["order"], nrm),
                info={"unit": u, "column": out[:, u].tolist()}, ratio=abs(nrm - 1.0) / 1e-5 if pre >= 1e-6 else None)
  # feasible => unchanged
  si, di, ri, smi = lin_violation(case, w)
  feasible = si <= 0 and di <= 0 and ri <= 0
  if feasible and case["order"]:
    nr = np.linalg.norm(w.astype(np.float64), ord=case["order"], axis=0)
    feasible = bool(np.all(np.abs(nr - 1.0) <= 1e-6))
  if feasible:
    d = float(np.abs(out.astype(np.float64) - w).max())
    t = 1e-4 * scale
    ctx.check("feasible-unchanged", d <= t, "%s moved feasible weights by %.3g (tol %.3g)" % (site, d, t),
              info={"entry": site, "moved": d}, ratio=d / t)
  else:
    # idempotence on its own (feasible) output
    out2 = modes.call(tf, ex, c, tf.constant(out)).numpy()
    d = float(np.abs(out2.astype(np.float64) - out).max())
    t = 1e-4 * scale
    ctx.check("feasible-unchanged", d <= t, "%s moved its own output by %.3g (tol %.3g)" % (site, d, t),
              info={"entry": site, "moved": d, "idempotence": True}, ratio=d / t)
  constrained = bool(any(case["mono"]) or case["order"])
  work = si > 0 or di > tol or ri > tol or bool(case["order"])
  return constrained and (work or feasible), core.digest([{k: v for k, v in case.items() if k != "w"}, core.arr_digest(w)])


def cat_violation(case, w):
  W = np.asarray(w, dtype=np.float64)
  v = 0.0
  for (i, j) in case["pairs"]:
    v = max(v, float((W[i] - W[j]).max()))
  return v


def _run_categorical(ctx, case, tf, cat):
  nb, units = case["nb"], case["units"]
  w = np.asarray(case["w"], dtype=np.float32).reshape(nb, units)
  omin, omax = case["omin"], case["omax"]
  if case["mode"] == "feasible":
    # longest-path potential gives a strictly ordered assignment
    rng = np.random.RandomState(core.seed_for("C06", 1, 0, core.arr_digest(w)))
    level = np.zeros(nb)
    for _ in range(nb + 1):
      for (i, j) in case["pairs"]:
        level[j] = max(level[j], level[i] + 1)
    cols = []
    for u in range(units):
      v = level + rng.uniform(0, 0.5, size=nb)
      if omin is not None or omax is not None:
        lo = omin if omin is not None else (omax - 3.0)
        hi = omax if omax is not None else (omin + 3.0)
        v = lo + (hi - lo) * (v - v.min() + 0.1) / (v.max() - v.min() + 0.2)
      cols.append(v)
    w = np.stack(cols, axis=1).astype(np.float32)
    case["w"] = w.tolist()
  c = cat.CategoricalCalibrationConstraints(output_min=omin, output_max=omax,
                                            monotonicities=[tuple(p) for p in case["pairs"]] or None)
  ex = case.get("exec", "eager")
  w = w.astype(case.get("dtype", "float32"))
  out = modes.call(tf, ex, c, tf.constant(w)).numpy()
  site = "CategoricalCalibrationConstraints.__call__"
  scale = core.scale_of(w, out)
  tol = core.REL_TOL * scale
  if case["pairs"]:
    v = cat_violation(case, out)
    ctx.check(site + "/pairs", v <= tol, "ordering pair violated by %.3g (tol %.3g)" % (v, tol),
              info={"pairs": case["pairs"], "out": out.tolist()}, ratio=max(v, 0) / tol)
  if omin is not None or omax is not None:
    ok = True
    if omin is not None:
      ok = ok and bool(out.min() >= core.f32(omin))
    if omax is not None:
      ok = ok and bool(out.max() <= core.f32(omax))
    ctx.check(site + "/bounds-exact", ok, "values leave [%s, %s]: [%.9g, %.9g]" % (omin, omax, out.min(), out.max()))
  vi = cat_violation(case, w)
  inb = (omin is None or w.min() >= core.f32(omin)) and (omax is None or w.max() <= core.f32(omax))
  feasible = vi <= 0 and inb
  ref = w if feasible else out
  out2 = out if feasible else modes.call(tf, ex, c, tf.constant(out)).numpy()
  d = float(np.abs(out2.astype(np.float64) - ref).max())
  t = 1e-4 * scale
  ctx.check("feasible-unchanged", d <= t, "%s moved %s by %.3g (tol %.3g)" % (site, "feasible weights" if feasible else "its own output", d, t),
            info={"entry": site, "moved": d, "idempotence": not feasible}, ratio=d / t)
  constrained = bool(case["pairs"]) or omin is not None or omax is not None
  work = vi > tol or not inb
  return constrained and (work or feasible), core.digest([{k: v for k, v in case.items() if k != "w"}, core.arr_digest(w)])
