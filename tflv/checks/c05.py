"""C05 - Calibration layers evaluate exactly the function their weights describe.

Monitors (layer boundary): PWLCalibration.__call__ (fixed and learned
keypoints, cyclic, missing by value / by tensor, learned / fixed missing
output, single-column broadcast, split outputs), keypoints_inputs(),
keypoints_outputs(), CategoricalCalibration.__call__.
Oracle O-pwl: np.interp through (keypoint_i, cumsum(kernel)_i) in float64.
"""
import numpy as np

from tflv import core
from tflv import modes
from tflv import findings

PROPERTY = "C05"
RULE = ("case = (layer kind, keypoints/logits or buckets, units, cyclic, missing mode, split, input width, kernel, batch of "
        "inputs from labelled classes: on keypoints, between, far outside, equal to the missing value, every bucket, default value); "
        "non-trivial = kernel not constant; distinct by digest of (config, weights, inputs)")
MIN_EVENTS = {
    "quick": {"PWLCalibration.call/oracle-equal": 1500, "PWLCalibration.learned/keypoints-ordered": 60,
              "PWLCalibration.keypoints/pass-through": 150, "CategoricalCalibration.call/exact": 1000,
              "consequence/monotone": 30, "consequence/bounded": 300, "PWLCalibration.float64/oracle-equal": 300},
    "thorough": {"PWLCalibration.call/oracle-equal": 60000, "PWLCalibration.learned/keypoints-ordered": 2500,
                 "PWLCalibration.keypoints/pass-through": 6000, "CategoricalCalibration.call/exact": 40000,
                 "consequence/monotone": 1000, "consequence/bounded": 12000, "PWLCalibration.float64/oracle-equal": 10000},
}
ASSUMPTIONS = [
    "PWL outputs compared with tol = 1e-5*max(1,|keypoint outputs|) for fixed keypoints; for learned keypoints the float64 oracle re-derives keypoints from the logits and the comparison is made only when every segment is >= 1e-3 of the range (otherwise float32 keypoint rounding, not the library, dominates) - ill-conditioned cases get the consequence checks only",
    "categorical lookups are judged exactly",
    "inputs finite float32, |x| <= 1e6; logits within +-200",
]

_state = {}


def setup(ctx):
  from tflv import tfenv
  tf, tfl = tfenv.setup()
  _state.update(tf=tf, tfl=tfl)


def _ensure():
  if "tf" not in _state:
    setup(None)
  return _state["tf"], _state["tfl"]


def gen_cases(ctx):
  rng = ctx.rng
  for i in range(ctx.n):
    kind = ["pwl_fixed", "pwl_fixed", "pwl_learned", "categorical"][i % 4]
    units = int(rng.choice([1, 1, 2, 3]))
    if kind == "pwl_fixed" and i % 16 == 1:
      # float64 layer: same definition, judged at float64 resolution (values that float32 cannot represent)
      yield {"kind": "pwl_f64", "units": units, "nk": int(rng.choice([2, 3, 5, 8])), "learned": bool(rng.rand() < .4),
             "cyclic": bool(rng.rand() < .25), "impute": str(rng.choice(["no", "value", "value", "tensor"])),
             "fixed_mo": bool(rng.rand() < .5), "wide": bool(units > 1 and rng.rand() < .5),
             "seed": int(rng.randint(2**31 - 1)), "exec": modes.pick(rng, (0.5, 0.2, 0.3))}
      continue
    if kind == "categorical":
      nb = int(rng.choice([1, 2, 3, 5, 9]))
      yield {"kind": kind, "units": units, "num_buckets": nb,
             "default": (None if rng.rand() < .4 else int(rng.choice([-1, 100, nb - 1, 0]))),
             "split": bool(rng.rand() < .3), "wide": bool(rng.rand() < .6),
             "float_input": bool(rng.rand() < .4), "dtype": "float64" if rng.rand() < .15 else "float32",
             "seed": int(rng.randint(2**31 - 1)), "exec": modes.pick(rng, (0.5, 0.2, 0.3))}
      continue
    nk = int(rng.choice([2, 3, 5, 8]))
    lengths = rng.choice([.01, .5, 1., 4.], size=nk - 1)
    kp = np.concatenate([[0.0], np.cumsum(lengths)]) + float(rng.choice([-2.0, 0.0, 100.0]))
    cyc = bool(rng.rand() < .3 and nk > 2)
    imp = str(rng.choice(["no", "value", "tensor", "both"], p=[.3, .3, .25, .15]))    # both: missing_input_value configured AND an is_missing tensor passed
    yield {"kind": kind, "units": units, "kp": [float(np.float32(v)) for v in kp], "cyclic": cyc,
           "impute": imp, "missing_output_value": (float(rng.normal()) if imp != "no" and rng.rand() < .5 else None),
           "missing_input_value": float(rng.choice([-7.0, kp[0], kp[-1] + 3.0, 0.0])),
           "split": bool(rng.rand() < .3), "wide": bool(units > 1 and rng.rand() < .5),
           "logit_scale": float(rng.choice([0.5, 3.0, 30.0, 200.0])),
           # softmax is shift invariant: a large common offset (a restored checkpoint, a long drift) changes nothing
           "logit_offset": float(rng.choice([0.0, 0.0, 30.0, -30.0, 100.0, -150.0])),
           "kernel_class": str(rng.choice(["gauss", "big", "monotone", "monotone", "bounded", "ints"])),
           "seed": int(rng.randint(2**31 - 1)), "exec": modes.pick(rng, (0.5, 0.2, 0.3))}


def _run_categorical(ctx, case):
  tf, tfl = _ensure()
  rng = np.random.RandomState(case["seed"])
  units, nb = case["units"], case["num_buckets"]
  dt = case.get("dtype", "float32")
  layer = tfl.layers.CategoricalCalibration(num_buckets=nb, units=units, default_input_value=case["default"],
                                            split_outputs=case["split"], **({} if dt == "float32" else {"dtype": dt}))
  wide = case["wide"] and units > 1
  cols = units if wide else 1
  B = 3 * nb + 4
  x = rng.randint(0, nb, size=(B, cols))
  for b in range(min(nb, B)):
    x[b, :] = b            # every bucket appears
  if case["default"] is not None:
    x[-1, :] = case["default"]
    x[-2, 0] = case["default"]
  dtype = np.dtype(dt) if case["float_input"] else np.int32
  xin = tf.constant(x.astype(dtype))
  layer(xin)
  K = (rng.normal(size=(nb, units)) * np.array([1., 10., .1])[:units]).astype(dt)
  layer.kernel.assign(K)
  ex = case.get("exec", "eager")
  ctx.cls("exec:" + ex, "dtype:" + dt)
  y = modes.call(tf, ex, layer, xin)
  if case["split"] and units > 1:
    ctx.check("CategoricalCalibration.call/split-shape", isinstance(y, list) and len(y) == units and all(t.shape[-1] == 1 for t in y),
              "split_outputs did not return `units` tensors of width 1")
    y = tf.concat(y, axis=1)
  y = y.numpy()
  ctx.cls("kind:categorical", "units:%d" % units, "wide:%s" % wide, "default:%s" % (case["default"] is not None),
          "float_input:%s" % case["float_input"])
  for b in range(B):
    for u in range(units):
      idx = int(x[b, u if wide else 0])
      if case["default"] is not None and idx == int(case["default"]):
        idx = nb - 1
      want = K[idx, u]
      ctx.check("CategoricalCalibration.call/exact", bool(y[b, u] == want),
                "category %d unit %d -> %.9g, kernel row says %.9g" % (int(x[b, u if wide else 0]), u, y[b, u], want),
                info={"x": int(x[b, u if wide else 0]), "unit": u, "default": case["default"]})
  return nb > 1, core.digest([case, core.arr_digest(K, x)])


def _run_pwl_f64(ctx, case):
  """PWLCalibration(dtype=float64): keypoints, missing value and inputs that float32 cannot represent; the function is
  the same interpolation, judged with a float64-sized tolerance (1e-9 relative)."""
  tf, tfl = _ensure()
  rng = np.random.RandomState(case["seed"])
  units, nk, cyc, imp, learned = case["units"], case["nk"], case["cyclic"] and case["nk"] > 2, case["impute"], case["learned"]
  kp = np.concatenate([[0.0], np.cumsum(rng.uniform(0.3, 2.1, size=nk - 1))]) + float(rng.choice([-1.7, 0.0, 0.1]))
  miv = float(rng.choice([-1.2, 0.3, -999.9, 1e-3, kp[-1] + 3.3, -7.0])) if imp == "value" else None
  if miv is not None and kp[0] <= miv <= kp[-1]:
    miv = float(kp[0] - 1.2)
  mov = float(rng.normal()) if (imp != "no" and case["fixed_mo"]) else None
  layer = tfl.layers.PWLCalibration(
      input_keypoints=kp.tolist(), units=units, is_cyclic=cyc, impute_missing=(imp != "no"), missing_input_value=miv,
      missing_output_value=mov, input_keypoints_type="learned_interior" if learned else "fixed", dtype="float64")
  cols = units if case["wide"] else 1
  B = 14
  x = rng.uniform(kp[0] - 2, kp[-1] + 2, size=(B, cols))
  x[0, :], x[1, :], x[2, :] = kp[0], kp[-1], kp[nk // 2]
  miss = np.zeros((B, cols))
  if imp == "value":
    x[3, :] = miv
    if cols > 1:
      x[4, 0] = miv
  if imp == "tensor":
    miss[3, :] = 1.0
    if cols > 1:
      miss[4, 0] = 1.0
  inp = tf.constant(x) if imp != "tensor" else [tf.constant(x), tf.constant(miss)]
  layer(inp)
  rows = nk - (1 if cyc else 0)
  k = rng.normal(size=(rows, units)) * np.array([1., 10., .1])[:units]
  layer.kernel.assign(k)
  if learned:
    logits = rng.normal(size=(units, nk - 1)) * 1.5
    layer.interpolation_logits.assign(logits)
    w = np.exp(logits - logits.max(axis=1, keepdims=True))
    lengths = (kp[-1] - kp[0]) * w / w.sum(axis=1, keepdims=True)
    kps = np.concatenate([np.full((units, 1), kp[0]), kp[0] + np.cumsum(lengths, axis=1)], axis=1)   # (units, nk)
    kps[:, -1] = kp[-1]
  else:
    kps = np.tile(kp[None, :], (units, 1))
  mo = None
  if imp != "no":
    if mov is None:
      mo = rng.normal(size=(1, units))
      layer.missing_output.assign(mo)
    else:
      mo = np.full((1, units), mov)
  ex = case.get("exec", "eager")
  y = modes.call(tf, ex, layer, inp)
  ctx.cls("kind:pwl_f64", "exec:" + ex, "impute:" + imp, "cyclic:%s" % cyc, "learned:%s" % learned, "units:%d" % units)
  ok_dtype = (y.dtype == tf.float64)
  ctx.check("PWLCalibration.float64/dtype", ok_dtype, "float64 layer returned %s" % y.dtype)
  y = y.numpy().astype(np.float64)
  outs = np.cumsum(k, axis=0)
  if cyc:
    outs = np.concatenate([outs, outs[:1]], axis=0)
  tol = 1e-9 * core.scale_of(outs, mo)
  for u in range(units):
    xu = x[:, u if case["wide"] else 0]
    ref = np.interp(xu, kps[u], outs[:, u])
    if imp == "value":
      ref = np.where(xu == miv, mo[0, u], ref)
    if imp == "tensor":
      ref = np.where(miss[:, u if case["wide"] else 0] > 0, mo[0, u], ref)
    for b in range(B):
      e = abs(y[b, u] - ref[b])
      ctx.check("PWLCalibration.float64/oracle-equal", bool(e <= tol),
                "float64 layer: f(%.17g)=%.17g, oracle %.17g (unit %d)" % (xu[b], y[b, u], ref[b], u),
                info={"x": float(xu[b]), "missing_input_value": miv, "unit": u}, ratio=e / tol)
  return True, core.digest([case, core.arr_digest(k, x)])


def _pwl_oracle(kp, outs, xu):
  return np.interp(xu, kp, outs)


def run_case(ctx, case):
  if case["kind"] == "categorical":
    return _run_categorical(ctx, case)
  if case["kind"] == "pwl_f64":
    return _run_pwl_f64(ctx, case)
  tf, tfl = _ensure()
  rng = np.random.RandomState(case["seed"])
  units, cyc, imp = case["units"], case["cyclic"], case["impute"]
  kp = np.asarray(case["kp"], dtype=np.float64)
  nk = len(kp)
  learned = case["kind"] == "pwl_learned"
  miv = case["missing_input_value"] if imp == "value" else (-7.0 if imp == "both" else None)
  layer = tfl.layers.PWLCalibration(
      input_keypoints=kp.tolist(), units=units, is_cyclic=cyc, impute_missing=(imp != "no"),
      missing_input_value=miv, missing_output_value=case["missing_output_value"],
      split_outputs=case["split"], input_keypoints_type="learned_interior" if learned else "fixed")
  wide = case["wide"]
  cols = units if wide else 1
  B = 16
  x = rng.uniform(kp[0] - 2, kp[-1] + 2, size=(B, cols))
  labels = ["random"] * B
  x[0, :], labels[0] = kp[0], "first_keypoint"
  x[1, :], labels[1] = kp[-1], "last_keypoint"
  x[2, :], labels[2] = kp[nk // 2], "mid_keypoint"
  x[4, :], labels[4] = kp[0] - float(rng.choice([1e-3, 50.0, 1e6])), "far_below"
  x[5, :], labels[5] = kp[-1] + float(rng.choice([1e-3, 50.0, 1e6])), "far_above"
  for b in range(6, 6 + min(nk, 5)):
    x[b, :], labels[b] = kp[(b - 6) % nk], "on_keypoint"
  miss = np.zeros((B, cols), dtype=np.float32)
  if imp == "value":
    x[3, :], labels[3] = miv, "missing_value"
    if cols > 1:
      x[11, 0], labels[11] = miv, "missing_value_one_column"
  if imp in ("tensor", "both"):
    miss[3, :] = 1.0
    labels[3] = "flagged_missing"
    if cols > 1:
      miss[11, 0] = 1.0
      labels[11] = "flagged_missing_one_column"
  x = x.astype(np.float32)
  inp = tf.constant(x) if imp not in ("tensor", "both") else [tf.constant(x), tf.constant(miss)]
  if imp == "value" and rng.rand() < .3:
    inp = [tf.constant(x)]            # the one-element list form the layer unpacks itself
    ctx.cls("input-form:one-element-list")
  layer(inp)
  # queried before the weights change as well as after: the accessors must describe the *current* weights
  layer.keypoints_outputs(); layer.keypoints_inputs()
  rows = nk - (1 if cyc else 0)
  kc = case["kernel_class"]
  k = rng.normal(size=(rows, units))
  if kc == "big":
    k *= 1e3
  elif kc == "monotone":
    k[1:] = np.abs(k[1:]) * float(rng.choice([-1, 1]))
  elif kc == "bounded":
    outs_ = rng.uniform(0, 1, size=(rows, units))
    k = np.concatenate([outs_[:1], np.diff(outs_, axis=0)], axis=0)
  elif kc == "ints":
    k = rng.randint(-2, 3, size=(rows, units)).astype(float)
  if cyc and kc == "monotone":
    kc = "gauss"
  k = (k * np.array([1., 10., .1])[:units]).astype(np.float32)
  layer.kernel.assign(k)
  logits = None
  if learned:
    logits = (rng.normal(size=(units, nk - 1)) * case["logit_scale"] + case.get("logit_offset", 0.0)).astype(np.float32)
    logits = np.clip(logits, -200, 200)
    ctx.cls("logit_offset:%g" % case.get("logit_offset", 0.0))
    layer.interpolation_logits.assign(logits)
  mo = None
  if imp != "no":
    if case["missing_output_value"] is None:
      mo = rng.normal(size=(1, units)).astype(np.float32)
      layer.missing_output.assign(mo)
    else:
      mo = np.full((1, units), np.float32(case["missing_output_value"]), dtype=np.float32)
  ex = case.get("exec", "eager")
  ctx.cls("exec:" + ex)
  y = modes.call(tf, ex, layer, inp)
  if ex != "eager":
    layer(inp)    # learned keypoints: call() caches tensors on the layer; refresh them with eager ones for the oracle
  if case["split"] and units > 1:
    ctx.check("PWLCalibration.call/split-shape", isinstance(y, list) and len(y) == units and all(t.shape[-1] == 1 for t in y),
              "split_outputs did not return `units` tensors of width 1")
    y = tf.concat(y, axis=1)
  y = y.numpy().astype(np.float64)
  outs = np.cumsum(k.astype(np.float64), axis=0)
  if cyc:
    outs = np.concatenate([outs, outs[:1]], axis=0)
  scale = core.scale_of(outs, mo)
  tol = core.REL_TOL * scale
  ctx.cls("kind:" + case["kind"], "units:%d" % units, "cyclic:%s" % cyc, "impute:" + imp, "wide:%s" % wide,
          "split:%s" % case["split"], "kernel:" + kc, "mo_fixed:%s" % (case["missing_output_value"] is not None))
  for l in labels:
    ctx.cls("input:" + l)

  # ---- keypoints reported by the layer -----------------------------------------
  ki = layer.keypoints_inputs().numpy().astype(np.float64)      # (nk, units)
  ko = layer.keypoints_outputs().numpy().astype(np.float64)
  d = float(np.abs(ko - outs).max())
  ctx.check("PWLCalibration.keypoints_outputs/equals-cumsum", d <= tol, "keypoints_outputs() off by %.3g" % d)
  kp32 = kp.astype(np.float32).astype(np.float64)
  well = True
  kp_u = [kp32] * units
  degenerate = [(kp32[:-1].astype(np.float32), np.zeros(nk - 1, dtype=bool))] * units
  if not learned:
    d = float(np.abs(ki - kp32[:, None]).max())
    ctx.check("PWLCalibration.keypoints_inputs/fixed-equal", d <= 1e-6 * core.scale_of(kp32),
              "keypoints_inputs() differ from configured keypoints by %.3g" % d)
  else:
    rng_ = kp32[-1] - kp32[0]
    ktol = 1e-5 * core.scale_of(kp32)
    kp_u, degenerate = [], []
    for u in range(units):
      lg = logits[u].astype(np.float64)
      sm = np.exp(lg - lg.max())
      sm /= sm.sum()
      lens = sm * rng_
      kpo = np.concatenate([[kp32[0]], kp32[0] + np.cumsum(lens)])
      kp_u.append(kpo)
      col = ki[:, u]
      ordered = bool(np.all(np.diff(col) >= -ktol)) and bool(np.all(np.isfinite(col)))
      inside = bool(col.min() >= kp32[0] - ktol and col.max() <= kp32[-1] + ktol)
      ends = abs(col[0] - kp32[0]) <= ktol and abs(col[-1] - kp32[-1]) <= ktol
      ctx.check("PWLCalibration.learned/keypoints-ordered", ordered and inside and ends,
                "learned keypoints not ordered inside [%g,%g]: %s (logits %s)" % (kp32[0], kp32[-1], col.tolist(), lg.tolist()),
                info={"unit": u, "logits": lg.tolist(), "keypoints": col.tolist()})
      d = float(np.abs(col - kpo).max())
      ctx.check("PWLCalibration.learned/keypoints-equal-softmax", d <= ktol,
                "keypoints_inputs() differ from softmax-derived keypoints by %.3g" % d)
      if lens.min() < 1e-3 * rng_:
        well = False
      # float32 degeneracy exactly as the layer computed it (mechanism input of KF-C05-a)
      l32 = np.asarray(layer._lengths.numpy())[u].astype(np.float32)
      k32 = np.asarray(layer._interpolation_keypoints.numpy())[u].astype(np.float32)
      degenerate.append((k32, (k32 + l32).astype(np.float32) == k32))
  ctx.cls("well_conditioned:%s" % well)

  # ---- outputs vs oracle ---------------------------------------------------------
  # The layer evaluates at float32-rounded coordinates (keypoints, their
  # differences, the input): with a coordinate uncertainty delta the weight of
  # segment i is uncertain by min(1, delta/length_i), so the honest rounding
  # error is sum_i |height_i| * min(1, delta/length_i) on top of the usual
  # output rounding (a segment narrower than the float32 resolution of its
  # coordinate cannot be resolved by any float32 implementation).
  delta = 4 * core.F32_EPS * max(abs(kp32[0]), abs(kp32[-1])) * (1 + (nk / 4.0 if learned else 0))
  tol0 = tol
  for u in range(units):
    hu = np.diff(outs[:, u])
    lens_u = np.maximum(np.diff(kp_u[u]), 1e-300)
    tol = tol0 + float(np.sum(np.abs(hu) * np.minimum(1.0, delta / lens_u)))
    xu = x[:, u if wide else 0].astype(np.float64)
    ref = _pwl_oracle(kp_u[u], outs[:, u], xu)
    ismiss = np.zeros(B, dtype=bool)
    if imp == "value":
      ismiss = x[:, u if wide else 0] == np.float32(miv)
    elif imp in ("tensor", "both"):
      ismiss = miss[:, u if wide else 0] == 1
    if imp != "no":
      ref = np.where(ismiss, float(mo[0, u]), ref)
    lo, hi = min(outs[:, u].min(), outs[:, u].max()), max(outs[:, u].min(), outs[:, u].max())
    for b in range(B):
      yv = y[b, u]
      info = {"x": float(xu[b]), "unit": u, "class": labels[b], "got": float(yv), "want": float(ref[b]),
              "keypoints": kp_u[u].tolist(), "logits": (logits[u].tolist() if learned else None)}
      if learned and not well and not ismiss[b]:
        # consequence checks only
        fk = None
        ok = bool(np.isfinite(yv)) and (lo - tol <= yv <= hi + tol)
        if not ok:
          fk = findings.classify_c05(x[b, u if wide else 0], degenerate[u])
        ctx.check("consequence/bounded", ok,
                  "learned-keypoint output %.6g not finite/inside [%.6g, %.6g] at x=%.9g" % (yv, lo, hi, xu[b]),
                  info=info, finding=fk)
        continue
      # a piece is uncertain only for an input within float32 resolution of it: clearly to its right its weight is 1
      near = (xu[b] >= kp_u[u][:-1] - 4 * delta) & (xu[b] <= kp_u[u][1:] + 4 * delta)
      tol = tol0 + float(np.sum(np.abs(hu) * np.where(near, np.minimum(1.0, delta / lens_u), 0.0)))
      e = abs(yv - ref[b]) if np.isfinite(yv) else float("inf")
      fk = None
      if e > tol and learned:
        fk = findings.classify_c05(x[b, u if wide else 0], degenerate[u])
      ctx.check("PWLCalibration.call/oracle-equal", e <= tol,
                "output %.9g, oracle %.9g (err %.3g, tol %.3g) at x=%.9g (%s)" % (yv, ref[b], e, tol, xu[b], labels[b]),
                info=info, finding=fk, ratio=e / tol)
      if not ismiss[b]:
        ctx.check("consequence/bounded", bool(np.isfinite(yv)) and lo - tol <= yv <= hi + tol,
                  "output %.6g outside the range of keypoint outputs [%.6g, %.6g]" % (yv, lo, hi), info=info, finding=fk)
  # ---- the function passes through the reported keypoints -------------------------
  if not learned or well:
    xk = ki.astype(np.float32)                     # (nk, units)
    if imp == "value":
      keep = ~np.any(xk == np.float32(miv), axis=1)
    else:
      keep = np.ones(nk, dtype=bool)
    if units > 1 and not np.array_equal(xk, np.repeat(xk[:, :1], units, axis=1)):   # exact: np.allclose calls keypoints 9e-4 apart at offset 100 equal
      feed = xk
    else:
      feed = xk if wide else xk[:, :1]
    inp2 = tf.constant(feed) if imp not in ("tensor", "both") else [tf.constant(feed), tf.zeros_like(tf.constant(feed))]
    yk = modes.call(tf, ex, layer, inp2)
    if case["split"] and units > 1:
      yk = tf.concat(yk, axis=1)
    yk = yk.numpy().astype(np.float64)
    cond = max(float(np.sum(np.abs(np.diff(outs[:, u])) * np.minimum(1.0, delta / np.maximum(np.diff(kp_u[u]), 1e-300)))) for u in range(units))
    for j in range(nk):
      if not keep[j]:
        continue
      dd = float(np.abs(yk[j] - ko[j]).max())
      ptol = tol0 * (10 if learned else 1) + cond
      ctx.check("PWLCalibration.keypoints/pass-through", dd <= ptol,
                "layer(keypoints_inputs()[%d]) differs from keypoints_outputs()[%d] by %.3g (tol %.3g)" % (j, j, dd, ptol),
                info={"j": j, "keypoint": ki[j].tolist(), "got": yk[j].tolist(), "want": ko[j].tolist()})
  # ---- monotone keypoint outputs => monotone function ------------------------------
  if kc == "monotone" and not cyc:
    xs = np.sort(rng.uniform(kp[0] - 3, kp[-1] + 3, size=(40, 1)), axis=0).astype(np.float32)
    xs[:nk, 0] = kp32.astype(np.float32)
    xs = np.sort(xs, axis=0)
    feed = np.repeat(xs, units, axis=1) if (learned and units > 1 and wide) or wide else xs
    if imp == "value":
      feed = feed[~np.any(feed == np.float32(miv), axis=1)]
    inp3 = tf.constant(feed) if imp not in ("tensor", "both") else [tf.constant(feed), tf.zeros_like(tf.constant(feed))]
    ys = modes.call(tf, ex, layer, inp3)
    if case["split"] and units > 1:
      ys = tf.concat(ys, axis=1)
    ys = ys.numpy().astype(np.float64)
    for u in range(units):
      sgn = 1.0 if k[1:, u].sum() >= 0 else -1.0
      col = feed[:, u if feed.shape[1] > 1 else 0]
      k32, deg = degenerate[u]
      # inputs sitting exactly on a float32-degenerate learned keypoint are judged
      # (and classified) above, not here
      keep = np.array([findings.classify_c05(v, degenerate[u]) is None for v in col])
      yy = ys[keep, u]
      dy = sgn * np.diff(yy)
      ok = bool(np.all(np.isfinite(yy))) and bool(np.all(dy >= -tol0))
      ctx.check("consequence/monotone", ok,
                "keypoint outputs monotone but the calibration function is not (unit %d): min step %.3g" % (u, float(np.nanmin(dy)) if dy.size else 0.0),
                info={"unit": u, "x": col[keep].tolist(), "y": yy.tolist()})
  nontrivial = float(np.abs(np.diff(outs, axis=0)).max()) > 0
  return nontrivial, core.digest([case, core.arr_digest(k, x)])
