"""C12 - assert_constraints(eps) accepts exactly the weights that meet the
covered constraints.

Monitor: layer.assert_constraints(eps) in eager mode -> {returned,
InvalidArgumentError, other exception}.  Workload: a strictly feasible weight
tensor (LP interior point / constructive, margin >= 10*eps) must be accepted;
then, for sampled locations of every covered constraint kind and every unit, a
copy in which exactly that inequality is violated by 100*eps (all others kept
satisfied with margin by an LP when that is possible) must be rejected with
InvalidArgumentError.  Any other exception type is a violation.
"""
import numpy as np
import scipy.optimize as so

from tflv import core
from tflv.gen import graphs
from tflv.gen import lattice as genl
from tflv.oracles import feasible as feas

PROPERTY = "C12"
RULE = ("case = (layer kind, configuration, eps in {1e-6,1e-4,1e-3}); per case one feasible-with-margin acceptance test and up to 40 single-row "
        "injections (row = one adjacent pair / square / triangle / quadruple / bound / clamp / ordering pair / norm, in one unit); "
        "non-trivial = at least one constraint row exists; distinct by digest of (configuration, eps, injected row, unit)")
MIN_EVENTS = {
    "quick": {"assert_constraints/accepts-feasible": 150, "assert_constraints/rejects-injected-violation": 1100},
    "thorough": {"assert_constraints/accepts-feasible": 2000, "assert_constraints/rejects-injected-violation": 15000},
}
ASSUMPTIONS = [
    "margins: feasible weights satisfy every covered row by >= 10*eps, injected rows are violated by 100*eps ('clearly more than eps', 'with margin')",
    "configurations without a strictly feasible interior (equality-forcing combinations) are counted 'no-interior' and skipped",
    "unimodality and joint unimodality are configured alongside but are not among the covered kinds",
]
_state = {}


def setup(ctx):
  from tflv import tfenv
  tf, tfl = tfenv.setup()
  _state.update(tf=tf, tfl=tfl)


def _ensure():
  if "tf" not in _state:
    setup(None)
  return _state


def verdict(layer, eps):
  """Eager, or - for a share of the cases - from a freshly traced tf.function per call (the assertion ops are stateful
  and run with the function; the same layer is asserted from several separately traced functions, with its weights
  changed in between, as a training loop with periodic checks does)."""
  tf = _state["tf"]
  try:
    if _state.get("exec") == "graph":
      def traced():
        layer.assert_constraints(eps)       # returns assertion ops, which are not function outputs
      tf.function(traced)()
    else:
      layer.assert_constraints(eps)
    return "accept"
  except tf.errors.InvalidArgumentError:
    return "reject"
  except Exception as e:
    return "EXC %s: %s" % (type(e).__name__, str(e)[:150])


def gen_cases(ctx):
  rng = ctx.rng
  kinds = ["lattice", "lattice", "pwl", "linear", "categorical", "kfl", "rtl"]
  for i in range(ctx.n):
    yield {"kind": kinds[(i + ctx.shard) % len(kinds)], "eps": float(rng.choice([1e-6, 1e-4, 1e-3])), "seed": int(rng.randint(2**31 - 1)),
           "exec": "graph" if rng.rand() < .3 else "eager"}


def _expect(ctx, site, got, want, what, info=None):
  ok = got == want
  msg = "%s: assert_constraints %s (expected %s)" % (what, got if got in ("accept", "reject") else "raised " + got, want)
  ctx.check(site, ok, msg, info=info)
  return ok


# ------------------------------------------------------------------------------
def _polyhedron(cfg):
  """G w <= h over one unit: covered shape rows (homogeneous) + bounds."""
  R = feas.lattice_rows(cfg, families={"monotonicity", "edgeworth", "trapezoid", "monotonic_dominance", "range_dominance", "joint_monotonicity"})
  n = int(np.prod(cfg["sizes"]))
  rows, h, tags = [], [], []
  A = R.dense()
  for k in range(A.shape[0]):
    rows.append(A[k]); h.append(0.0); tags.append(R.tags[k])
  if cfg.get("omin") is not None:
    for i in range(n):
      r = np.zeros(n); r[i] = -1.0
      rows.append(r); h.append(-cfg["omin"]); tags.append({"family": "lower_bound", "vertex": i})
  if cfg.get("omax") is not None:
    for i in range(n):
      r = np.zeros(n); r[i] = 1.0
      rows.append(r); h.append(cfg["omax"]); tags.append({"family": "upper_bound", "vertex": i})
  return (np.array(rows) if rows else np.zeros((0, n))), np.array(h), tags


def _interior(G, h, rng, n, box):
  m = G.shape[0]
  c = np.zeros(n + 1); c[n] = -1.0
  Aub = np.hstack([G, np.ones((m, 1))])
  r = so.linprog(c, A_ub=Aub, b_ub=h, bounds=[(-box, box)] * n + [(0.0, box)], method="highs")
  if r.status != 0:
    return None, 0.0
  tmax = float(r.x[n])
  if tmax <= 0:
    return None, 0.0
  c2 = np.concatenate([rng.normal(size=n), [0.0]])
  r2 = so.linprog(c2, A_ub=Aub, b_ub=h, bounds=[(-box, box)] * n + [(0.6 * tmax, box)], method="highs")
  w = r.x[:n] if r2.status != 0 else 0.5 * (r.x[:n] + r2.x[:n])
  return w, float((h - G @ w).min())


def _inject(G, h, w, k, amount, margin, box):
  """Point with row k violated by `amount` and every other row satisfied by >=
  margin, closest (L1) to w; falls back to a move along the row normal."""
  n = G.shape[1]
  others = np.ones(G.shape[0], dtype=bool)
  others[k] = False
  # variables: w (n), d+ (n), d- (n); minimise sum(d+ + d-)
  c = np.concatenate([np.zeros(n), np.ones(2 * n)])
  Aeq = np.concatenate([np.eye(n), -np.eye(n), np.eye(n)], axis=1)      # w - d+ + d- = w0
  beq = w
  Aub = np.hstack([G[others], np.zeros((others.sum(), 2 * n))])
  bub = h[others] - margin
  row_eq = np.concatenate([G[k], np.zeros(2 * n)])[None, :]
  r = so.linprog(c, A_ub=Aub, b_ub=bub, A_eq=np.vstack([Aeq, row_eq]), b_eq=np.concatenate([beq, [h[k] + amount]]),
                 bounds=[(-10 * box, 10 * box)] * n + [(0, None)] * (2 * n), method="highs")
  if r.status == 0:
    return r.x[:n], True
  a = G[k]
  alpha = (h[k] + amount - a @ w) / (a @ a)
  return w + alpha * a, False


def _run_lattice(ctx, case, st, rng):
  tf, tfl = st["tf"], st["tfl"]
  eps = case["eps"]
  cfg, labels = genl.lattice_config(rng, max_vertices=36, units_choices=(1, 2, 3), min_mono=1)
  cfg["junimod"] = []
  if cfg["omin"] is not None and abs(cfg["omin"]) > 10:
    cfg["omin"] = -1.0
  if cfg["omax"] is not None and abs(cfg["omax"]) > 10:
    cfg["omax"] = (cfg["omin"] if cfg["omin"] is not None else 0.0) + 3.0
  sizes, units = cfg["sizes"], cfg["units"]
  n = int(np.prod(sizes))
  kw = genl.constraint_kwargs(cfg)
  sp = case["seed"] % 3
  if sp == 1:
    # documented spellings: 'increasing' / 'none', 'positive' / 'negative' (also mixed with the integer forms)
    kw["monotonicities"] = ["increasing" if m else (0 if i % 2 else "none") for i, m in enumerate(kw["monotonicities"])]
    for k_ in ("edgeworth_trusts", "trapezoid_trusts"):
      if kw.get(k_):
        kw[k_] = [(a, b, "positive" if d > 0 else "negative") for a, b, d in kw[k_]]
    ctx.cls("lattice:string-spellings")
  elif sp == 2:
    kw["monotonicities"] = tuple(kw["monotonicities"])
    kw["lattice_sizes"] = tuple(kw["lattice_sizes"])
    ctx.cls("lattice:tuple-spellings")
  layer = tfl.layers.Lattice(units=units, **kw)
  layer.build((None, len(sizes)) if units == 1 else (None, units, len(sizes)))
  G, h, tags = _polyhedron(cfg)
  box = 1.0
  cols, margins = [], []
  for u in range(units):
    w, mg = _interior(G, h, rng, n, box)
    if w is None:
      ctx.note("no-interior:lattice")
      return False, None
    cols.append(w); margins.append(mg)
  if min(margins) < 20 * eps:
    ctx.note("no-interior:lattice(margin<20eps)")
    return False, None
  W = np.stack(cols, axis=1)
  ctx.cls("lattice", *[l for l in labels if l.startswith("trust") or l.startswith("approx") or l.startswith("bounds")])
  layer.kernel.assign(W.astype(np.float32))
  _expect(ctx, "assert_constraints/accepts-feasible", verdict(layer, eps), "accept",
          "Lattice, feasible kernel with margin %.3g (eps %g)" % (min(margins), eps), {"cfg": cfg})
  fams = {}
  for k, t in enumerate(tags):
    fams.setdefault(t["family"], []).append(k)
  keys = []
  for fam, idxs in fams.items():
    pick = set([idxs[0], idxs[-1]])
    pick.update(int(x) for x in rng.choice(idxs, size=min(6, len(idxs)), replace=False))
    for k in sorted(pick):
      u = int(rng.randint(units))
      w2, isolated = _inject(G, h, W[:, u], k, 100 * eps, 10 * eps, box)
      K = W.copy()
      K[:, u] = w2
      K32 = K.astype(np.float32)
      realised = float(G[k] @ K32[:, u].astype(np.float64) - h[k])
      if realised < 50 * eps:
        ctx.note("injection-lost-in-float32")
        continue
      layer.kernel.assign(K32)
      ctx.cls("inject:" + fam, "isolated:%s" % isolated)
      _expect(ctx, "assert_constraints/rejects-injected-violation", verdict(layer, eps), "reject",
              "Lattice, %s row %s violated by %.3g in unit %d (eps %g)" % (fam, {a: b for a, b in tags[k].items() if a != "family"}, realised, u, eps),
              {"cfg": cfg, "row": core.to_jsonable(tags[k]), "unit": u, "isolated": isolated})
      keys.append((fam, k, u))
  return True, core.digest([cfg, eps, keys])


def _run_rtl(ctx, case, st, rng):
  tf, tfl = st["tf"], st["tfl"]
  eps = case["eps"]
  tiny = case["seed"] % 3 == 0
  if tiny:
    # "all eps > 0": an eps far below the sub-layers' default (1e-6) with a violation between the two; the amounts are powers
    # of two that float32 kernels in (0, 1] carry exactly enough (realised 4.8e-7 +- 6e-8 = 200 x eps)
    eps = 2e-9
    ctx.cls("rtl:eps=2e-9")
  amt = 100 * eps if not tiny else 2.0 ** -21
  n_inc, n_unc = int(rng.randint(1, 4)), int(rng.randint(0, 3))
  rank = 2
  nlat = int(np.ceil((n_inc + n_unc) / rank)) + int(rng.randint(0, 2))
  L = int(rng.choice([2, 3]))
  layer = tfl.layers.RTL(num_lattices=nlat, lattice_rank=rank, lattice_size=L, output_min=0.0, output_max=1.0,
                         random_seed=int(rng.randint(100)))
  feed = {"increasing": tf.zeros((1, n_inc))}
  if n_unc:
    feed["unconstrained"] = tf.zeros((1, n_unc))
  if n_inc + n_unc < rank:
    return False, None
  layer(feed)
  grids = np.meshgrid(*[np.arange(L)] * rank, indexing="ij")
  base = (sum(grids).astype(np.float64) / (rank * (L - 1))) * 0.8 + 0.1          # strictly increasing in every dim, inside (0,1)
  subs = list(layer._lattice_layers.items())
  for _, lay in subs:
    lay.kernel.assign(np.repeat(base.reshape(-1, 1), lay.kernel.shape[1], axis=1).astype(np.float32))
  if 0.8 / (rank * (L - 1)) < 20 * eps:
    return False, None
  ctx.cls("rtl")
  _expect(ctx, "assert_constraints/accepts-feasible", verdict(layer, eps), "accept", "RTL with strictly increasing sub-lattices")
  keys = []
  for name, lay in subs:
    monos = lay.monotonicities
    K0 = lay.kernel.numpy()
    for u in range(K0.shape[1]):
      for d in range(rank):
        if not monos[d]:
          continue
        K = K0.copy().reshape([L] * rank + [K0.shape[1]])
        idx = [int(rng.randint(L)) for _ in range(rank)]
        idx[d] = int(rng.randint(L - 1))
        hi = list(idx); hi[d] += 1
        K[tuple(hi) + (u,)] = K[tuple(idx) + (u,)] - amt
        lay.kernel.assign(K.reshape(K0.shape).astype(np.float32))
        _expect(ctx, "assert_constraints/rejects-injected-violation", verdict(layer, eps), "reject",
                "RTL: monotonicity broken in sub-lattice %s unit %d dim %d" % (name, u, d))
        keys.append((name, u, d))
    lay.kernel.assign(K0)
    K = K0.copy()
    K[int(rng.randint(K.shape[0])), int(rng.randint(K.shape[1]))] = 1.0 + amt
    lay.kernel.assign(K)
    _expect(ctx, "assert_constraints/rejects-injected-violation", verdict(layer, eps), "reject", "RTL: upper bound broken in sub-lattice %s" % name)
    lay.kernel.assign(K0)
  return True, core.digest(["rtl", n_inc, n_unc, L, eps, keys])


def _run_pwl(ctx, case, st, rng):
  tf, tfl = st["tf"], st["tfl"]
  eps = case["eps"]
  nk, units, mono = int(rng.choice([2, 3, 4, 6])), int(rng.choice([1, 2, 3])), int(rng.choice([-1, 0, 1]))
  b = str(rng.choice(["none", "min", "max", "both"]))
  omin = 0.0 if b in ("min", "both") else None
  omax = 1.0 if b in ("max", "both") else None
  cm = bool(mono and omin is not None and rng.rand() < .4)
  cx = bool(mono and omax is not None and rng.rand() < .4)
  kp = np.concatenate([[0.0], np.cumsum(rng.choice([.5, 1., 3.], size=nk - 1))])
  miss_mode = str(rng.choice(["value", "value", "tensor"]))
  split = bool(units > 1 and rng.rand() < .3)
  layer = tfl.layers.PWLCalibration(input_keypoints=kp.tolist(), units=units, monotonicity=mono, output_min=omin, output_max=omax,
                                    clamp_min=cm, clamp_max=cx, impute_missing=True,
                                    missing_input_value=-5.0 if miss_mode == "value" else None, split_outputs=split)
  layer(tf.zeros([1, 1]) if miss_mode == "value" else [tf.zeros([1, 1]), tf.zeros([1, 1])])
  ctx.cls("pwl:missing=" + miss_mode, "pwl:split=%s" % split)
  lo = 0.0 if cm else 0.1
  hi = 1.0 if cx else 0.9
  if mono == 0:
    outs = np.stack([rng.uniform(0.15, 0.85, size=nk) for _ in range(units)], axis=1)
  else:
    outs = np.stack([np.linspace(lo, hi, nk) if mono == 1 else np.linspace(hi, lo, nk) for _ in range(units)], axis=1)
  k = np.concatenate([outs[:1], np.diff(outs, axis=0)], axis=0).astype(np.float32)
  if 0.8 / (nk - 1) < 20 * eps:
    return False, None
  layer.kernel.assign(k)
  layer.missing_output.assign(np.full((1, units), 0.5, np.float32))
  ctx.cls("pwl:mono=%d" % mono, "pwl:bounds=" + b, "pwl:clamp=%d%d" % (cm, cx))
  cfgd = {"mono": mono, "bounds": b, "cm": cm, "cx": cx, "nk": nk, "units": units, "missing": miss_mode, "split": split}
  _expect(ctx, "assert_constraints/accepts-feasible", verdict(layer, eps), "accept", "PWLCalibration feasible kernel", cfgd)
  keys = []

  def try_outs(o2, what):
    kk = np.concatenate([o2[:1], np.diff(o2, axis=0)], axis=0).astype(np.float32)
    layer.kernel.assign(kk)
    _expect(ctx, "assert_constraints/rejects-injected-violation", verdict(layer, eps), "reject", "PWLCalibration: " + what, cfgd)
    keys.append(what)
    layer.kernel.assign(k)
  if mono:
    for r in range(1, nk):
      u = int(rng.randint(units))
      o2 = outs.copy()
      # break exactly the step r-1 -> r in unit u (keep the rest of the curve shifted consistently)
      step = o2[r, u] - o2[r - 1, u]
      o2[r:, u] -= step + mono * 100 * eps
      if (omin is not None and o2.min() < omin) or (omax is not None and o2.max() > omax):
        o2[:, u] = np.clip(o2[:, u], 0.0 if omin is not None else -np.inf, 1.0 if omax is not None else np.inf)
        if mono * (o2[r, u] - o2[r - 1, u]) > -50 * eps:
          continue
      ctx.cls("inject:pwl-monotonicity")
      try_outs(o2, "monotonicity broken between keypoints %d,%d in unit %d" % (r - 1, r, u))
  if omin is not None and not cm:
    u = int(rng.randint(units)); o2 = outs.copy()
    j = int(np.argmin(o2[:, u])); o2[j, u] = omin - 100 * eps
    if mono:
      o2[:, u] = np.sort(o2[:, u])[::mono]
    ctx.cls("inject:pwl-lower-bound")
    try_outs(o2, "lower bound broken in unit %d" % u)
  if omax is not None and not cx:
    u = int(rng.randint(units)); o2 = outs.copy()
    j = int(np.argmax(o2[:, u])); o2[j, u] = omax + 100 * eps
    if mono:
      o2[:, u] = np.sort(o2[:, u])[::mono]
    ctx.cls("inject:pwl-upper-bound")
    try_outs(o2, "upper bound broken in unit %d" % u)
  if cm:
    u = int(rng.randint(units)); o2 = outs.copy()
    o2[:, u] = np.where(o2[:, u] == o2[:, u].min(), o2[:, u].min() + 100 * eps, o2[:, u])
    ctx.cls("inject:pwl-clamp-min")
    try_outs(o2, "clamp_min not reached in unit %d" % u)
  if cx:
    u = int(rng.randint(units)); o2 = outs.copy()
    o2[:, u] = np.where(o2[:, u] == o2[:, u].max(), o2[:, u].max() - 100 * eps, o2[:, u])
    ctx.cls("inject:pwl-clamp-max")
    try_outs(o2, "clamp_max not reached in unit %d" % u)
  if omin is not None or omax is not None:
    mo = np.full((1, units), 0.5, np.float32)
    u = int(rng.randint(units))
    mo[0, u] = (omax + 100 * eps) if omax is not None else (omin - 100 * eps)
    layer.missing_output.assign(mo)
    ctx.cls("inject:pwl-missing-output")
    _expect(ctx, "assert_constraints/rejects-injected-violation", verdict(layer, eps), "reject", "PWLCalibration: missing output outside the bounds in unit %d" % u, cfgd)
    layer.missing_output.assign(np.full((1, units), 0.5, np.float32))
  return bool(mono or b != "none"), core.digest([cfgd, eps, keys, kp.tolist()])


def _run_linear(ctx, case, st, rng):
  tf, tfl = st["tf"], st["tfl"]
  eps = max(case["eps"], 1e-5)
  n, units = int(rng.choice([2, 3, 5])), int(rng.choice([1, 2, 3]))
  mono = [int(rng.choice([-1, 0, 1, 1])) for _ in range(n)]
  inc = [i for i in range(n) if mono[i] == 1]
  dec = [i for i in range(n) if mono[i] == -1]
  md, rd = None, None
  imin = imax = None
  if len(inc) >= 2 and rng.rand() < .5:
    pairs, _ = graphs.dag_pairs(rng, inc, kind=str(rng.choice(["single", "chain", "fan_out"])))
    md = [(b, a) for a, b in pairs]
  else:
    grp = inc if len(inc) >= 2 else (dec if len(dec) >= 2 else None)
    if grp and rng.rand() < .6:
      pairs, _ = graphs.dag_pairs(rng, grp, kind=str(rng.choice(["single", "chain"])))
      rd = [(b, a) for a, b in pairs]
      imin = [0.0] * n
      imax = [float(rng.choice([0.5, 1.0, 4.0])) for _ in range(n)]
  norm = int(rng.choice([0, 0, 1, 2])) or None
  layer = tfl.layers.Linear(num_input_dims=n, units=units, monotonicities=mono, monotonic_dominances=md, range_dominances=rd,
                            input_min=imin, input_max=imax, normalization_order=norm)
  layer(tf.zeros([1, n]) if units == 1 else tf.zeros([1, units, n]))
  s = np.ones(n)
  if rd:
    s = np.array(imax) - np.array(imin)
  w = np.zeros((n, units))
  for u in range(units):
    mag = rng.uniform(0.3, 1.0, size=n)
    for _ in range(3 * n):
      for (a, b) in md or []:
        if mag[a] < mag[b] + 0.2:
          mag[a] = mag[b] + 0.3
      for (a, b) in rd or []:
        if mag[a] * s[a] < mag[b] * s[b] + 0.2:
          mag[a] = (mag[b] * s[b] + 0.3) / s[a]
    w[:, u] = [mag[i] * (mono[i] if mono[i] else float(rng.choice([-1, 1]))) for i in range(n)]
  if norm:
    w = w / np.linalg.norm(w, ord=norm, axis=0)
  smallest = min(np.abs(w[[i for i in range(n) if mono[i]]]).min() if any(mono) else 1.0, 0.05)
  if smallest < 20 * eps:
    return False, None
  cfgd = {"mono": mono, "md": md, "rd": rd, "norm": norm, "units": units}
  ctx.cls("linear:norm=%s" % norm, "linear:md=%s" % bool(md), "linear:rd=%s" % bool(rd))
  layer.kernel.assign(w.astype(np.float32))
  v = verdict(layer, eps)
  feasible_ok = True
  # dominance margins after normalisation may shrink: verify before demanding acceptance
  for (a, b) in md or []:
    feasible_ok &= bool((w[a] - w[b]).min() >= 10 * eps)
  for (a, b) in rd or []:
    sg = -1.0 if mono[a] == -1 else 1.0
    feasible_ok &= bool((sg * (s[a] * w[a] - s[b] * w[b])).min() >= 10 * eps)
  if not feasible_ok:
    return False, None
  _expect(ctx, "assert_constraints/accepts-feasible", v, "accept", "Linear feasible weights", cfgd)
  keys = []

  def try_w(k, what):
    layer.kernel.assign(k.astype(np.float32))
    _expect(ctx, "assert_constraints/rejects-injected-violation", verdict(layer, eps), "reject", "Linear: " + what, cfgd)
    keys.append(what)
  for i in range(n):
    if mono[i]:
      u = int(rng.randint(units)); k = w.copy(); k[i, u] = -mono[i] * 100 * eps
      ctx.cls("inject:linear-sign")
      try_w(k, "sign of weight %d broken in unit %d" % (i, u))
  for (a, b) in md or []:
    u = int(rng.randint(units)); k = w.copy(); k[a, u] = k[b, u] - 100 * eps
    if k[a, u] > 20 * eps:
      ctx.cls("inject:linear-monotonic-dominance")
      try_w(k, "monotonic dominance (%d over %d) broken in unit %d" % (a, b, u))
  for (a, b) in rd or []:
    u = int(rng.randint(units)); k = w.copy()
    sg = -1.0 if mono[a] == -1 else 1.0
    k[a, u] = sg * (abs(k[b, u]) * s[b] - 100 * eps) / s[a]
    if sg * k[a, u] > 20 * eps:
      ctx.cls("inject:linear-range-dominance")
      try_w(k, "range dominance (%d over %d) broken in unit %d" % (a, b, u))
  if norm:
    u = int(rng.randint(units)); k = w.copy(); k[:, u] *= (1.0 + 200 * eps)
    ctx.cls("inject:linear-norm")
    try_w(k, "norm of unit %d is %.6g" % (u, np.linalg.norm(k[:, u], ord=norm)))
  return bool(any(mono) or norm), core.digest([cfgd, eps, keys])


def _run_categorical(ctx, case, st, rng):
  tf, tfl = st["tf"], st["tfl"]
  eps = case["eps"]
  nb, units = int(rng.choice([3, 4, 6])), int(rng.choice([1, 2, 3]))
  pairs, gk = graphs.dag_pairs(rng, list(range(nb)))
  layer = tfl.layers.CategoricalCalibration(num_buckets=nb, units=units, monotonicities=[tuple(p) for p in pairs], output_min=-1.0, output_max=2.0)
  layer(tf.zeros([1, 1], tf.int32))
  level = np.zeros(nb)
  for _ in range(nb + 1):
    for (i, j) in pairs:
      level[j] = max(level[j], level[i] + 1)
  base = np.stack([level / max(level.max(), 1) * 1.5 for _ in range(units)], axis=1)
  if 1.5 / max(level.max(), 1) < 20 * eps:
    return False, None
  layer.kernel.assign(base.astype(np.float32))
  ctx.cls("categorical:graph=" + gk)
  cfgd = {"pairs": [list(p) for p in pairs], "units": units}
  _expect(ctx, "assert_constraints/accepts-feasible", verdict(layer, eps), "accept", "CategoricalCalibration feasible kernel", cfgd)
  keys = []
  for (i, j) in pairs:
    u = int(rng.randint(units)); k = base.copy()
    # violate exactly this pair: lift i just above j, and lift everything above i's old value consistently is not needed:
    # any violated pair must be rejected
    k[i, u] = k[j, u] + 100 * eps
    layer.kernel.assign(k.astype(np.float32))
    ctx.cls("inject:categorical-pair")
    _expect(ctx, "assert_constraints/rejects-injected-violation", verdict(layer, eps), "reject",
            "CategoricalCalibration: pair (%d,%d) violated in unit %d" % (i, j, u), cfgd)
    keys.append((i, j, u))
  # a violated pair next to satisfied ones with *large* margins (catches reduce_min-style asserts)
  (i, j) = pairs[0]
  k = base.copy() * 1.0
  u = int(rng.randint(units))
  k[i, u] = k[j, u] + 100 * eps
  layer.kernel.assign(k.astype(np.float32))
  for bound, val in (("upper", 2.0 + 100 * eps), ("lower", -1.0 - 100 * eps)):
    k = base.copy(); k[int(rng.randint(nb)), int(rng.randint(units))] = val
    # keep order constraints satisfied where possible: bound violation alone must be rejected anyway
    layer.kernel.assign(k.astype(np.float32))
    ctx.cls("inject:categorical-" + bound)
    _expect(ctx, "assert_constraints/rejects-injected-violation", verdict(layer, eps), "reject", "CategoricalCalibration: %s bound violated" % bound, cfgd)
  return True, core.digest([cfgd, eps, keys])


def _run_kfl(ctx, case, st, rng):
  tf, tfl = st["tf"], st["tfl"]
  eps = case["eps"]
  L, dims, units, T = int(rng.choice([2, 3, 4])), int(rng.randint(1, 4)), int(rng.choice([1, 2])), int(rng.choice([1, 2]))
  mono = [int(rng.rand() < .6) for _ in range(dims)]
  b = str(rng.choice(["none", "min", "max", "both"]))
  omin = 0.0 if b in ("min", "both") else None
  omax = 1.0 if b in ("max", "both") else None
  layer = tfl.layers.KroneckerFactoredLattice(lattice_sizes=L, units=units, num_terms=T, monotonicities=mono, output_min=omin, output_max=omax)
  layer(tf.zeros([1, dims]) if units == 1 else tf.zeros([1, units, dims]))
  S = layer.scale.numpy()
  K = np.zeros((1, L, units, dims, T))
  for u in range(units):
    for t in range(T):
      sg = np.sign(S[u, t]) or 1.0
      for d in range(dims):
        v = np.sort(rng.uniform(0.2, 0.9, size=L))
        gaps_ok = L == 1 or np.diff(v).min() >= 0.05
        if not gaps_ok:
          v = np.linspace(0.2, 0.9, L)
        K[0, :, u, d, t] = v if sg > 0 else v[::-1]
        if not mono[d]:
          K[0, :, u, d, t] = rng.uniform(0.2, 0.9, size=L)
  if 0.05 < 20 * eps:
    return False, None
  shape = layer.kernel.shape
  layer.kernel.assign(K.reshape(shape).astype(np.float32))
  ctx.cls("kfl:bounds=" + b, "kfl:mono=%s" % any(mono))
  cfgd = {"L": L, "dims": dims, "units": units, "T": T, "mono": mono, "bounds": b}
  _expect(ctx, "assert_constraints/accepts-feasible", verdict(layer, eps), "accept", "KFL feasible kernel", cfgd)
  keys = []
  for d in range(dims):
    if not mono[d]:
      continue
    u, t = int(rng.randint(units)), int(rng.randint(T))
    j = int(rng.randint(L - 1))
    K2 = K.copy()
    sg = np.sign(S[u, t]) or 1.0
    if sg > 0:
      K2[0, j + 1, u, d, t] = K2[0, j, u, d, t] - 100 * eps
    else:
      K2[0, j + 1, u, d, t] = K2[0, j, u, d, t] + 100 * eps
    if not (0 <= K2[0, j + 1, u, d, t] <= 1):
      continue
    layer.kernel.assign(K2.reshape(shape).astype(np.float32))
    ctx.cls("inject:kfl-monotonicity")
    _expect(ctx, "assert_constraints/rejects-injected-violation", verdict(layer, eps), "reject",
            "KFL: monotone dim %d broken at vertex %d, unit %d, term %d" % (d, j, u, t), cfgd)
    keys.append((d, j, u, t))
  layer.kernel.assign(K.reshape(shape).astype(np.float32))
  if b == "both":
    S2 = S.copy(); S2[int(rng.randint(units)), int(rng.randint(T))] = (omax - omin) / 2.0 + 100 * eps
    layer.scale.assign(S2.astype(np.float32))
    ctx.cls("inject:kfl-scale-bound")
    _expect(ctx, "assert_constraints/rejects-injected-violation", verdict(layer, eps), "reject", "KFL: scale above (max-min)/2", cfgd)
    layer.scale.assign(S)
    K2 = K.copy()
    u, t = int(rng.randint(units)), int(rng.randint(T))
    K2[0, -1 if np.sign(S[u, t]) > 0 else 0, u, :, t] = 1.0 + 200 * eps       # product of maxima > 1
    layer.kernel.assign(K2.reshape(shape).astype(np.float32))
    ctx.cls("inject:kfl-kernel-bound")
    _expect(ctx, "assert_constraints/rejects-injected-violation", verdict(layer, eps), "reject", "KFL: product of per-dimension maxima above 1", cfgd)
  elif b in ("min", "max"):
    K2 = K.copy()
    u, t, d = int(rng.randint(units)), int(rng.randint(T)), int(rng.randint(dims))
    j = 0 if np.sign(S[u, t]) >= 0 else L - 1
    K2[0, j, u, d, t] = -100 * eps
    layer.kernel.assign(K2.reshape(shape).astype(np.float32))
    ctx.cls("inject:kfl-negative-weight")
    _expect(ctx, "assert_constraints/rejects-injected-violation", verdict(layer, eps), "reject", "KFL: negative kernel weight under a one-sided bound", cfgd)
    layer.kernel.assign(K.reshape(shape).astype(np.float32))
    S2 = S.copy(); S2[int(rng.randint(units)), int(rng.randint(T))] *= -1.0
    layer.scale.assign(S2.astype(np.float32))
    ctx.cls("inject:kfl-scale-sign")
    _expect(ctx, "assert_constraints/rejects-injected-violation", verdict(layer, eps), "reject", "KFL: scale sign against the one-sided bound", cfgd)
    layer.scale.assign(S)
  return bool(any(mono) or b != "none"), core.digest([cfgd, eps, keys])


def run_case(ctx, case):
  st = _ensure()
  rng = np.random.RandomState(case["seed"])
  fn = {"lattice": _run_lattice, "rtl": _run_rtl, "pwl": _run_pwl, "linear": _run_linear, "categorical": _run_categorical, "kfl": _run_kfl}[case["kind"]]
  _state["exec"] = case.get("exec", "eager")
  ctx.cls("kind:" + case["kind"], "eps:%g" % case["eps"], "exec:" + _state["exec"])
  return fn(ctx, case, st, rng)
