"""C02 - Lattice output equals hypercube / simplex interpolation and inherits
the kernel's shape.

Monitors: Lattice.__call__ (layer boundary), lattice_lib.evaluate_with_*
(direct).  Oracles: O-hyper / O-simplex from the mathematical definition,
plus consequence checks on the implementation's own outputs (vertex
exactness, convex-combination range, continuity across faces, agreement of
both schemes on axis-parallel edges, monotonicity inheritance, global range,
Edgeworth => main effect monotone in the conditional feature).
"""
import itertools

import numpy as np

from tflv import core
from tflv import modes
from tflv.gen import lattice as gen
from tflv.oracles import lattice as ol

PROPERTY = "C02"
RULE = ("case = (lattice shape, units, interpolation, clip_inputs, input form, kernel class, batch of 24-40 points "
        "from labelled classes: interior, face, vertex, tied coordinates, outer edge, half-integers, outside range); "
        "each case evaluates the real layer and lattice_lib function and compares every output with the float64 oracle; "
        "non-trivial = kernel not constant; distinct by digest of (shape, units, interpolation, clip, form, kernel, points)")
MIN_EVENTS = {
    "quick": {"Lattice.call/oracle-equal": 3000, "lattice_lib.evaluate/oracle-equal": 3000,
              "consequence/vertex-exact": 200, "consequence/continuity": 200,
              "consequence/monotone-inherit": 100, "consequence/edgeworth-effect": 20},
    "thorough": {"Lattice.call/oracle-equal": 100000, "lattice_lib.evaluate/oracle-equal": 100000,
                 "consequence/vertex-exact": 5000, "consequence/continuity": 5000,
                 "consequence/monotone-inherit": 3000, "consequence/edgeworth-effect": 500},
}
ASSUMPTIONS = [
    "outputs compared with tol = 1e-5*max(1,|kernel|)*max(1, sqrt(#vertices)/8) (float32 dot product over all vertices vs float64 oracle)",
    "clip_inputs=False is exercised only with in-range points (the property claims nothing outside)",
    "inputs are finite float32 with |x| <= 1e6",
]

_state = {}


def setup(ctx):
  from tflv import tfenv
  tf, tfl = tfenv.setup()
  from tensorflow_lattice.python import lattice_layer, lattice_lib
  _state.update(tf=tf, ll=lattice_layer, lib=lattice_lib)


def _ensure():
  if "tf" not in _state:
    setup(None)
  return _state["tf"], _state["ll"], _state["lib"]


def _shape(rng, i, tier):
  k = i % 10
  if k == 0:
    return [2] * int(rng.choice([8, 9] if tier == "quick" else [8, 9, 10])), "matmul_rank>7"
  if k == 1:
    return [2] * int(rng.randint(1, 7)), "all2"
  if k == 2:
    a, b = int(rng.choice([3, 4])), int(rng.choice([2, 3, 5]))
    return [a, a, b, b, a][: int(rng.randint(2, 6))], "runs"
  if k == 3:
    return [int(rng.choice([2, 3, 4, 7]))], "rank1"
  if k == 4:
    return [2, 2, 3, 2, 2, 2, 2, 2][: int(rng.choice([8]))], "rank8_mixed"
  sizes, cls = gen.lattice_sizes(rng, 400, shape_class="mixed")
  return sizes, cls


def _points(rng, sizes, clip, nb):
  """Labelled point classes.  Returns (x float32 (nb, rank), labels list)."""
  rank = len(sizes)
  hi = np.array(sizes, dtype=np.float64) - 1
  xs, labels = [], []
  classes = ["interior", "vertex", "face", "tie", "outer_edge", "half", "mixed_int"]
  if clip:
    classes += ["outside", "far_outside", "just_outside"]
  for b in range(nb):
    c = classes[b % len(classes)]
    if c == "interior":
      x = rng.uniform(0, hi)
    elif c == "vertex":
      x = np.array([rng.randint(s) for s in sizes], dtype=np.float64)
    elif c == "face":
      x = rng.uniform(0, hi)
      d = int(rng.randint(rank))
      x[d] = float(rng.randint(sizes[d]))
    elif c == "tie":
      x = np.floor(rng.uniform(0, hi)) + float(rng.uniform(0, 1))
      x = np.minimum(x, hi)
      if rank > 2 and rng.rand() < .5:
        x[int(rng.randint(rank))] = float(rng.uniform(0, hi[0]))
    elif c == "outer_edge":
      x = rng.uniform(0, hi)
      for d in range(rank):
        if rng.rand() < .5:
          x[d] = hi[d] if rng.rand() < .6 else 0.0
    elif c == "half":
      x = np.array([rng.randint(s - 1) + 0.5 for s in sizes])
    elif c == "mixed_int":
      x = np.array([float(rng.randint(s)) for s in sizes])
      d = int(rng.randint(rank))
      x[d] = float(rng.uniform(0, hi[d]))
    elif c == "outside":
      x = rng.uniform(-2, hi + 2)
    elif c == "just_outside":
      x = rng.uniform(0, hi)
      d = int(rng.randint(rank))
      x[d] = float(rng.choice([-1e-6, hi[d] + 1e-6, -0.0, hi[d] + 1e-3]))
    else:
      x = rng.uniform(0, hi)
      d = int(rng.randint(rank))
      x[d] = float(rng.choice([-1e6, 1e6, -50.0, hi[d] + 40.0]))
    xs.append(x)
    labels.append(c)
  x = np.asarray(xs, dtype=np.float32)
  if not clip:
    x = np.minimum(np.maximum(x, 0.0), hi.astype(np.float32))
  return x, labels


def gen_cases(ctx):
  rng = ctx.rng
  for i in range(ctx.n):
    sizes, shape_cls = _shape(rng, i, ctx.tier)
    n = int(np.prod(sizes))
    units = int(rng.choice([1, 1, 2, 3])) if n <= 600 else int(rng.choice([1, 2]))
    interp = ["hypercube", "simplex"][(i // 2) % 2]
    clip = bool(rng.rand() < .7)
    form = str(rng.choice(["tensor", "tensor", "list", "extra_batch", "list_extra_batch"]))
    kmode = str(rng.choice(["random", "random", "monotone", "edgeworth"])) if n <= 64 else str(rng.choice(["random", "monotone"]))
    kclass, w = gen.kernel(rng, n, units)
    if rng.rand() < .15:
      # vertices of very different magnitude in one cell: a convex combination still reproduces every vertex exactly and
      # stays inside the cell's range; an algebraically equivalent rewrite (base + increments) cancels catastrophically
      kclass = "mixed_magnitude"
      w = (rng.choice([1e8, -1e6, 1.0, 2.0, 3.0, -0.5, 1e-3, 3e37, -3e37], size=(n, units), p=[.15, .1, .2, .15, .1, .1, .1, .05, .05])).astype(np.float32)
    nb = 24 if ctx.tier == "quick" else 40
    yield {"sizes": sizes, "units": units, "interp": interp, "clip": clip, "form": form,
           "kmode": kmode, "kclass": kclass, "w": w.tolist(), "nb": nb,
           "pseed": int(rng.randint(2**31 - 1)), "shape_cls": shape_cls,
           "exec": modes.pick(rng, (0.5, 0.2, 0.3)), "dtype": "float64" if rng.rand() < .15 else "float32"}


def _feed(tf, x, units, rank, form, dtype="float32"):
  """x: (nb, units, rank) float32 -> layer input in the requested form, and a
  function mapping the layer output back to (nb, units)."""
  nb = x.shape[0]
  xin = (x if units > 1 else x[:, 0, :]).astype(dtype)
  if form in ("extra_batch", "list_extra_batch"):
    # split batch into (2, nb/2, ...)
    xin = xin.reshape((2, nb // 2) + xin.shape[1:])
  if form in ("list", "list_extra_batch"):
    inp = [tf.constant(xin[..., d:d + 1]) for d in range(rank)]
  else:
    inp = tf.constant(xin)

  def back(y):
    y = np.asarray(y)
    return y.reshape(nb, units)
  return inp, back


def run_case(ctx, case):
  tf, ll, lib = _ensure()
  sizes, units, interp, clip = list(case["sizes"]), case["units"], case["interp"], case["clip"]
  rank, n = len(sizes), int(np.prod(sizes))
  rng = np.random.RandomState(case["pseed"])
  w = np.asarray(case["w"], dtype=np.float32).reshape(n, units)
  kmode = case["kmode"]
  mono_dims, ew = [], None
  if kmode == "monotone":
    mono_dims = [d for d in range(rank) if rng.rand() < .6] or [int(rng.randint(rank))]
    W = w.reshape(sizes + [units])
    for d in mono_dims:
      W = np.maximum.accumulate(W, axis=d)
    w = W.reshape(n, units).astype(np.float32)
  elif kmode == "edgeworth" and rank >= 2:
    m, c = [int(v) for v in rng.choice(rank, 2, replace=False)]
    dr = int(rng.choice([-1, 1]))
    ew = (m, c, dr)
    A = ol.build_rows(sizes, ew=[ew]).dense()
    cols = []
    for u in range(units):
      p = ol.nnls_project(A, w[:, u].astype(np.float64))
      cols.append(p if p is not None else np.zeros(n))
    w = np.stack(cols, axis=1).astype(np.float32)
  else:
    kmode = "random"
  nb = case["nb"] - case["nb"] % 2
  pts = [_points(rng, sizes, clip, nb) for _ in range(units)]
  x = np.stack([p[0] for p in pts], axis=1)          # (nb, units, rank)
  labels = pts[0][1]
  ctx.cls("shape:" + case["shape_cls"], "interp:" + interp, "clip:%s" % clip, "form:" + case["form"],
          "units:%d" % units, "kernel:" + kmode + "/" + case["kclass"], "rank:%d" % rank)
  for l in labels:
    ctx.cls("point:" + l)
  scale = core.scale_of(w)
  # The output is a float32 dot product over n = prod(sizes) vertices (through a matmul for rank > 7): its honest rounding
  # error grows like sqrt(n)*eps32*scale (6.9e-5 observed at n = 1024, scale 5 - 113 eps), so the tolerance does too.
  tol = core.REL_TOL * scale * max(1.0, np.sqrt(n) / 8.0)
  w64 = w.astype(np.float64)
  oracle = ol.hypercube if interp == "hypercube" else ol.simplex
  ref = np.stack([oracle(w64[:, u:u + 1], sizes, x[:, u, :].astype(np.float64), clip)[:, 0]
                  for u in range(units)], axis=1)

  # ---- layer boundary ---------------------------------------------------------
  ex, dt = case.get("exec", "eager"), case.get("dtype", "float32")
  ctx.cls("exec:" + ex, "dtype:" + dt)
  layer = ll.Lattice(lattice_sizes=sizes, units=units, interpolation=interp, clip_inputs=clip,
                     **({} if dt == "float32" else {"dtype": dt}))
  inp, back = _feed(tf, x, units, rank, case["form"], dt)
  y = back(layer(inp).numpy())
  layer.kernel.assign(w)
  y = back(modes.call(tf, ex, layer, inp).numpy())
  err = np.abs(y - ref)
  for b in range(nb):
    e = float(err[b].max())
    ctx.check("Lattice.call/oracle-equal", e <= tol,
              "layer output differs from %s oracle by %.3g (tol %.3g) at x=%s (%s)" % (
                  interp, e, tol, x[b].tolist(), labels[b]),
              info={"point": x[b].tolist(), "class": labels[b], "got": y[b].tolist(), "want": ref[b].tolist()},
              ratio=e / tol)
  # ---- lib function directly (both schemes) --------------------------------------
  fn = lib.evaluate_with_hypercube_interpolation if interp == "hypercube" else lib.evaluate_with_simplex_interpolation
  y2 = back(modes.call(tf, ex, lambda t: fn(inputs=t, kernel=tf.constant(w.astype(dt)), units=units, lattice_sizes=sizes,
                                            clip_inputs=clip), inp).numpy())
  err2 = np.abs(y2 - ref)
  for b in range(nb):
    e = float(err2[b].max())
    ctx.check("lattice_lib.evaluate/oracle-equal", e <= tol,
              "lattice_lib %s output differs from oracle by %.3g (tol %.3g) at x=%s" % (interp, e, tol, x[b].tolist()),
              info={"point": x[b].tolist(), "class": labels[b]}, ratio=e / tol)

  # ---- consequences, judged on the implementation's own outputs ------------------
  hi = np.array(sizes, dtype=np.float64) - 1
  W = w64.reshape(sizes + [units])
  kmin, kmax = W.min(axis=tuple(range(rank))), W.max(axis=tuple(range(rank)))
  for b in range(nb):
    for u in range(units):
      xc = np.clip(x[b, u].astype(np.float64), 0, hi)
      # global range
      ctx.check("consequence/global-range", kmin[u] - tol <= y[b, u] <= kmax[u] + tol,
                "output %.6g outside [min kernel %.6g, max kernel %.6g]" % (y[b, u], kmin[u], kmax[u]))
      lower = np.minimum(np.floor(xc), hi - 1).astype(int)
      lower = np.maximum(lower, 0)
      sl = tuple(slice(l, l + 2) for l in lower) + (u,)
      cell = W[sl]
      ctx.check("consequence/cell-convex-combination", cell.min() - tol <= y[b, u] <= cell.max() + tol,
                "output %.6g outside the corner range [%.6g, %.6g] of its cell at x=%s" % (
                    y[b, u], cell.min(), cell.max(), x[b, u].tolist()))
      if labels[b] == "vertex":
        v = W[tuple(xc.astype(int)) + (u,)]
        # at a lattice vertex every interpolation weight is exactly 0 or 1 in both schemes: the output is the kernel
        # entry itself, whatever the other vertices hold (2 ulp of that entry, not of the largest kernel value)
        ctx.check("consequence/vertex-exact", abs(y[b, u] - v) <= 2 * core.F32_EPS * abs(v),
                  "vertex %s: output %.9g != kernel value %.9g" % (xc.tolist(), y[b, u], v))

  def evaluate(points, interpolation=interp):
    """points (k, units, rank) -> (k, units) through a fresh call of the layer."""
    lay = layer if interpolation == interp else _other_layer()
    t = tf.constant(points.astype(dt)) if units > 1 else tf.constant(points[:, 0, :].astype(dt))
    return np.asarray(lay(t).numpy()).reshape(points.shape[0], units)

  other = {}

  def _other_layer():
    if "l" not in other:
      o = ll.Lattice(lattice_sizes=sizes, units=units, clip_inputs=clip,
                     interpolation="simplex" if interp == "hypercube" else "hypercube",
                     **({} if dt == "float32" else {"dtype": dt}))
      o.build((None, rank) if units == 1 else (None, units, rank))
      o.kernel.assign(w)
      other["l"] = o
    return other["l"]

  # continuity across interior faces
  faces = []
  for _ in range(6):
    cand = [d for d in range(rank) if sizes[d] >= 3]
    if not cand:
      break
    d = int(rng.choice(cand))
    p = rng.uniform(0, hi, size=(units, rank))
    p[:, d] = float(rng.randint(1, sizes[d] - 1))
    faces.append((d, p))
  if faces:
    delta = 1e-3
    lo = np.stack([p - delta * np.eye(rank)[d] for d, p in faces])
    up = np.stack([p + delta * np.eye(rank)[d] for d, p in faces])
    ylo, yup = evaluate(lo), evaluate(up)
    for k, (d, p) in enumerate(faces):
      lip = float(np.abs(np.diff(W, axis=d)).max())
      jump = float(np.abs(yup[k] - ylo[k]).max())
      bound = 2 * delta * lip * 1.01 + 2 * tol
      ctx.check("consequence/continuity", jump <= bound,
                "jump %.3g across face x_%d=%g exceeds Lipschitz bound %.3g" % (jump, d, p[0, d], bound),
                info={"point": p.tolist(), "dim": d})
  # both schemes agree on axis-parallel edges / vertices
  edge_pts = []
  for _ in range(6):
    p = np.array([[float(rng.randint(s)) for s in sizes] for _ in range(units)])
    d = int(rng.randint(rank))
    p[:, d] = rng.uniform(0, hi[d], size=units)
    edge_pts.append(p)
  edge_pts = np.stack(edge_pts)
  ya, yb = evaluate(edge_pts), evaluate(edge_pts, "other")
  for k in range(edge_pts.shape[0]):
    dlt = float(np.abs(ya[k] - yb[k]).max())
    ctx.check("consequence/schemes-agree-on-edges", dlt <= 2 * tol,
              "hypercube and simplex differ by %.3g on axis-parallel edge point %s" % (dlt, edge_pts[k].tolist()))
  # monotonicity inheritance
  if kmode == "monotone":
    for _ in range(8):
      d = int(rng.choice(mono_dims))
      span = 2.0 if clip else 0.0
      p = rng.uniform(-span, hi + span, size=(units, rank))
      q = p.copy()
      a, b2 = np.sort(rng.uniform(-span, hi[d] + span, size=(2, units)), axis=0)
      p[:, d], q[:, d] = a, b2
      yy = evaluate(np.stack([p, q]))
      ctx.check("consequence/monotone-inherit", bool(np.all(yy[1] - yy[0] >= -tol)),
                "kernel non-decreasing along dim %d but f(%s)=%s > f(%s)=%s" % (
                    d, p.tolist(), yy[0].tolist(), q.tolist(), yy[1].tolist()),
                info={"dim": d, "p": p.tolist(), "q": q.tolist()})
  # Edgeworth: effect of the main feature monotone in the conditional one
  if ew is not None and interp == "hypercube":
    m, c, dr = ew
    for _ in range(4):
      base = rng.uniform(0, hi, size=(units, rank))
      dm = float(rng.uniform(0.05, 1.0))
      base[:, m] = rng.uniform(0, hi[m] - dm, size=units) if hi[m] > dm else 0.0
      ts = np.linspace(0, hi[c], 7)
      P0 = np.stack([np.where(np.arange(rank) == c, t, base) for t in ts])
      P1 = P0.copy()
      P1[:, :, m] += min(dm, hi[m])
      eff = evaluate(P1) - evaluate(P0)            # (7, units)
      d_eff = dr * np.diff(eff, axis=0)
      ctx.check("consequence/edgeworth-effect", bool(np.all(d_eff >= -4 * tol)),
                "Edgeworth trust %s holds on the kernel but the main-feature effect is not monotone in the conditional feature: %s" % (
                    list(ew), eff.T.tolist()),
                info={"trust": list(ew), "base": base.tolist()})
  nontrivial = float(W.max() - W.min()) > 0
  return nontrivial, core.digest([sizes, units, interp, clip, case["form"], ex, dt, core.arr_digest(w, x)])
