"""C17 - Ensemble structures use every feature, fill each lattice, respect
monotone slots.

Monitors: RTL._get_rtl_structure (through the built layer: _rtl_structure and
the gathered indices), premade_lib.set_random_lattice_ensemble,
construct_prefitting_model_config (pair cover) and
set_crystals_lattice_ensemble with a prefitting model whose lattice kernels are
assigned.  Oracle O-struct: rank, coverage, usage counts, no repeats,
determinism in the seed, monotone wiring and output labels.
"""
import itertools

import numpy as np

from tflv import core

PROPERTY = "C17"
RULE = ("case = (RTL input dict with grouped multi-unit inputs / monotone and unconstrained mixes, rank, lattice count with enough slots, seed) | "
        "random ensemble (features, rank, count, seed) | Crystals (features, rank, count, seed, assigned prefitting kernels: random / huge / near-constant); "
        "non-trivial = more than one way to arrange (features > rank); distinct by digest of the arguments")
MIN_EVENTS = {
    "quick": {"arrangement/same-in-every-interpreter": 64, "RTL/structure": 300, "RTL/monotone-wiring": 300, "random-ensemble/structure": 140, "crystals/pair-cover": 24, "crystals/structure": 20},
    "thorough": {"arrangement/same-in-every-interpreter": 2048, "RTL/structure": 25000, "RTL/monotone-wiring": 25000, "random-ensemble/structure": 12000, "crystals/pair-cover": 1000, "crystals/structure": 800},
}
ASSUMPTIONS = ["only configurations with enough slots (num_lattices * lattice_rank >= number of features; Crystals: lattice_rank < number of features)",
               "RTL usage counts are checked per flattened input (grouped inputs are flattened as the layer documents)"]
_state = {}


def setup(ctx):
  from tflv import tfenv
  tf, tfl = tfenv.setup()
  from tensorflow_lattice.python import premade_lib
  _state.update(tf=tf, tfl=tfl, pl=premade_lib)


def _ensure():
  if "tf" not in _state:
    setup(None)
  return _state


def gen_cases(ctx):
  rng = ctx.rng
  for i in range(ctx.n):
    k = i % 20
    kind = "crystals" if k == 19 else ("random" if k % 3 == 2 else "rtl")
    if i % 100 == 7:
      kind = "xproc"     # once per 100 cases: the same arrangements from other interpreters (other string-hash seeds)
    yield {"kind": kind, "seed": int(rng.randint(2**31 - 1))}


def _rtl_structure(tfl, tf, kw, shapes):
  layer = tfl.layers.RTL(**kw)
  st = layer._get_rtl_structure(shapes)
  return layer, st


def _run_rtl(ctx, rng, st):
  tf, tfl = st["tf"], st["tfl"]
  form = str(rng.choice(["dict_tensors", "dict_lists", "single_tensor"]))
  groups = {"increasing": [], "unconstrained": []}
  if form == "single_tensor":
    n = int(rng.randint(1, 9))
    shapes = (None, n)
    flat_keys = ["unconstrained"] * n
  else:
    shapes = {}
    flat_keys = []
    for key in ("increasing", "unconstrained"):
      if rng.rand() < .8:
        if form == "dict_tensors":
          w = int(rng.randint(1, 6))
          shapes[key] = (None, w)
          groups[key] = [1] * w
        else:
          widths = [int(rng.choice([1, 1, 2, 3])) for _ in range(int(rng.randint(1, 4)))]
          shapes[key] = [(None, w) for w in widths]
          groups[key] = widths
    if not shapes:
      shapes = {"unconstrained": (None, 3)}
      groups["unconstrained"] = [1, 1, 1]
    for key in sorted(shapes.keys()):
      flat_keys += [key] * sum(groups[key])
    n = len(flat_keys)
  rank = int(rng.randint(1, 5))
  nlat = int(np.ceil(n / rank)) + int(rng.randint(0, 4))
  seed = int(rng.randint(0, 1000))
  kw = dict(num_lattices=nlat, lattice_rank=rank, lattice_size=2, random_seed=seed,
            avoid_intragroup_interaction=bool(rng.rand() < .7), separate_outputs=True)
  ctx.cls("rtl:form=" + form, "rtl:rank=%d" % rank, "rtl:n=%d" % n)
  layer, S = _rtl_structure(tfl, tf, kw, shapes)
  msgs = []
  usage = np.zeros(n, dtype=int)
  wiring = []
  nl = 0
  n_inc_lat = 0
  for monos, lattices in S:
    if max(monos) == 1:
      n_inc_lat += len(lattices)
    for idxs in lattices:
      nl += 1
      if len(idxs) != rank or len(monos) != rank:
        msgs.append("lattice with %d inputs (rank %d)" % (len(idxs), rank))
      for pos, ix in enumerate(idxs):
        if not (0 <= ix < n):
          msgs.append("input index %d out of range" % ix)
          continue
        usage[ix] += 1
        if flat_keys[ix] == "increasing" and monos[pos] != 1:
          wiring.append("input %d supplied as 'increasing' sits at a position with monotonicity %d" % (ix, monos[pos]))
        if flat_keys[ix] == "unconstrained" and monos[pos] != 0:
          wiring.append("input %d supplied as 'unconstrained' sits at a position with monotonicity %d" % (ix, monos[pos]))
  if nl != nlat:
    msgs.append("%d lattices, expected %d" % (nl, nlat))
  if usage.min() < 1:
    msgs.append("inputs %s never used" % np.where(usage == 0)[0].tolist())
  if usage.max() - usage.min() > 1:
    msgs.append("usage counts differ by more than one: %s" % usage.tolist())
  _, S2 = _rtl_structure(tfl, tf, kw, shapes)
  if core.to_jsonable(S2) != core.to_jsonable(S):
    msgs.append("same seed gives a different structure")
  info = {"shapes": core.to_jsonable(shapes), "kw": kw, "structure": core.to_jsonable(S)}
  ctx.check("RTL/structure", not msgs, "; ".join(msgs), info=info)
  ctx.check("RTL/monotone-wiring", not wiring, "; ".join(wiring[:3]), info=info)
  if n > rank:
    _, S3 = _rtl_structure(tfl, tf, dict(kw, random_seed=seed + 1), shapes)
    ctx.cls("rtl:other_seed_differs=%s" % (core.to_jsonable(S3) != core.to_jsonable(S)))
  # output labels through the real layer call
  if rng.rand() < .25:
    feed = {}
    if form == "single_tensor":
      feed = tf.zeros((2, n))
    else:
      for key, sh in shapes.items():
        feed[key] = [tf.zeros((2, s[1])) for s in sh] if isinstance(sh, list) else tf.zeros((2, sh[1]))
    out = layer(feed)
    got_inc = int(out["increasing"].shape[-1]) if "increasing" in out else 0
    got_unc = int(out["unconstrained"].shape[-1]) if "unconstrained" in out else 0
    ctx.check("RTL/output-labels", got_inc == n_inc_lat and got_unc == nlat - n_inc_lat,
              "separate outputs: %d 'increasing' / %d 'unconstrained', expected %d / %d" % (got_inc, got_unc, n_inc_lat, nlat - n_inc_lat), info=info)
    if core.to_jsonable(layer._rtl_structure) != core.to_jsonable(S):
      ctx.check("RTL/structure", False, "structure recorded at build differs from _get_rtl_structure for the same shapes", info=info)
  return n > rank, core.digest([core.to_jsonable(shapes), kw])


def _ens_config(tfl, names, monos, lattices, nl, rank, seed):
  fcs = [tfl.configs.FeatureConfig(n_, pwl_calibration_input_keypoints=[0.0, 1.0], monotonicity=m) for n_, m in zip(names, monos)]
  return tfl.configs.CalibratedLatticeEnsembleConfig(feature_configs=fcs, lattices=lattices, num_lattices=nl, lattice_rank=rank,
                                                     random_seed=seed, output_initialization=[0.0, 1.0])


def _check_lattices(L, names, nl, rank, what):
  msgs = []
  if len(L) != nl:
    msgs.append("%s: %d lattices, expected %d" % (what, len(L), nl))
  if any(len(l) != rank for l in L):
    msgs.append("%s: a lattice does not have exactly %d features: %s" % (what, rank, [len(l) for l in L]))
  if set(x for l in L for x in l) != set(names):
    msgs.append("%s: features %s never used" % (what, sorted(set(names) - set(x for l in L for x in l))))
  if any(len(set(l)) != len(l) for l in L):
    msgs.append("%s: a feature repeated inside a lattice" % what)
  return msgs


def _run_random(ctx, rng, st):
  tfl, pl = st["tfl"], st["pl"]
  nf = int(rng.randint(2, 9))
  rank = int(rng.randint(1, nf + 1))
  nl = max(2, int(np.ceil(nf / rank)) + int(rng.randint(0, 4)))
  seed = int(rng.randint(0, 1000))
  names = ["f%d" % i for i in range(nf)]
  monos = [int(rng.choice([0, 1])) for _ in names]
  # the documented feature_names argument: the feature set is given explicitly and only some features (say the
  # monotone ones) have a FeatureConfig of their own
  explicit = bool(rng.rand() < .4)
  cfg_names = names
  if explicit:
    keep = [i for i in range(nf) if rng.rand() < .5]
    cfg_names = [names[i] for i in keep]
    ctx.cls("random:explicit_feature_names", "random:configured=%d/%d" % (len(cfg_names), nf))
  outs = []
  for rep in range(2):
    mc = _ens_config(tfl, cfg_names, [monos[names.index(n_)] for n_ in cfg_names], "random", nl, rank, seed)
    if explicit:
      pl.set_random_lattice_ensemble(mc, feature_names=list(names))
    else:
      pl.set_random_lattice_ensemble(mc)
    outs.append([list(map(str, l)) for l in mc.lattices])
  msgs = _check_lattices(outs[0], names, nl, rank, "random ensemble")
  if outs[0] != outs[1]:
    msgs.append("same seed gives a different random ensemble")
  ctx.cls("random:nf=%d" % nf, "random:rank=%d" % rank)
  ctx.check("random-ensemble/structure", not msgs, "; ".join(msgs), info={"nf": nf, "rank": rank, "nl": nl, "seed": seed, "lattices": outs[0]})
  return nf > rank, core.digest(["random", nf, rank, nl, seed])


def _run_xproc(ctx, rng, st):
  """'A deterministic function of the seed': the arrangement must not depend on the interpreter it is computed in
  (iteration order of sets / dicts of strings changes with PYTHONHASHSEED).  Same configurations, this process and two
  children with other hash seeds."""
  import json, os, subprocess, sys
  cfgs = []
  for _ in range(10):
    nf = int(rng.randint(3, 9))
    rank = int(rng.randint(2, nf + 1))
    nl = max(2, int(np.ceil(nf / rank)) + int(rng.randint(1, 4)))
    cfgs.append({"what": "random", "names": ["feat_%s" % "abcdefghij"[i] for i in range(nf)], "monos": [int(rng.choice([0, 1])) for _ in range(nf)],
                 "nl": nl, "rank": rank, "seed": int(rng.randint(0, 1000))})
  for _ in range(6):
    n_inc, n_unc = int(rng.randint(1, 5)), int(rng.randint(1, 5))
    rank = int(rng.randint(2, 4))
    cfgs.append({"what": "rtl", "shapes": {"increasing": n_inc, "unconstrained": n_unc}, "rank": rank,
                 "nl": int(np.ceil((n_inc + n_unc) / rank)) + int(rng.randint(0, 3)), "seed": int(rng.randint(0, 1000))})
  results = {}
  for hs in ("0", "1", "2"):
    env = dict(os.environ, PYTHONHASHSEED=hs, TF_CPP_MIN_LOG_LEVEL="3")
    try:
      r = subprocess.run([sys.executable, "-B", "-m", "tflv.children.c17_child"], input=json.dumps(cfgs), capture_output=True, text=True,
                         timeout=600, env=env, cwd=os.path.dirname(os.path.dirname(os.path.dirname(os.path.abspath(__file__)))))
      line = [l for l in r.stdout.splitlines() if l.startswith("C17CHILD ")]
      if not line:
        ctx.note("xproc-child-failed")
        ctx.ev("xproc/child-failed")
        return False, None
      results[hs] = json.loads(line[-1][len("C17CHILD "):])
    except subprocess.TimeoutExpired:
      ctx.note("xproc-child-timeout")
      return False, None
  for k, c in enumerate(cfgs):
    same = results["0"][k] == results["1"][k] == results["2"][k]
    ctx.check("arrangement/same-in-every-interpreter", same,
              "%s arrangement for seed %d differs between interpreters with different PYTHONHASHSEED" % (c["what"], c["seed"]),
              info={"config": c, "hashseed0": results["0"][k], "hashseed1": results["1"][k], "hashseed2": results["2"][k]})
  ctx.cls("xproc")
  return True, core.digest(["xproc", cfgs])


def _run_crystals(ctx, rng, st):
  tfl, pl = st["tfl"], st["pl"]
  nf = int(rng.randint(3, 8))
  rank = int(rng.randint(2, min(nf, 5)))
  nl = max(2, int(np.ceil(nf / rank)) + int(rng.randint(0, 4)))
  seed = int(rng.randint(0, 100))
  names = ["f%d" % i for i in range(nf)]
  monos = [int(rng.choice([0, 1])) for _ in names]
  mc = _ens_config(tfl, names, monos, "crystals", nl, rank, seed)
  pc = pl.construct_prefitting_model_config(mc)
  if rng.rand() < .3:
    # the same cover requested through feature_names with only part of the features configured
    sub = [n_ for n_ in names if rng.rand() < .5]
    mcs = _ens_config(tfl, sub, [monos[names.index(n_)] for n_ in sub], "crystals", nl, rank, seed)
    pcs = pl.construct_prefitting_model_config(mcs, feature_names=list(names))
    cov = set()
    for l in pcs.lattices:
      for a, b in itertools.combinations(sorted(map(str, l)), 2):
        cov.add((a, b))
    allp = {tuple(sorted(p)) for p in itertools.combinations(names, 2)}
    ctx.cls("crystals:explicit_feature_names")
    ctx.check("crystals/pair-cover", not (allp - cov), "explicit feature_names with %d/%d features configured: pairs never together in the prefitting cover: %s" % (
        len(sub), nf, sorted(allp - cov)[:5]), info={"nf": nf, "configured": sub})
  pairs = {tuple(sorted(p)) for p in itertools.combinations(names, 2)}
  covered = set()
  msgs = []
  for l in pc.lattices:
    if len(l) > rank:
      msgs.append("prefitting lattice larger than lattice_rank: %s" % (l,))
    for a, b in itertools.combinations(sorted(l), 2):
      covered.add((a, b))
  if pairs - covered:
    msgs.append("feature pairs never together in the prefitting cover: %s" % sorted(pairs - covered)[:5])
  pc2 = pl.construct_prefitting_model_config(_ens_config(tfl, names, monos, "crystals", nl, rank, seed))
  if [sorted(l) for l in pc2.lattices] != [sorted(l) for l in pc.lattices]:
    msgs.append("same seed gives a different prefitting cover")
  ctx.check("crystals/pair-cover", not msgs, "; ".join(msgs), info={"nf": nf, "rank": rank, "seed": seed})
  pm = tfl.premade.CalibratedLatticeEnsemble(pc)
  mode = str(rng.choice(["random", "big", "near_constant", "one_constant", "constant"], p=[.4, .2, .2, .1, .1]))
  kernels = []
  for i, l in enumerate(pc.lattices):
    lay = pm.get_layer("tfl_lattice_%d" % i)
    w = rng.normal(size=lay.kernel.shape).astype(np.float32)
    if mode == "constant" or (mode == "one_constant" and i == 0):
      w = w * 0 + 0.3
    if mode == "near_constant":
      w = (0.3 + w * 1e-6).astype(np.float32)
    if mode == "big":
      w *= 1e6
    lay.kernel.assign(w)
    kernels.append(w)
  ctx.cls("crystals:prefit=" + mode, "crystals:nf=%d" % nf, "crystals:rank=%d" % rank)
  info = {"nf": nf, "rank": rank, "nl": nl, "seed": seed, "prefit": mode}
  try:
    pl.set_crystals_lattice_ensemble(mc, pc, pm)
  except Exception as e:
    all_equal = any(float(k.max()) == float(k.min()) for k in kernels)
    fk = "KF-C17-a" if (all_equal and isinstance(e, ValueError) and "NaN" in str(e)) else None
    ctx.check("crystals/structure", False, "set_crystals_lattice_ensemble raised %s: %s" % (type(e).__name__, str(e)[:120]), info=info, finding=fk)
    return True, core.digest(["crystals", nf, rank, nl, seed, mode])
  L = [list(map(str, l)) for l in mc.lattices]
  msgs = _check_lattices(L, names, nl, rank, "crystals ensemble")
  mc2 = _ens_config(tfl, names, monos, "crystals", nl, rank, seed)
  pl.set_crystals_lattice_ensemble(mc2, pc, pm)
  if [list(map(str, l)) for l in mc2.lattices] != L:
    msgs.append("same seed and prefitting weights give a different crystals ensemble")
  ctx.check("crystals/structure", not msgs, "; ".join(msgs), info=dict(info, lattices=L))
  return True, core.digest(["crystals", nf, rank, nl, seed, mode, core.arr_digest(*kernels)])


def run_case(ctx, case):
  st = _ensure()
  rng = np.random.RandomState(case["seed"])
  return {"rtl": _run_rtl, "random": _run_random, "crystals": _run_crystals, "xproc": _run_xproc}[case["kind"]](ctx, rng, st)
