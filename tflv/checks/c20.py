"""C20 - Linear layer computes the clipped affine function its weights describe.

Monitor: Linear.__call__ (layer boundary).  Oracle: NumPy float64
bias_u + sum_i kernel[i,u] * clip(x_i, min_i, max_i); consequence monitors on
weights produced by the layer's own constraint: monotone pairs, dominance per
unit step / across ranges, weighted average for normalization_order=1.
"""
import numpy as np

from tflv import core
from tflv import modes
from tflv.gen import graphs

PROPERTY = "C20"
RULE = ("case = (input dims, units, subset of bounded inputs (one- or two-sided), bias on/off, kernel, bias, batch of inputs "
        "inside / on / outside the bounds) plus constrained-weight cases (monotonicity, dominance, normalization); "
        "non-trivial = kernel not identically zero; distinct by digest of (config, weights, inputs)")
MIN_EVENTS = {
    "quick": {"Linear.call/oracle-equal": 1500, "consequence/monotone-pairs": 60, "consequence/dominance": 25,
              "consequence/weighted-average": 15},
    "thorough": {"Linear.call/oracle-equal": 100000, "consequence/monotone-pairs": 5000, "consequence/dominance": 2000,
                 "consequence/weighted-average": 1200},
}
ASSUMPTIONS = ["outputs compared with tol = 1e-5*max(1, sum_i |kernel_i|*|clipped x_i| + |bias|)",
               "inputs finite float32 with |x| <= 1e4 (and a few at 1e30 only on clipped dimensions)"]

_state = {}


def setup(ctx):
  from tflv import tfenv
  tf, tfl = tfenv.setup()
  _state.update(tf=tf, tfl=tfl)


def _ensure():
  if "tf" not in _state:
    setup(None)
  return _state["tf"], _state["tfl"]


def gen_cases(ctx):
  rng = ctx.rng
  for i in range(ctx.n):
    n = int(rng.randint(1, 7))
    units = int(rng.choice([1, 1, 2, 3]))
    bm = str(rng.choice(["none", "some", "all", "min_only", "max_only"]))
    imin, imax = [None] * n, [None] * n
    for d in range(n):
      lo = float(rng.choice([-1.0, 0.0, -100.0, 2.5]))
      hi = lo + float(rng.choice([0.0, 0.5, 1.0, 10.0]))
      if bm == "all" or (bm == "some" and rng.rand() < .5):
        imin[d], imax[d] = lo, hi
      elif bm == "min_only" and rng.rand() < .7:
        imin[d] = lo
      elif bm == "max_only" and rng.rand() < .7:
        imax[d] = hi
    yield {"kind": "plain" if i % 3 else "constrained", "n": n, "units": units, "imin": imin, "imax": imax,
           "bounds_mode": bm, "use_bias": bool(rng.rand() < .6), "none_lists": bool(rng.rand() < .3),
           "seed": int(rng.randint(2**31 - 1)), "exec": modes.pick(rng, (0.5, 0.2, 0.3)),
           "dtype": "float64" if rng.rand() < .15 else "float32"}


def _ref(K, b, x, imin, imax, units):
  lo = np.array([v if v is not None else -np.inf for v in imin])
  hi = np.array([v if v is not None else np.inf for v in imax])
  lo32 = lo.astype(np.float32).astype(np.float64)
  hi32 = hi.astype(np.float32).astype(np.float64)
  xc = np.minimum(np.maximum(x.astype(np.float64), lo32), hi32)
  if units == 1:
    ref = xc @ K.astype(np.float64)
    mag = np.abs(xc) @ np.abs(K.astype(np.float64))
  else:
    ref = np.einsum("bun,nu->bu", xc, K.astype(np.float64))
    mag = np.einsum("bun,nu->bu", np.abs(xc), np.abs(K.astype(np.float64)))
  if b is not None:
    ref = ref + np.asarray(b, dtype=np.float64)
    mag = mag + np.abs(np.asarray(b, dtype=np.float64))
  return ref, mag


def run_case(ctx, case):
  tf, tfl = _ensure()
  rng = np.random.RandomState(case["seed"])
  n, units = case["n"], case["units"]
  imin, imax = case["imin"], case["imax"]
  kw = {}
  mono = None
  constrained = case["kind"] == "constrained"
  if constrained:
    mode = str(rng.choice(["mixed", "all_inc_norm1", "dominance", "dominance_norm1"]))
    if mode == "mixed":
      mono = [int(rng.choice([-1, 0, 1])) for _ in range(n)]
      kw = dict(monotonicities=mono)
    elif mode == "all_inc_norm1":
      mono = [1] * n
      kw = dict(monotonicities=mono, normalization_order=1)
      case = dict(case, use_bias=False)
    else:
      mono = [1] * n
      kw = dict(monotonicities=mono)
      if mode == "dominance_norm1":
        # dominance together with the weighted-average normalisation (no bias): both must hold after one projection
        kw["normalization_order"] = 1
        case = dict(case, use_bias=False)
      if n >= 2:
        pairs, _ = graphs.dag_pairs(rng, list(range(n)))
        if rng.rand() < .5:
          kw["monotonic_dominances"] = [(b, a) for (a, b) in pairs]
        else:
          imin = [(-1.0 if v is None else v) for v in imin]
          imax = [(imin[d] + float(rng.choice([0.5, 1.0, 10.0])) if (imax[d] is None or imax[d] <= imin[d]) else imax[d]) for d in range(n)]
          kw["range_dominances"] = [(b, a) for (a, b) in pairs]
    ctx.cls("constrained:" + mode)
  all_none_min = all(v is None for v in imin)
  all_none_max = all(v is None for v in imax)
  layer = tfl.layers.Linear(
      num_input_dims=n, units=units, use_bias=case["use_bias"],
      input_min=(None if (all_none_min and not case["none_lists"]) else imin),
      input_max=(None if (all_none_max and not case["none_lists"]) else imax),
      **dict(kw, **({} if case.get("dtype", "float32") == "float32" else {"dtype": case["dtype"]})))
  ctx.cls("dtype:" + case.get("dtype", "float32"))
  B = 12
  shape = (B, n) if units == 1 else (B, units, n)
  x = rng.normal(size=shape) * 3
  # put points on and outside the bounds
  flat = x.reshape(-1, n)
  for d in range(n):
    if imin[d] is not None:
      flat[0, d] = imin[d]
      flat[1, d] = imin[d] - float(rng.choice([1e-3, 5.0, 1e4]))
    if imax[d] is not None:
      flat[2, d] = imax[d]
      flat[3, d] = imax[d] + float(rng.choice([1e-3, 5.0, 1e4]))
    if imin[d] is not None and imax[d] is not None:
      flat[4, d] = float(rng.choice([-1e30, 1e30]))
  x = flat.reshape(shape).astype(np.float32).astype(case.get("dtype", "float32"))
  layer(tf.constant(x))
  K = (rng.normal(size=(n, units)) * np.array([1., 10., .1])[:units]).astype(np.float32)
  if rng.rand() < .15:
    K[int(rng.randint(n)), :] = 0.0
  if constrained and layer.kernel.constraint is not None:
    K = layer.kernel.constraint(tf.constant(K)).numpy()
  layer.kernel.assign(K)
  b = None
  if case["use_bias"]:
    b = rng.normal(size=layer.bias.shape).astype(np.float32) * 5
    layer.bias.assign(b)
  ex = case.get("exec", "eager")
  ctx.cls("exec:" + ex)
  y = modes.call(tf, ex, layer, tf.constant(x)).numpy().astype(np.float64)
  ref, mag = _ref(K, b, x, imin, imax, units)
  ref = ref.reshape(y.shape)
  mag = mag.reshape(y.shape)
  ctx.cls("units:%d" % units, "bounds:" + case["bounds_mode"], "bias:%s" % case["use_bias"], "n:%d" % n)
  for bi in range(B):
    tol = core.REL_TOL * max(1.0, float(np.max(mag[bi])))
    e = float(np.max(np.abs(y[bi] - ref[bi])))
    ctx.check("Linear.call/oracle-equal", e <= tol,
              "output %s, oracle %s (err %.3g, tol %.3g)" % (y[bi].tolist(), ref[bi].tolist(), e, tol),
              info={"x": x[bi].tolist(), "imin": imin, "imax": imax, "kernel": K.tolist(), "bias": None if b is None else np.asarray(b).tolist()},
              ratio=e / tol)
  if constrained:
    scale = core.scale_of(K) * 10
    tolc = core.REL_TOL * max(1.0, float(mag.max()))
    # monotone pairs in every constrained input
    for _ in range(6):
      d = int(rng.randint(n))
      if not mono[d]:
        continue
      p = rng.normal(size=(1,) + shape[1:]) * 3
      q = p.copy()
      a_, b_ = np.sort(rng.normal(size=2) * 4)
      p[..., d], q[..., d] = a_, b_
      yy = layer(tf.constant(np.concatenate([p, q]).astype(np.float32).astype(x.dtype))).numpy()
      dy = mono[d] * (yy[1] - yy[0])
      ctx.check("consequence/monotone-pairs", bool(np.all(dy >= -tolc)),
                "constrained weights but output not monotone in input %d (direction %d): %s" % (d, mono[d], dy.tolist()),
                info={"dim": d})
    for key in ("monotonic_dominances", "range_dominances"):
      for (dom, weak) in kw.get(key, []):
        base = rng.normal(size=(1,) + shape[1:])
        if key == "monotonic_dominances":
          step = 1.0
          base[..., dom] = imin[dom] if imin[dom] is not None else 0.0
          base[..., weak] = imin[weak] if imin[weak] is not None else 0.0
          # unit steps inside the clipping range only
          sd = step if imax[dom] is None else min(step, imax[dom] - base[..., dom].max())
          sw = step if imax[weak] is None else min(step, imax[weak] - base[..., weak].max())
          if sd < step or sw < step:
            continue
          pd, pw = base.copy(), base.copy()
          pd[..., dom] += step
          pw[..., weak] += step
        else:
          base[..., dom], base[..., weak] = imin[dom], imin[weak]
          pd, pw = base.copy(), base.copy()
          pd[..., dom] = imax[dom]
          pw[..., weak] = imax[weak]
        yy = layer(tf.constant(np.concatenate([base, pd, pw]).astype(np.float32).astype(x.dtype))).numpy()
        gain_d, gain_w = yy[1] - yy[0], yy[2] - yy[0]
        ctx.check("consequence/dominance", bool(np.all(gain_d - gain_w >= -tolc)),
                  "%s (%d over %d): dominant gain %s < weak gain %s" % (key, dom, weak, gain_d.tolist(), gain_w.tolist()),
                  info={"pair": [dom, weak], "kind": key})
    if kw.get("normalization_order") == 1 and float(np.abs(K).max()) > 1e-6:
      xs = (rng.normal(size=shape).astype(np.float32) * 3).astype(x.dtype)
      ys = modes.call(tf, ex, layer, tf.constant(xs)).numpy().astype(np.float64)
      lo = np.array([v if v is not None else -np.inf for v in imin])
      hi = np.array([v if v is not None else np.inf for v in imax])
      xc = np.minimum(np.maximum(xs.astype(np.float64), lo.astype(np.float32)), hi.astype(np.float32))
      mn, mx = xc.min(axis=-1).reshape(B, -1), xc.max(axis=-1).reshape(B, -1)
      ys = ys.reshape(B, -1)
      live = np.abs(K).max(axis=0) > 1e-6          # a numerically zero column cannot be normalised
      ok = bool(np.all((ys >= mn - 1e-4 * (1 + np.abs(mn)))[:, live]) and np.all((ys <= mx + 1e-4 * (1 + np.abs(mx)))[:, live]))
      ctx.check("consequence/weighted-average", ok,
                "normalization_order=1 on an all-increasing layer: output is not a weighted average of the (clipped) inputs")
  return float(np.abs(K).max()) > 0, core.digest([case, core.arr_digest(K, x)])
