"""C19 - Gradients delivered to training equal the true derivatives.

Monitors: tf.GradientTape gradients through kfl_lib.custom_reduce_prod (vs
tf.reduce_prod), through KroneckerFactoredLattice.__call__ w.r.t. kernel,
scale and inputs (vs the mathematically identical TF expression written with
tf.reduce_prod), and d out / d kernel of Lattice (both interpolations),
PWLCalibration and CategoricalCalibration (vs the oracle's interpolation
weights; non-negative, summing to one for Lattice, independent of the kernel).
"""
import numpy as np

from tflv import core
from tflv import modes
from tflv.gen import lattice as gen
from tflv.oracles import lattice as ol

PROPERTY = "C19"
RULE = ("case = custom_reduce_prod tensor (rank<=4, any axis, 0/1/2+ exact zeros along the axis, random upstream gradient) | "
        "KFL layer (sizes, dims, units, terms, zeroed per-dimension vectors) | Lattice / PWL / Categorical kernel-gradient case; "
        "non-trivial = reference gradient not identically zero (or a >=2-zeros case where it must be zero); distinct by digest of inputs")
MIN_EVENTS = {
    "quick": {"custom_reduce_prod/grad-equal": 70, "KFL/grad-equal": 140, "Lattice/dkernel=weights": 250,
              "PWLCalibration/dkernel=weights": 200, "CategoricalCalibration/dkernel=onehot": 300},
    "thorough": {"custom_reduce_prod/grad-equal": 4000, "KFL/grad-equal": 6000, "Lattice/dkernel=weights": 12000,
                 "PWLCalibration/dkernel=weights": 6000, "CategoricalCalibration/dkernel=onehot": 3000},
}
ASSUMPTIONS = ["gradients compared with tol = 1e-5*max(1,|reference gradient|) (custom product: values in [-3,3], so no under/overflow)",
               "input-gradients of KFL are compared only at non-integer coordinates (the function is not differentiable at vertices)"]
_state = {}


def setup(ctx):
  from tflv import tfenv
  tf, tfl = tfenv.setup()
  from tensorflow_lattice.python import kronecker_factored_lattice_lib as kfl_lib
  _state.update(tf=tf, tfl=tfl, kfl=kfl_lib)


def _ensure():
  if "tf" not in _state:
    setup(None)
  return _state


def gen_cases(ctx):
  rng = ctx.rng
  for i in range(ctx.n):
    kind = ["prod", "prod", "kfl", "lattice", "pwl", "categorical"][i % 6]
    yield {"kind": kind, "seed": int(rng.randint(2**31 - 1)), "zeros": ["none", "one", "two", "many", "mixed", "tiny", "tiny_and_zero"][int(rng.randint(7))],
           "exec": modes.pick(rng, (0.6, 0.4, 0.0), allow=("eager", "graph")),
           "dtype": "float64" if (kind in ("prod", "kfl") and rng.rand() < .2) else "float32"}


def _cmp(ctx, site, got, want, what, extra=None, rel=None):
  got = np.asarray(got, dtype=np.float64)
  want = np.asarray(want, dtype=np.float64)
  tol = (rel if rel is not None else core.REL_TOL) * max(1.0, float(np.abs(want).max()) if want.size else 1.0)
  ok = got.shape == want.shape and bool(np.all(np.isfinite(got)))
  e = float(np.abs(got - want).max()) if ok and got.size else (0.0 if ok else float("inf"))
  ctx.check(site, ok and e <= tol, "%s: gradient differs from the true derivative by %.3g (tol %.3g)" % (what, e, tol),
            info=dict(extra or {}, err=e), ratio=e / tol)


def _run_prod(ctx, case, st):
  tf, kfl = st["tf"], st["kfl"]
  rng = np.random.RandomState(case["seed"])
  rank = int(rng.randint(1, 5))
  shape = [int(rng.randint(1, 5)) for _ in range(rank)]
  axis = int(rng.randint(-rank, rank))
  t = rng.uniform(-3, 3, size=shape)
  ax = axis % rank
  moved = np.moveaxis(t, ax, -1)          # view
  flat = moved.reshape(-1, shape[ax])
  z = case["zeros"]
  for r in range(flat.shape[0]):
    if z == "one" or (z == "mixed" and r % 3 == 0):
      flat[r, rng.randint(shape[ax])] = 0.0
    elif z == "two" or (z == "mixed" and r % 3 == 1):
      for c in rng.choice(shape[ax], size=min(2, shape[ax]), replace=False):
        flat[r, c] = 0.0
    elif z == "many":
      flat[r, rng.rand(shape[ax]) < .7] = 0.0
    elif z == "tiny":          # tiny but non-zero factors are not zeros
      flat[r, rng.randint(shape[ax])] = float(rng.choice([1e-8, -5e-8, 1e-20, 3e-7]))
    elif z == "tiny_and_zero":
      cols_ = rng.choice(shape[ax], size=min(2, shape[ax]), replace=False)
      flat[r, cols_[0]] = float(rng.choice([1e-8, -1e-12]))
      if len(cols_) > 1:
        flat[r, cols_[1]] = 0.0
  dt = case.get("dtype", "float32")
  ctx.cls("dtype:" + dt)
  t = np.moveaxis(flat.reshape(moved.shape), -1, ax).astype(dt)
  T = tf.constant(t)
  up = rng.normal(size=np.delete(np.array(shape), ax)).astype(dt)
  ex = case.get("exec", "eager")
  ctx.cls("exec:" + ex)

  def grads(T):
    with tf.GradientTape(persistent=True) as tape:
      tape.watch(T)
      y1 = tf.reduce_sum(kfl.custom_reduce_prod(T, axis=axis) * up)
      y0 = tf.reduce_sum(tf.reduce_prod(T, axis=axis) * up)
    return tape.gradient(y1, T), tape.gradient(y0, T)
  g1, g0 = modes.call(tf, ex, grads, T)
  fwd = float(np.abs(kfl.custom_reduce_prod(T, axis=axis).numpy() - tf.reduce_prod(T, axis=axis).numpy()).max()) if t.size else 0.0
  ctx.check("custom_reduce_prod/forward-equal", fwd == 0.0, "forward value differs from tf.reduce_prod by %.3g" % fwd)
  # float64 truth: product of the others
  truth = np.zeros_like(t, dtype=np.float64)
  m64 = np.moveaxis(t.astype(np.float64), ax, -1)
  tr = np.moveaxis(truth, ax, -1)
  for k in range(shape[ax]):
    others = np.delete(m64, k, axis=-1)
    tr[..., k] = np.prod(others, axis=-1) * up.astype(np.float64)
  ctx.cls("prod:zeros=" + z, "prod:rank=%d" % rank)
  _cmp(ctx, "custom_reduce_prod/grad-equal", g1.numpy(), truth, "custom_reduce_prod(axis=%d, zeros=%s)" % (axis, z),
       {"t": t.tolist(), "axis": axis})
  _cmp(ctx, "custom_reduce_prod/grad-equal-autodiff", g1.numpy(), g0.numpy(), "custom_reduce_prod vs autodiff of tf.reduce_prod")
  return (float(np.abs(truth).max()) > 0 or z in ("two", "many")), core.digest([core.arr_digest(t, up), axis])


def _kfl_reference(tf, x, kernel, scale, bias, units, dims, L, T, clip):
  """Same expression with tf.reduce_prod and plain tensor algebra."""
  if clip:
    x = tf.clip_by_value(x, 0.0, L - 1.0)
  k = tf.cast(tf.constant(np.arange(L, dtype=np.float32)), x.dtype)
  hw = 1.0 - tf.minimum(tf.abs(x[..., None] - k), 1.0)                  # (B, units, dims, L)
  Kr = tf.reshape(kernel[0], [L, units, dims, T])
  dot = tf.einsum("budl,ludt->budt", hw, Kr)
  prod = tf.reduce_prod(dot, axis=2)
  return tf.reduce_mean(scale[None] * prod, axis=-1) + tf.reshape(bias, [1, units])


def _run_kfl(ctx, case, st):
  tf, tfl = st["tf"], st["tfl"]
  rng = np.random.RandomState(case["seed"])
  L, dims = int(rng.choice([2, 3, 4])), int(rng.randint(1, 5))
  units, T = int(rng.choice([1, 2])), int(rng.choice([1, 2, 3]))
  clip = bool(rng.rand() < .7)
  dt = case.get("dtype", "float32")
  ctx.cls("dtype:" + dt)
  layer = tfl.layers.KroneckerFactoredLattice(lattice_sizes=L, units=units, num_terms=T, clip_inputs=clip,
                                              **({} if dt == "float32" else {"dtype": dt}))
  B = 5
  x = rng.uniform(0.05, L - 1.05, size=(B, units, dims))
  x = np.where(np.abs(x - np.round(x)) < 0.02, x + 0.1, x).astype(dt)   # stay off the kinks
  xin = x if units > 1 else x[:, 0, :]
  layer(tf.constant(xin))
  K = rng.normal(size=layer.kernel.shape).astype(np.float32)
  z = case["zeros"]
  nz = {"none": 0, "one": 1, "two": 2, "many": dims, "mixed": 1, "tiny": 1, "tiny_and_zero": 2}[z]
  for q, d in enumerate(rng.permutation(dims)[:min(nz, dims)]):
    u = int(rng.randint(units))
    fill = 0.0
    if z == "tiny" or (z == "tiny_and_zero" and q == 0):
      fill = float(rng.choice([1e-8, -5e-8, 1e-20]))                   # tiny, not zero
    K[0, :, u * dims + int(d), int(rng.randint(T))] = fill          # a whole per-dimension vector is zero / tiny -> exact zero / tiny factor
  S = rng.normal(size=layer.scale.shape).astype(np.float32)
  if rng.rand() < .3:
    S[int(rng.randint(units)), int(rng.randint(T))] = 0.0
  bias = rng.normal(size=layer.bias.shape).astype(np.float32)
  layer.kernel.assign(K)
  layer.scale.assign(S)
  layer.bias.assign(bias)
  X = tf.constant(xin)
  up = tf.constant(rng.normal(size=(B, units)).astype(dt))
  ex = case.get("exec", "eager")
  ctx.cls("exec:" + ex)
  names = ("kernel", "scale", "bias", "inputs")

  def grads(X):
    wrt = (layer.kernel, layer.scale, layer.bias, X)
    with tf.GradientTape(persistent=True) as tape:
      tape.watch(X)
      y = layer(X)
      loss = tf.reduce_sum(y * up)
      X3 = X if units > 1 else X[:, None, :]
      yr = _kfl_reference(tf, X3, layer.kernel, layer.scale, layer.bias, units, dims, L, T, clip)
      loss_r = tf.reduce_sum(yr * up)
    return y, yr, [tape.gradient(loss, v) for v in wrt], [tape.gradient(loss_r, v) for v in wrt]
  y, yr, gs, grs = modes.call(tf, ex, grads, X)
  ctx.cls("kfl:zeros=" + z, "kfl:dims=%d" % dims, "kfl:terms=%d" % T, "kfl:units=%d" % units)
  _cmp(ctx, "KFL/forward-equal", y.numpy().reshape(B, units), yr.numpy(), "KFL forward vs reduce_prod expression")
  for name, g, gr in zip(names, gs, grs):
    _cmp(ctx, "KFL/grad-equal", g.numpy(), gr.numpy(), "d loss / d %s (zeros=%s)" % (name, z), {"wrt": name})
  return True, core.digest([case, core.arr_digest(K, S, x)])


def _jac_kernel(tf, layer, xin, units):
  """d out[b,u] / d kernel -> (B, units, rows, units)."""
  X = [tf.constant(a) for a in xin] if isinstance(xin, list) else tf.constant(xin)
  with tf.GradientTape() as tape:
    y = layer(X)
    if isinstance(y, list):
      y = tf.concat(y, axis=1)
  J = tape.jacobian(y, layer.kernel)
  return np.asarray(J), np.asarray(y)


def _run_lattice(ctx, case, st):
  tf, tfl = st["tf"], st["tfl"]
  rng = np.random.RandomState(case["seed"])
  sizes, cls = gen.lattice_sizes(rng, 64, max_rank=4)
  units = int(rng.choice([1, 2]))
  interp = str(rng.choice(["hypercube", "simplex"]))
  rank, n = len(sizes), int(np.prod(sizes))
  layer = tfl.layers.Lattice(lattice_sizes=sizes, units=units, interpolation=interp)
  B = 6
  x = rng.uniform(-0.5, np.array(sizes) - 0.5, size=(B, units, rank)).astype(np.float32)
  x[0] = np.floor(np.clip(x[0], 0, np.array(sizes) - 1))            # a vertex
  xin = x if units > 1 else x[:, 0, :]
  as_list = bool(rng.rand() < .4)
  if as_list:
    xin = [xin[..., d:d + 1] for d in range(rank)]
  layer([tf.constant(a) for a in xin] if as_list else tf.constant(xin))
  jacs = []
  for rep in range(2):
    layer.kernel.assign(rng.normal(size=(n, units)).astype(np.float32) * (1 + 9 * rep))
    J, _ = _jac_kernel(tf, layer, xin, units)
    jacs.append(J.reshape(B, units, n, units))
  wfn = ol.hypercube_weights if interp == "hypercube" else ol.simplex_weights
  ctx.cls("lattice:" + interp, "lattice:units=%d" % units, "lattice:list_input=%s" % as_list)
  for b in range(B):
    for u in range(units):
      want = np.zeros((n, units))
      want[:, u] = wfn(sizes, x[b, u].astype(np.float64), True)
      g = jacs[0][b, u]
      _cmp(ctx, "Lattice/dkernel=weights", g, want, "Lattice(%s) d out[%d,%d]/d kernel" % (interp, b, u), {"x": x[b, u].tolist()})
      ctx.check("Lattice/weights-nonneg-sum1", bool(g.min() >= -1e-6) and abs(float(g.sum()) - 1.0) <= 1e-5,
                "kernel gradient is not a convex combination: min %.3g sum %.9g" % (g.min(), g.sum()))
      d = float(np.abs(jacs[0][b, u] - jacs[1][b, u]).max())
      ctx.check("Lattice/dkernel-independent-of-kernel", d <= 1e-6, "kernel gradient changes with the kernel value by %.3g" % d)
  return True, core.digest([case, sizes, units, interp])


def _run_pwl(ctx, case, st):
  tf, tfl = st["tf"], st["tfl"]
  rng = np.random.RandomState(case["seed"])
  nk = int(rng.choice([2, 3, 5]))
  kp = np.concatenate([[0.0], np.cumsum(rng.choice([.5, 1., 4.], size=nk - 1))]) - 1.0
  units = int(rng.choice([1, 2]))
  cyc = bool(rng.rand() < .3 and nk > 2)
  # float64 layers with keypoints float32 cannot represent, and learned keypoints whose logits collapse a segment to
  # length exactly 0 (softmax underflow: gap > 104 in float32) - the weight of a collapsed piece is 0 left of it, 1 right
  dt = "float64" if rng.rand() < .25 else "float32"
  learned = bool(not cyc and nk > 2 and rng.rand() < .35)
  if dt == "float64":
    kp = kp + 0.1
  layer = tfl.layers.PWLCalibration(input_keypoints=kp.tolist(), units=units, is_cyclic=cyc,
                                    input_keypoints_type="learned_interior" if learned else "fixed",
                                    **({} if dt == "float32" else {"dtype": dt}))
  B = 6
  x = rng.uniform(kp[0] - 1, kp[-1] + 1, size=(B, 1)).astype(np.float32).astype(dt)
  layer(tf.constant(x))
  rows = nk - (1 if cyc else 0)
  if learned:
    lg = rng.normal(size=(units, nk - 1)) * 1.5
    if rng.rand() < .6:
      lg[:, int(rng.randint(nk - 1))] -= 300.0          # this piece's share underflows to exactly 0
    layer.interpolation_logits.assign(lg.astype(dt))
  jacs = []
  for rep in range(2):
    layer.kernel.assign((rng.normal(size=(rows, units)) * (1 + 9 * rep)).astype(dt))
    J, _ = _jac_kernel(tf, layer, x, units)
    jacs.append(J.reshape(B, units, rows, units))
  kpq = kp.astype(np.float32).astype(np.float64) if dt == "float32" else kp.astype(np.float64)
  ctx.cls("pwl:cyclic=%s" % cyc, "pwl:units=%d" % units, "pwl:dtype=" + dt, "pwl:learned=%s" % learned)
  for b in range(B):
    for u in range(units):
      if learned:
        w_ = np.exp(lg[u].astype(np.float32 if dt == "float32" else np.float64).astype(np.float64) - lg[u].max())
        w_[w_ < (1e-45 if dt == "float32" else 0.0)] = 0.0
        lens = (kpq[-1] - kpq[0]) * w_ / w_.sum()
        left = kpq[0] + np.concatenate([[0.0], np.cumsum(lens)[:-1]])
      else:
        lens = np.diff(kpq)
        left = kpq[:-1]
      xv = float(x[b, 0])
      wts = np.where(lens > 0, np.clip((xv - left) / np.where(lens > 0, lens, 1.0), 0, 1), (xv > left).astype(float))   # weight of every height
      if learned and np.any((np.abs(xv - left) < 1e-4) | (np.abs(xv - left - lens) < 1e-4)):
        continue        # on a (float32-rounded) learned keypoint the one-sided derivative is a matter of rounding
      full = np.concatenate([[1.0], wts])
      if cyc:
        full = np.concatenate([full[:-1][:1], full[1:-1] - full[-1]])
      want = np.zeros((rows, units))
      want[:, u] = full
      _cmp(ctx, "PWLCalibration/dkernel=weights", jacs[0][b, u], want, "PWL d out[%d,%d]/d kernel" % (b, u), {"x": float(x[b, 0]), "dtype": dt},
           rel=(1e-10 if (dt == "float64" and not learned) else None))     # a float64 layer is judged at float64 resolution
      d = float(np.abs(jacs[0][b, u] - jacs[1][b, u]).max())
      ctx.check("PWLCalibration/dkernel-independent-of-kernel", d <= 1e-6, "kernel gradient changes with the kernel value by %.3g" % d)
  return True, core.digest([case, kp.tolist(), units, cyc, dt, learned])


def _run_cat(ctx, case, st):
  tf, tfl = st["tf"], st["tfl"]
  rng = np.random.RandomState(case["seed"])
  nb, units = int(rng.randint(1, 7)), int(rng.choice([1, 2, 3]))
  # default_input_value (None, -1, or a category index: "inputs equal to this value are mapped to the last bucket") and the
  # input dtypes the layer accepts (integer types as they are, anything else is cast to int32)
  dv = [None, -1, -1, int(rng.randint(0, nb))][int(rng.randint(4))]
  xdt = [np.int32, np.int32, np.int64, np.float32, np.uint8][int(rng.randint(5))]
  if xdt == np.uint8 and dv == -1:
    xdt = np.int32
  layer = tfl.layers.CategoricalCalibration(num_buckets=nb, units=units, default_input_value=dv)
  B = 6
  xi = rng.randint(0, nb, size=(B, units))
  if dv is not None:
    xi[rng.rand(B, units) < .35] = dv
  x = xi.astype(xdt)
  ctx.cls("categorical:default=%s" % ("none" if dv is None else ("-1" if dv == -1 else "in-range")), "categorical:input=" + np.dtype(xdt).name)
  layer(tf.constant(x))
  layer.kernel.assign(rng.normal(size=(nb, units)).astype(np.float32))
  J, _ = _jac_kernel(tf, layer, x, units)
  J = J.reshape(B, units, nb, units)
  for b in range(B):
    for u in range(units):
      cat = (nb - 1) if (dv is not None and xi[b, u] == dv) else int(xi[b, u])
      want = np.zeros((nb, units))
      want[cat, u] = 1.0
      ctx.check("CategoricalCalibration/dkernel=onehot", bool(np.array_equal(J[b, u], want)),
                "d out[%d,%d]/d kernel is not the one-hot of category %d (input %s, default_input_value %s, input dtype %s)" % (
                    b, u, cat, xi[b, u], dv, np.dtype(xdt).name))
  return True, core.digest([case, nb, units])


def run_case(ctx, case):
  st = _ensure()
  return {"prod": _run_prod, "kfl": _run_kfl, "lattice": _run_lattice, "pwl": _run_pwl, "categorical": _run_cat}[case["kind"]](ctx, case, st)
