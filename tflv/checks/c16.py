"""C16 - Configurations are either rejected up front (ValueError at construction
/ build / first call) or handled totally and finitely; synonymous spellings
configure identical behaviour.

Monitor: the life cycle of one configured object:
  construct -> build / first call -> assign finite random weights -> apply every
  variable's constraint -> finalize_constraints() -> evaluate on finite inputs.
Oracle: outcome in {ValueError before acceptance, accepted}; after acceptance no
exception of any kind and finite weights / outputs.  Synonym pairs are built
side by side and compared bitwise.
"""
import numpy as np

from tflv import core
from tflv import findings

PROPERTY = "C16"
RULE = ("case = one configuration drawn from the cross product of small per-argument domains (documented values, their synonyms and one-step-outside "
        "values) of a layer / constraint / premade config, or a synonym pair; non-trivial = every case (accepted or rejected); "
        "distinct by digest of the configuration; arguments are well-typed and of the documented length (ill-typed values are outside the statement)")
MIN_EVENTS = {
    "quick": {"lifecycle/rejected-with-ValueError-or-accepted": 350, "lifecycle/accepted-runs-finitely": 160, "synonyms/identical": 100},
    "thorough": {"lifecycle/rejected-with-ValueError-or-accepted": 30000, "lifecycle/accepted-runs-finitely": 10000, "synonyms/identical": 2500},
}
ASSUMPTIONS = [
    "arguments are well-typed and of the documented length; weights and inputs finite with |w| <= 30",
    "a ValueError raised at construction, build or first call counts as 'rejected up front'; any other exception type there, and any exception after acceptance, is a violation",
]
_state = {}
KINDS = ["lattice", "pwl", "linear", "categorical", "kfl", "cdf", "rtl", "premade", "lattice_constraints", "synonyms", "single_fault"]


def setup(ctx):
  from tflv import tfenv
  tf, tfl = tfenv.setup()
  import tf_keras as keras
  _state.update(tf=tf, tfl=tfl, keras=keras)


def _ensure():
  if "tf" not in _state:
    setup(None)
  return _state


def gen_cases(ctx):
  rng = ctx.rng
  for i in range(ctx.n):
    yield {"kind": KINDS[(i + ctx.shard) % len(KINDS)], "seed": int(rng.randint(2**31 - 1))}


def pick(rng, options, nv=None):
  """nv = number of leading options that are valid on their own: they are drawn
  with probability 0.88, the one-step-outside values with 0.12 (so that a good
  share of the configurations is accepted and exercises the totality half)."""
  if nv is None or nv >= len(options):
    return options[int(rng.randint(len(options)))]
  if rng.rand() < 0.88:
    return options[int(rng.randint(nv))]
  return options[nv + int(rng.randint(len(options) - nv))]


# ------------------------------------------------------------------------------
def _cfg_lattice_coherent(rng):
  """A configuration that is valid by construction (from the C01 generator),
  written with randomly chosen synonymous spellings."""
  from tflv.gen import lattice as genl
  c, _ = genl.lattice_config(rng, max_vertices=40, units_choices=(1, 1, 2))
  kw = genl.constraint_kwargs(c)
  if rng.rand() < .3:
    kw["monotonicities"] = ["increasing" if m else "none" for m in kw["monotonicities"]]
  if rng.rand() < .2:
    kw["lattice_sizes"] = tuple(kw["lattice_sizes"])
    kw["monotonicities"] = tuple(kw["monotonicities"])
  if kw["unimodalities"] and rng.rand() < .4:
    kw["unimodalities"] = [{1: "valley", -1: "peak", 0: "none"}[u] for u in kw["unimodalities"]]
  for k in ("edgeworth_trusts", "trapezoid_trusts"):
    if kw[k] and rng.rand() < .4:
      kw[k] = [(a, b, "positive" if d > 0 else "negative") for a, b, d in kw[k]]
    if kw[k] and len(kw[k]) == 1 and rng.rand() < .3:
      kw[k] = kw[k][0]
  for k in ("monotonic_dominances", "range_dominances", "joint_monotonicities"):
    if kw[k] and len(kw[k]) == 1 and rng.rand() < .3:
      kw[k] = kw[k][0]
  if kw["joint_unimodalities"] and len(kw["joint_unimodalities"]) == 1 and rng.rand() < .3:
    kw["joint_unimodalities"] = kw["joint_unimodalities"][0]
  kw.update(units=c["units"], num_projection_iterations=pick(rng, [0, 1, 3]), monotonic_at_every_step=pick(rng, [True, False]),
            clip_inputs=pick(rng, [True, False]), interpolation=pick(rng, ["hypercube", "simplex"]),
            kernel_initializer=pick(rng, ["linear_initializer", "random_monotonic_initializer", "random_uniform_or_linear_initializer"]))
  return kw


def _invalidate_lattice(cfg, rng):
  """Single-fault injection: a configuration that is valid by construction with exactly one documented rule broken."""
  cfg = dict(cfg)
  sizes = list(cfg["lattice_sizes"])
  rank = len(sizes)
  mono = [1 if m in (1, "increasing") else 0 for m in cfg["monotonicities"]]
  t = lambda *a: a
  faults = ["size1", "mono_value", "min_gt_max", "interpolation", "trust_direction", "dominance_free_dim", "trust_free_main", "self_trust",
            "mono_and_unimodal", "unimodal_small_dim", "ju_direction", "dim_out_of_range", "regularizer_name", "ju_duplicate_dims",
            "equal_bounds", "equal_bounds"]
  f = faults[int(rng.randint(len(faults)))]
  free = [d for d in range(rank) if not mono[d]]
  monos = [d for d in range(rank) if mono[d]]
  if f == "equal_bounds":
    # not claimed invalid by the reference oracle: rejected or handled finitely, either is fine - but not accepted and then NaN
    cfg["output_min"] = cfg["output_max"] = float(rng.choice([0.0, 0.5, -1.0]))
    if not cfg.get("edgeworth_trusts") and not cfg.get("trapezoid_trusts") and rank >= 2 and monos and rng.rand() < .7:
      # trusts switch the bound handling of finalize_constraints to a rescaling projection: a second path through equal bounds
      c = [d for d in range(rank) if d != monos[0]][0]
      cfg[pick(rng, ["edgeworth_trusts", "trapezoid_trusts"])] = [t(monos[0], c, pick(rng, [1, -1]))]
  elif f == "regularizer_name":
    cfg["kernel_regularizer"] = t("bogus", 0.1, 0.1)          # documented names: 'torsion', 'laplacian'
  elif f == "ju_duplicate_dims" and [d for d in free if sizes[d] >= 3]:
    d0 = [d for d in free if sizes[d] >= 3][0]
    cfg["unimodalities"] = None
    cfg["joint_unimodalities"] = [t(t(d0, d0), "peak")]        # "all dimensions within a single joint unimodality must be distinct"
  elif f == "size1":
    sizes[int(rng.randint(rank))] = 1
    cfg["lattice_sizes"] = sizes
  elif f == "mono_value":
    m = list(cfg["monotonicities"]); m[int(rng.randint(rank))] = [2, -1, "decreasing"][int(rng.randint(3))]
    cfg["monotonicities"] = m
  elif f == "min_gt_max":
    cfg["output_min"], cfg["output_max"] = 1.0, 0.0
  elif f == "interpolation":
    cfg["interpolation"] = "bogus"
  elif f == "trust_direction" and rank >= 2 and monos:
    c = [d for d in range(rank) if d != monos[0]][0]
    cfg["edgeworth_trusts"] = [t(monos[0], c, 2)]
    cfg["trapezoid_trusts"] = None
  elif f == "dominance_free_dim" and rank >= 2 and free:
    other = [d for d in range(rank) if d != free[0]][0]
    cfg["monotonic_dominances"] = [t(free[0], other)]
  elif f == "trust_free_main" and rank >= 2 and free:
    c = [d for d in range(rank) if d != free[0]][0]
    cfg["edgeworth_trusts"] = None
    cfg["trapezoid_trusts"] = [t(free[0], c, 1)]
  elif f == "self_trust" and monos:
    cfg["edgeworth_trusts"] = [t(monos[0], monos[0], 1)]
    cfg["trapezoid_trusts"] = None
  elif f == "mono_and_unimodal" and monos and sizes[monos[0]] >= 3:
    u = [0] * rank; u[monos[0]] = 1
    cfg["unimodalities"] = u
  elif f == "unimodal_small_dim" and free and sizes[free[0]] == 2:
    u = [0] * rank; u[free[0]] = -1
    cfg["unimodalities"] = u
  elif f == "ju_direction" and free and sizes[free[0]] >= 3:
    cfg["joint_unimodalities"] = ([free[0]], "bogus")
  elif f == "dim_out_of_range" and rank >= 2:
    cfg["joint_monotonicities"] = [t(0, rank + 2)]
  else:
    cfg["output_min"], cfg["output_max"] = 1.0, 0.0
    f = "min_gt_max"
  return cfg, f


def _cfg_lattice(rng):
  _state["coherent"] = False
  r = rng.rand()
  if r < .2:
    cfg, fault = _invalidate_lattice(_cfg_lattice_coherent(rng), rng)
    _state["fault"] = fault
    return cfg
  if r < .65:
    _state["coherent"] = True
    return _cfg_lattice_coherent(rng)
  sizes = pick(rng, [[2, 2], [2, 3], [3, 3], [3, 3, 2], [2], [3], (2, 3), [2, 2, 2], [1, 2]], 8)
  focus_trusts = rng.rand() < .35
  if focus_trusts:
    sizes = pick(rng, [[2, 2, 2], [3, 2, 2], [2, 3, 2, 2]])
  rank = len(sizes)
  mono = pick(rng, [None, [1] + [0] * (rank - 1), ["increasing"] + ["none"] * (rank - 1), [1] * rank, tuple([1] * rank), [0] * rank, "increasing",
                    [-1] + [0] * (rank - 1), [2] + [0] * (rank - 1), ["decreasing"] * rank], 7)
  uni = pick(rng, [None, None, None, [0] * (rank - 1) + [1], ["none"] * (rank - 1) + ["peak"], [0] * (rank - 1) + [-1], [1] + [0] * (rank - 1)], 6)
  t = lambda *a: a
  trust_opts = [None, None, None, t(0, 1, 1), [t(0, 1, 1)], [t(0, 1, "positive")], [t(0, 1, -1)], [t(0, 1, "negative")],
                [t(0, 0, 1)], [t(1, 0, 1)], [t(0, 1, 2)], [t(0, 1, 1), t(1, 0, 1)], [t(0, 5, 1)]]
  NT = 8
  dom_opts = [None, None, None, t(0, 1), [t(0, 1)], [t(1, 0)], [t(0, 1), t(1, 0)], [t(0, 5)]]
  ND = 6
  ju_opts = [None, None, None, ([rank - 1], "valley"), [([rank - 1], "peak")], ([0, 1], "peak"), ([0], "bogus"), ([0, 0], "peak")]
  NJ = 5
  b = pick(rng, [(None, None), (0.0, 1.0), (None, 1.0), (0.0, None), (-2.0, -1.0), (1.0, 0.0), (0.5, 0.5)], 5)
  if focus_trusts or (rank >= 3 and rng.rand() < .5):
    # random trust lists over >= 3 features (order of the list matters to a sloppy validator)
    mono = [1] * rank
    uni = None
    def rt():
      m, c = [int(v) for v in rng.choice(rank, 2, replace=False)]
      return t(m, c, int(rng.choice([-1, 1])))
    lists = [[rt() for _ in range(int(rng.randint(1, 4)))] for _ in range(2)]
    trust_opts = [lists[0], lists[1], None]
    NT = 3
  cfg = dict(lattice_sizes=sizes, units=pick(rng, [1, 1, 2]), monotonicities=mono, unimodalities=uni,
             edgeworth_trusts=pick(rng, trust_opts, NT) if rank >= 2 else None, trapezoid_trusts=pick(rng, trust_opts, NT) if rank >= 2 else None,
             monotonic_dominances=pick(rng, dom_opts, ND) if rank >= 2 else None, range_dominances=pick(rng, dom_opts, ND) if rank >= 2 else None,
             joint_monotonicities=pick(rng, [None, None, t(0, 1), [t(0, 1)], [t(0, 7)]], 4) if rank >= 2 else None,
             joint_unimodalities=pick(rng, ju_opts, NJ), output_min=b[0], output_max=b[1],
             num_projection_iterations=pick(rng, [0, 1, 3]), monotonic_at_every_step=pick(rng, [True, False]),
             clip_inputs=pick(rng, [True, False]), interpolation=pick(rng, ["hypercube", "simplex", "bogus"], 2),
             kernel_initializer=pick(rng, ["linear_initializer", "random_monotonic_initializer", "random_uniform_or_linear_initializer"]))
  return cfg


def _life_cycle(ctx, what, cfg, construct, build_and_eval, info_extra=None, must_reject=None, must_accept=False):
  """construct() -> obj ; build_and_eval(obj, phase) performs build/first call
  and, once accepted, the weight assignment / projection / evaluation."""
  tf = _state["tf"]
  info = dict(kind=what, config=core.to_jsonable(cfg))
  info.update(info_extra or {})
  _state["last_cfg"] = core.digest(info)
  site_a = "lifecycle/rejected-with-ValueError-or-accepted"
  try:
    obj = construct()
    accepted = build_and_eval(obj, "build")
  except ValueError as e:
    ctx.check(site_a, True)
    ctx.cls(what + ":rejected")
    if must_accept and must_reject is None:
      ctx.check("reference/valid-configuration-accepted", False,
                "%s: a configuration that is valid by construction was rejected: %s" % (what, str(e).strip().splitlines()[-1][:160]), info=info)
    return "rejected"
  except Exception as e:
    fk = findings.classify_c16(what, cfg, "build", e)
    ctx.check(site_a, False, "%s: %s instead of ValueError while constructing/building: %s" % (what, type(e).__name__, str(e).strip().splitlines()[-1][:160]),
              info=info, finding=fk)
    return "crashed"
  ctx.check(site_a, True)
  ctx.cls(what + ":accepted")
  if True:
    ctx.check("reference/invalid-configuration-rejected", must_reject is None,
              "%s accepted although the documentation says it must be rejected: %s" % (what, must_reject), info=info)
  try:
    problems = build_and_eval(obj, "run")
    fkp = None
    if problems and set(problems) == {"non-finite outputs"} and what == "PWLCalibration":
      # KF-C05-a reached through C16's hostile weights: logits x30 collapse a learned segment to length 0 in float32 and an
      # input equal to that keypoint coordinate evaluates 0/0 (mechanism hook: kp + length == kp exactly as the layer computed it)
      try:
        if getattr(obj, "input_keypoints_type", "fixed") == "learned_interior":
          l32 = np.asarray(obj._lengths.numpy()).astype(np.float32)
          k32 = np.asarray(obj._interpolation_keypoints.numpy()).astype(np.float32)
          if bool(np.any((k32 + l32).astype(np.float32) == k32)):
            fkp = "KF-C05-a"
      except Exception:
        fkp = None
    ctx.check("lifecycle/accepted-runs-finitely", not problems, "%s accepted, then: %s" % (what, "; ".join(problems or [])), info=info, finding=fkp)
  except Exception as e:
    fk = findings.classify_c16(what, cfg, "run", e)
    ctx.check("lifecycle/accepted-runs-finitely", False,
              "%s accepted, then %s: %s" % (what, type(e).__name__, str(e).strip().splitlines()[-1][:160]), info=info, finding=fk)
  return "accepted"


def _project_and_eval(layer, rng, inputs, extra_finalize=True):
  """Shared 'run' phase for Keras layers: random finite weights, every
  constraint, finalize_constraints(), evaluation."""
  tf = _state["tf"]
  problems = []
  # the constraints on the *fresh* weights first (a constant initial kernel sitting exactly on a bound is a corner of its own)
  for v in layer.trainable_variables:
    if v.constraint is not None:
      v.assign(v.constraint(v))
  for v in layer.variables:
    if not np.all(np.isfinite(v.numpy())):
      problems.append("non-finite weights in %s after projecting the initial weights" % v.name)
  for v in layer.trainable_variables:
    v.assign((rng.normal(size=v.shape) * float(rng.choice([0.5, 5.0, 30.0]))).astype(v.dtype.as_numpy_dtype))
  for rep in range(2):        # twice: the second projection starts from weights that already sit on the constraints
    for v in layer.trainable_variables:
      if v.constraint is not None:
        v.assign(v.constraint(v))
  if extra_finalize and hasattr(layer, "finalize_constraints"):
    layer.finalize_constraints()
  for v in layer.variables:
    if not np.all(np.isfinite(v.numpy())):
      problems.append("non-finite weights in %s after projection" % v.name)
  y = layer(inputs)
  ys = y if isinstance(y, (list, tuple)) else (list(y.values()) if isinstance(y, dict) else [y])
  for t in ys:
    if not np.all(np.isfinite(np.asarray(t))):
      problems.append("non-finite outputs")
  if hasattr(layer, "assert_constraints"):
    try:
      layer.assert_constraints(1e-3)
    except tf.errors.InvalidArgumentError:
      pass     # C12/C01 judge the quality of projections; C16 only totality
  return problems


def _run_lattice(ctx, rng, explicit=None):
  tf, tfl = _state["tf"], _state["tfl"]
  cfg = explicit or _cfg_lattice(rng)
  rank = len(cfg["lattice_sizes"])
  units = cfg["units"]
  sizes = list(cfg["lattice_sizes"])
  x = rng.uniform(-0.5, np.array(sizes) - 0.5, size=(5, rank) if units == 1 else (5, units, rank)).astype(np.float32)
  if not cfg.get("clip_inputs", True):
    x = np.clip(x, 0, np.array(sizes, dtype=np.float32) - 1)

  def bae(layer, phase):
    if phase == "build":
      layer(tf.constant(x))
      return True
    return _project_and_eval(layer, rng, tf.constant(x))
  from tflv.oracles import validity
  return _life_cycle(ctx, "Lattice", cfg, lambda: tfl.layers.Lattice(**cfg), bae, must_reject=validity.lattice_must_reject(cfg),
                     must_accept=bool(_state.get("coherent")) and explicit is None)


def _run_lattice_constraints(ctx, rng, explicit=None):
  tf = _state["tf"]
  from tensorflow_lattice.python import lattice_layer as ll
  cfg = _cfg_lattice(rng)
  if explicit is not None:
    _state["coherent"] = False
    base = dict(units=1, monotonic_at_every_step=True, clip_inputs=True, interpolation="hypercube", kernel_initializer="linear_initializer",
                edgeworth_trusts=None, trapezoid_trusts=None, monotonic_dominances=None, range_dominances=None, joint_monotonicities=None,
                joint_unimodalities=None, unimodalities=None, num_projection_iterations=1)
    base.update(explicit)
    cfg = base
  # the single-tuple spelling is normalised by the Lattice layer; the constraint class takes lists
  for k in ("edgeworth_trusts", "trapezoid_trusts", "monotonic_dominances", "range_dominances", "joint_monotonicities"):
    if isinstance(cfg[k], tuple):
      cfg[k] = [cfg[k]]
  if isinstance(cfg["joint_unimodalities"], tuple):
    cfg["joint_unimodalities"] = [cfg["joint_unimodalities"]]
  if isinstance(cfg["lattice_sizes"], tuple):
    cfg["lattice_sizes"] = list(cfg["lattice_sizes"])
  units = cfg.pop("units")
  for k in ("monotonic_at_every_step", "clip_inputs", "interpolation", "kernel_initializer"):
    cfg.pop(k)
  if cfg.pop("kernel_regularizer", None) is not None:
    _state["fault"] = None          # a layer-only fault (regularizer name): the constraint class has no such argument
  cfg["enforce_strict_monotonicity"] = pick(rng, [True, False])
  n = int(np.prod(cfg["lattice_sizes"]))

  def bae(c, phase):
    if phase == "build":
      return True
    w = (rng.normal(size=(n, units)) * 3).astype(np.float32)
    out = c(tf.constant(w)).numpy()
    return [] if np.all(np.isfinite(out)) else ["non-finite projection"]
  from tflv.oracles import validity
  return _life_cycle(ctx, "LatticeConstraints", cfg, lambda: ll.LatticeConstraints(**cfg), bae, must_reject=validity.lattice_must_reject(cfg), must_accept=bool(_state.get("coherent")))


def _run_pwl(ctx, rng, explicit=None):
  tf, tfl = _state["tf"], _state["tfl"]
  b = pick(rng, [(None, None), (0.0, 1.0), (None, 1.0), (0.0, None), (0.5, 0.5), (1.0, 0.0)], 5)
  cfg = dict(input_keypoints=pick(rng, [[0.0, 1.0, 2.0], [0.0, 1.0], (0.0, 1.0, 5.0), np.array([0.0, 0.5, 4.0]), list(np.linspace(0, 1, 7)),
                                         [0.0, 0.0, 1.0], [2.0, 1.0, 0.0], [0.0], [0.0, 1.0, 1.0]], 5),
             units=pick(rng, [1, 1, 2]), output_min=b[0], output_max=b[1],
             clamp_min=pick(rng, [False, False, True]), clamp_max=pick(rng, [False, False, True]),
             monotonicity=pick(rng, ["none", 0, "increasing", 1, "decreasing", -1, 2, "bogus"], 6),
             convexity=pick(rng, ["none", 0, 0, "convex", 1, "concave", -1]),
             is_cyclic=pick(rng, [False, False, False, False, False, True]), kernel_initializer=pick(rng, ["equal_heights", "equal_slopes"]),
             impute_missing=pick(rng, [False, True]), missing_input_value=pick(rng, [None, -1.0]), missing_output_value=pick(rng, [None, None, 0.5]),
             num_projection_iterations=pick(rng, [0, 1, 8]), split_outputs=pick(rng, [False, False, True]),
             input_keypoints_type=pick(rng, ["fixed", "fixed", "learned_interior", "bogus"], 3))
  if explicit is None and rng.rand() < .25:
    # a float64 layer; two thirds of these are valid by construction, so that the non-default dtype reaches every projection branch
    cfg["dtype"] = "float64"
    if rng.rand() < .67:
      cfg.update(input_keypoints=pick(rng, [[0.0, 1.0, 2.0], [0.0, 1.0], list(np.linspace(0, 1, 7))]), input_keypoints_type=pick(rng, ["fixed", "fixed", "learned_interior"]),
                 monotonicity=pick(rng, ["none", "increasing", 1, "decreasing", -1]), is_cyclic=False)
      b = pick(rng, [(None, None), (0.0, 1.0), (None, 1.0), (0.0, None), (-2.0, 3.0)])
      cfg.update(output_min=b[0], output_max=b[1])
  cfg = explicit or cfg
  x = np.concatenate([rng.uniform(-1, 3, size=(5, 1)), np.asarray(list(cfg["input_keypoints"]), dtype=np.float64).reshape(-1, 1)]).astype(np.float32).astype(cfg.get("dtype") or "float32")

  def bae(layer, phase):
    inp = tf.constant(x)
    if cfg["impute_missing"] and cfg["missing_input_value"] is None:
      inp = [tf.constant(x), tf.zeros_like(tf.constant(x))]
    if phase == "build":
      layer(inp)
      return True
    return _project_and_eval(layer, rng, inp)
  from tflv.oracles import validity
  return _life_cycle(ctx, "PWLCalibration", cfg, lambda: tfl.layers.PWLCalibration(**cfg), bae, must_reject=validity.pwl_must_reject(cfg))


def _run_linear(ctx, rng, explicit=None):
  tf, tfl = _state["tf"], _state["tfl"]
  n = pick(rng, [1, 2, 3])
  t = lambda *a: a
  mono = pick(rng, [None, "none", "increasing", [1] * n, [1] + [0] * (n - 1), [-1] * n, ["decreasing"] * n, [1, -1, 0][:n], [2] * n], 8)
  # Linear documents 'list of two-element tuples' only (no single-tuple form)
  dom = [None, None, None, [t(0, 1)], [t(1, 0)], [t(0, 1), t(1, 0)], [t(0, 1), t(1, 2), t(2, 0)], [t(0, 5)]]
  rngs = pick(rng, [(None, None), ([0.0] * n, [1.0] * n), ([0.0] + [None] * (n - 1), [2.0] + [None] * (n - 1)), ([-1.0] * n, [3.0] * n),
                    ([0.0] * n, [0.0] * n), ([1.0] * n, [0.0] * n)], 4)
  cfg = dict(num_input_dims=n, units=pick(rng, [1, 1, 2]), monotonicities=mono,
             monotonic_dominances=pick(rng, dom, 5) if n >= 2 else None, range_dominances=pick(rng, dom, 5) if n >= 2 else None,
             input_min=rngs[0], input_max=rngs[1], use_bias=pick(rng, [True, False]), normalization_order=pick(rng, [None, None, 1, 2]))
  cfg = explicit or cfg
  n = cfg["num_input_dims"]
  units = cfg["units"]
  x = (rng.normal(size=(5, n) if units == 1 else (5, units, n)) * 2).astype(np.float32)

  def bae(layer, phase):
    if phase == "build":
      layer(tf.constant(x))
      return True
    return _project_and_eval(layer, rng, tf.constant(x))
  from tflv.oracles import validity
  return _life_cycle(ctx, "Linear", cfg, lambda: tfl.layers.Linear(**cfg), bae, must_reject=validity.linear_must_reject(cfg))


def _run_categorical(ctx, rng):
  tf, tfl = _state["tf"], _state["tfl"]
  nb = pick(rng, [3, 4, 2, 1])
  t = lambda *a: a
  b = pick(rng, [(None, None), (0.0, 1.0), (None, 1.0), (0.0, None), (0.5, 0.5), (1.0, 0.0)], 5)
  cfg = dict(num_buckets=nb, units=pick(rng, [1, 1, 2]), output_min=b[0], output_max=b[1],
             monotonicities=pick(rng, [None, None, [t(0, 1)], [t(0, 1), t(1, 2)], [t(0, 1), t(0, 1)], [t(0, 1), t(1, 0)], [t(0, 1), t(1, 2), t(2, 0)],
                                       [t(0, 5)], [t(1, 1)]], 5),
             kernel_initializer=pick(rng, ["uniform", "constant"]), default_input_value=pick(rng, [None, -1]), split_outputs=pick(rng, [False, True]))
  x = rng.randint(0, nb, size=(5, 1)).astype(np.int32)

  def bae(layer, phase):
    if phase == "build":
      layer(tf.constant(x))
      return True
    return _project_and_eval(layer, rng, tf.constant(x))
  from tflv.oracles import validity
  return _life_cycle(ctx, "CategoricalCalibration", cfg, lambda: tfl.layers.CategoricalCalibration(**cfg), bae,
                     must_reject=validity.categorical_must_reject(cfg))


def _run_kfl(ctx, rng, explicit=None):
  tf, tfl = _state["tf"], _state["tfl"]
  dims = pick(rng, [1, 2, 3])
  b = pick(rng, [(None, None), (0.0, 1.0), (None, 1.0), (0.0, None), (0.5, 0.5), (1.0, 0.0)], 5)
  cfg = dict(lattice_sizes=pick(rng, [2, 3, 4, 1, 0], 3), units=pick(rng, [1, 1, 2, 0], 3), num_terms=pick(rng, [1, 2, 3, 0], 3),
             monotonicities=pick(rng, [None, [1] * dims, ["increasing"] + ["none"] * (dims - 1), [0] * dims, "increasing", [-1] + [0] * (dims - 1), [1] * (dims + 1)], 5),
             output_min=b[0], output_max=b[1], clip_inputs=pick(rng, [True, False]))
  cfg = explicit or cfg
  units = max(cfg["units"], 1)
  L = max(cfg["lattice_sizes"], 2)
  x = rng.uniform(0, L - 1, size=(5, dims) if units == 1 else (5, units, dims)).astype(np.float32)

  def bae(layer, phase):
    if phase == "build":
      layer(tf.constant(x))
      return True
    return _project_and_eval(layer, rng, tf.constant(x))
  from tflv.oracles import validity
  return _life_cycle(ctx, "KroneckerFactoredLattice", cfg, lambda: tfl.layers.KroneckerFactoredLattice(**cfg), bae,
                     must_reject=validity.kfl_must_reject(cfg, dims))


def _run_cdf(ctx, rng, explicit=None):
  tf, tfl = _state["tf"], _state["tfl"]
  D = pick(rng, [1, 2, 4])
  cfg = dict(num_keypoints=pick(rng, [1, 3, 0], 2), units=pick(rng, [1, 2, 4]), activation=pick(rng, ["relu6", "sigmoid", "bogus"], 2),
             reduction=pick(rng, ["mean", "geometric_mean", "none", "bogus"], 3), sparsity_factor=pick(rng, [1, 1, 2, 3], 3),
             input_scaling_type=pick(rng, ["fixed", "learned_shared", "learned_per_input", "bogus"], 3),
             input_scaling_monotonicity=pick(rng, ["increasing", "none", 1, 0]), input_scaling_init=pick(rng, [None, 1.0, 0.1]))
  cfg = explicit or cfg
  x = (rng.normal(size=(5, D)) * 2).astype(np.float32)

  def bae(layer, phase):
    if phase == "build":
      layer(tf.constant(x))
      return True
    return _project_and_eval(layer, rng, tf.constant(x))
  return _life_cycle(ctx, "CDF", cfg, lambda: tfl.layers.CDF(**cfg), bae, {"input_dim": D})


def _run_rtl(ctx, rng):
  tf, tfl = _state["tf"], _state["tfl"]
  b = pick(rng, [(None, None), (0.0, 1.0), (None, 1.0), (0.0, None), (1.0, 0.0)], 4)
  param = pick(rng, ["all_vertices", "kronecker_factored", "all_vertices", "bogus"], 3)
  cfg = dict(num_lattices=pick(rng, [1, 2, 4]), lattice_rank=pick(rng, [1, 2, 3]), lattice_size=pick(rng, [2, 3, 1], 2), output_min=b[0], output_max=b[1],
             parameterization=param, interpolation=pick(rng, ["hypercube", "simplex", "bogus"], 2),
             kernel_initializer=(pick(rng, ["random_monotonic_initializer", "linear_initializer", "kfl_random_monotonic_initializer"]) if rng.rand() < .25 else
                                 ("kfl_random_monotonic_initializer" if param == "kronecker_factored" else pick(rng, ["random_monotonic_initializer", "linear_initializer"]))),
             separate_outputs=pick(rng, [False, True]), average_outputs=pick(rng, [False, True]), clip_inputs=pick(rng, [True, False]),
             avoid_intragroup_interaction=pick(rng, [True, False]), random_seed=int(rng.randint(100)))
  n_inc, n_unc = pick(rng, [0, 1, 2, 3]), pick(rng, [0, 1, 2, 5])
  L = max(cfg["lattice_size"], 2)
  feed = {}
  if n_inc:
    feed["increasing"] = tf.constant(rng.uniform(0, L - 1, size=(4, n_inc)).astype(np.float32))
  if n_unc:
    feed["unconstrained"] = tf.constant(rng.uniform(0, L - 1, size=(4, n_unc)).astype(np.float32))
  if not feed:
    feed = tf.constant(rng.uniform(0, L - 1, size=(4, 2)).astype(np.float32))

  def bae(layer, phase):
    if phase == "build":
      layer(feed)
      return True
    return _project_and_eval(layer, rng, feed)
  return _life_cycle(ctx, "RTL", cfg, lambda: tfl.layers.RTL(**cfg), bae, {"inputs": {"increasing": n_inc, "unconstrained": n_unc}})


def _run_premade_scenario(ctx, rng, name):
  """Named malformed premade configs (regression witnesses)."""
  tf, tfl = _state["tf"], _state["tfl"]
  feats = [tfl.configs.FeatureConfig("f0", lattice_size=2, num_buckets=3, monotonicity=[(0, 1), (1, 2)]),
           tfl.configs.FeatureConfig("f1", lattice_size=2, monotonicity="increasing", pwl_calibration_input_keypoints=[0.0, 1.0, 2.0])]

  def construct():
    if name == "rtl_without_lattice_rank":
      return tfl.premade.CalibratedLatticeEnsemble(tfl.configs.CalibratedLatticeEnsembleConfig(
          feature_configs=feats, lattices="rtl_layer", num_lattices=2, lattice_rank=None, output_initialization=[0.0, 1.0]))
    raise ValueError("unknown scenario")
  return _life_cycle(ctx, "premade", {"scenario": name}, construct, lambda m, phase: True if phase == "build" else [])


def _run_premade(ctx, rng):
  tf, tfl = _state["tf"], _state["tfl"]
  if rng.rand() < .5:
    from tflv.gen import premade as gp
    desc = gp.describe(rng)

    def bae2(model, phase):
      if phase == "build":
        return True
      cols = [rng.randint(0, f["num_buckets"], size=6) if f["type"] in ("cat", "catnone") else rng.uniform(-1, 4, size=6) for f in desc["features"]]
      for v in model.trainable_variables:
        v.assign((rng.normal(size=v.shape) * 2).astype(np.float32))
      for v in model.trainable_variables:
        if v.constraint is not None:
          v.assign(v.constraint(v))
      y = np.asarray(model.predict(gp.model_inputs(desc, cols), verbose=0))
      return [] if np.all(np.isfinite(y)) else ["non-finite model output"]
    return _life_cycle(ctx, "premade", desc, lambda: gp.build(desc), bae2)
  KP = [0.0, 1.0, 2.0]
  nf = int(rng.randint(1, 4))
  feats, descr = [], []
  for i in range(nf):
    t = pick(rng, ["increasing", "decreasing", "none", 1, -1, 0, "cat", "cat", "bogus"])
    ls = pick(rng, [2, 2, 3, 1])
    extra = {}
    if rng.rand() < .1:
      extra["unimodality"] = pick(rng, ["valley", "peak"])
    if rng.rand() < .15 and nf > 1:
      extra["reflects_trust_in"] = [tfl.configs.TrustConfig("f%d" % int(rng.randint(nf)), pick(rng, ["edgeworth", "trapezoid", "zzz"]), pick(rng, [-1, 1]))]
    if rng.rand() < .1 and nf > 1:
      extra["dominates"] = [tfl.configs.DominanceConfig("f%d" % int(rng.randint(nf)), pick(rng, ["monotonic", "range"]))]
    if t == "cat":
      mono = pick(rng, ["none", [(0, 1)], [(0, 1), (1, 2)], [(0, 1), (1, 0)], [(0, 7)], None])
      fc = tfl.configs.FeatureConfig("f%d" % i, lattice_size=ls, num_buckets=3, monotonicity=mono, default_value=pick(rng, [None, -1]), **extra)
      descr.append(("cat", ls, str(mono), sorted(extra)))
    else:
      kw = dict(pwl_calibration_input_keypoints=pick(rng, [KP, KP, [0.0, 0.0, 1.0], "quantiles", [1.0, 0.0]]),
                pwl_calibration_convexity=pick(rng, [0, 0, 1, -1]), pwl_calibration_clamp_min=pick(rng, [False, False, True]),
                pwl_calibration_input_keypoints_type=pick(rng, ["fixed", "fixed", "learned_interior"]), default_value=pick(rng, [None, -1.0]))
      fc = tfl.configs.FeatureConfig("f%d" % i, lattice_size=ls, monotonicity=t, **kw, **extra)
      descr.append((str(t), ls, str(kw["pwl_calibration_input_keypoints"]), kw["pwl_calibration_convexity"], kw["pwl_calibration_clamp_min"],
                    kw["pwl_calibration_input_keypoints_type"], sorted(extra)))
    feats.append(fc)
  b = pick(rng, [(None, None), (0.0, 1.0), (None, 1.0), (0.0, None), (1.0, 0.0)])
  oc = pick(rng, [False, False, True])
  oi = pick(rng, [[0.0, 1.0], [0.0, 1.0], "quantiles", [0.0, 0.5, 1.0]])
  kind = pick(rng, ["linear", "lattice", "kfl", "ens", "rtl", "rtlkfl", "ens-random", "ens-none"])
  names = [f.name for f in feats]
  common = dict(feature_configs=feats, output_min=b[0], output_max=b[1], output_calibration=oc, output_initialization=oi)
  cfg = {"kind": kind, "features": descr, "bounds": list(b), "output_calibration": oc, "output_initialization": str(oi)}

  def construct():
    if kind == "linear":
      return tfl.premade.CalibratedLinear(tfl.configs.CalibratedLinearConfig(use_bias=pick(rng, [True, False]), **common))
    if kind in ("lattice", "kfl"):
      return tfl.premade.CalibratedLattice(tfl.configs.CalibratedLatticeConfig(
          parameterization="kronecker_factored" if kind == "kfl" else "all_vertices", interpolation=pick(rng, ["hypercube", "simplex"]), **common))
    lat = {"ens": [names[:2] or names, names[-2:] or names], "rtl": "rtl_layer", "rtlkfl": "rtl_layer", "ens-random": "random", "ens-none": None}[kind]
    return tfl.premade.CalibratedLatticeEnsemble(tfl.configs.CalibratedLatticeEnsembleConfig(
        lattices=lat, num_lattices=pick(rng, [None, 1, 2, 3]), lattice_rank=pick(rng, [None, 1, 2]),
        parameterization="kronecker_factored" if kind == "rtlkfl" else "all_vertices",
        use_linear_combination=pick(rng, [False, True]), use_bias=pick(rng, [False, True]), **common))

  def bae(model, phase):
    if phase == "build":
      return True
    X = [(rng.randint(0, 3, (6, 1)).astype(np.int32) if f.num_buckets else rng.uniform(-1, 3, (6, 1)).astype(np.float32)) for f in feats]
    problems = []
    for v in model.trainable_variables:
      v.assign((rng.normal(size=v.shape) * 2).astype(np.float32))
    for v in model.trainable_variables:
      if v.constraint is not None:
        v.assign(v.constraint(v))
    y = model.predict(X, verbose=0)
    if not np.all(np.isfinite(y)):
      problems.append("non-finite model output")
    return problems
  return _life_cycle(ctx, "premade", cfg, construct, bae)


def _run_single_fault(ctx, rng):
  """A valid configuration of PWLCalibration / Linear / CategoricalCalibration / KFL with exactly one documented rule broken: the
  reference oracle must name the fault and the library must reject it with ValueError."""
  tf, tfl = _state["tf"], _state["tfl"]
  from tflv.oracles import validity
  t = lambda *a: a
  which = pick(rng, ["pwl", "linear", "categorical", "kfl"])
  if which == "pwl":
    mono = pick(rng, ["none", "increasing", "decreasing"])
    cfg = dict(input_keypoints=[0.0, 1.0, 2.5], units=pick(rng, [1, 2]), output_min=0.0, output_max=1.0, clamp_min=False, clamp_max=False,
               monotonicity=mono, convexity="none", is_cyclic=False, kernel_initializer="equal_heights", impute_missing=False,
               missing_input_value=None, missing_output_value=None, num_projection_iterations=2, split_outputs=False, input_keypoints_type="fixed")
    fault = pick(rng, ["unsorted", "duplicate", "single", "min_gt_max", "mono_value", "cyclic_mono", "cyclic_convex", "keypoints_type", "regularizer_name"])
    if fault == "regularizer_name":
      cfg["kernel_regularizer"] = t("bogus", 0.1, 0.1)        # documented names: 'laplacian', 'hessian', 'wrinkle'
    elif fault == "unsorted":
      cfg["input_keypoints"] = [0.0, 2.0, 1.0]
    elif fault == "duplicate":
      cfg["input_keypoints"] = pick(rng, [[0.0, 1.0, 1.0, 2.0], [0.0, 0.0, 1.0]])
    elif fault == "single":
      cfg["input_keypoints"] = [0.5]
    elif fault == "min_gt_max":
      cfg["output_min"], cfg["output_max"] = 1.0, 0.5
    elif fault == "mono_value":
      cfg["monotonicity"] = pick(rng, [2, "bogus"])
    elif fault == "cyclic_mono":
      cfg["is_cyclic"], cfg["monotonicity"] = True, "increasing"
    elif fault == "cyclic_convex":
      cfg["is_cyclic"], cfg["monotonicity"], cfg["convexity"] = True, "none", "convex"
    else:
      cfg["input_keypoints_type"] = "bogus"
    reason = validity.pwl_must_reject(cfg)
    x = np.array([[0.0], [1.0], [0.3]], dtype=np.float32)

    def bae(layer, phase):
      if phase == "build":
        layer(tf.constant(x))
        return True
      return _project_and_eval(layer, rng, tf.constant(x))
    ctx.cls("single_fault:pwl/" + fault)
    return _life_cycle(ctx, "PWLCalibration", cfg, lambda: tfl.layers.PWLCalibration(**cfg), bae, must_reject=reason or ("injected fault: " + fault))
  if which == "linear":
    n = 3
    cfg = dict(num_input_dims=n, units=pick(rng, [1, 2]), monotonicities=[1, 1, 0], monotonic_dominances=None, range_dominances=None,
               input_min=[0.0, 0.0, None], input_max=[1.0, 2.0, None], use_bias=True, normalization_order=None)
    fault = pick(rng, ["mono_len", "mono_value", "mdom_free", "rdom_free", "rdom_no_range", "min_gt_max", "conflict", "both_kinds", "dim_range", "rdom_empty_range"])
    if fault == "mono_len":
      cfg["monotonicities"] = [1, 1]
    elif fault == "mono_value":
      cfg["monotonicities"] = [1, 2, 0]
    elif fault == "mdom_free":
      cfg["monotonic_dominances"] = [t(0, 2)]
    elif fault == "rdom_free":
      cfg["range_dominances"] = [t(0, 2)]
    elif fault == "rdom_no_range":
      cfg["range_dominances"] = [t(0, 1)]
      cfg["input_max"] = [1.0, None, None]
    elif fault == "min_gt_max":
      cfg["input_min"] = [2.0, 0.0, None]
    elif fault == "conflict":
      cfg["monotonic_dominances"] = [t(0, 1), t(1, 0)]
    elif fault == "both_kinds":
      cfg["monotonic_dominances"], cfg["range_dominances"] = [t(0, 1)], [t(1, 0)]
    elif fault == "dim_range":
      cfg["monotonic_dominances"] = [t(0, 5)]
    else:
      cfg["range_dominances"] = [t(0, 1)]
      cfg["input_min"], cfg["input_max"] = [0.0, 1.0, None], [1.0, 1.0, None]
    reason = validity.linear_must_reject(cfg)
    units = cfg["units"]
    x = rng.normal(size=(3, n) if units == 1 else (3, units, n)).astype(np.float32)

    def bae(layer, phase):
      if phase == "build":
        layer(tf.constant(x))
        return True
      return _project_and_eval(layer, rng, tf.constant(x))
    ctx.cls("single_fault:linear/" + fault)
    return _life_cycle(ctx, "Linear", cfg, lambda: tfl.layers.Linear(**cfg), bae, must_reject=reason or ("injected fault: " + fault))
  if which == "categorical":
    cfg = dict(num_buckets=3, units=1, output_min=0.0, output_max=1.0, monotonicities=[t(0, 1)], kernel_initializer="uniform",
               default_input_value=None, split_outputs=False)
    fault = pick(rng, ["pair_range", "min_gt_max", "negative_index"])
    if fault == "pair_range":
      cfg["monotonicities"] = [t(0, 3)]
    elif fault == "min_gt_max":
      cfg["output_min"], cfg["output_max"] = 1.0, 0.0
    else:
      cfg["monotonicities"] = [t(-1, 1)]
    reason = validity.categorical_must_reject(cfg)
    x = np.array([[0], [2]], dtype=np.int32)

    def bae(layer, phase):
      if phase == "build":
        layer(tf.constant(x))
        return True
      return _project_and_eval(layer, rng, tf.constant(x))
    ctx.cls("single_fault:categorical/" + fault)
    return _life_cycle(ctx, "CategoricalCalibration", cfg, lambda: tfl.layers.CategoricalCalibration(**cfg), bae, must_reject=reason or ("injected fault: " + fault))
  dims = 2
  cfg = dict(lattice_sizes=3, units=1, num_terms=2, monotonicities=[1, 0], output_min=0.0, output_max=1.0, clip_inputs=True)
  fault = pick(rng, ["size1", "units0", "terms0", "mono_decreasing", "mono_len"])
  if fault == "size1":
    cfg["lattice_sizes"] = 1
  elif fault == "units0":
    cfg["units"] = 0
  elif fault == "terms0":
    cfg["num_terms"] = 0
  elif fault == "mono_decreasing":
    cfg["monotonicities"] = [-1, 0]
  else:
    cfg["monotonicities"] = [1, 0, 0]
  reason = validity.kfl_must_reject(cfg, dims)
  x = rng.uniform(0, 1, size=(3, dims)).astype(np.float32)

  def bae(layer, phase):
    if phase == "build":
      layer(tf.constant(x))
      return True
    return _project_and_eval(layer, rng, tf.constant(x))
  ctx.cls("single_fault:kfl/" + fault)
  return _life_cycle(ctx, "KroneckerFactoredLattice", cfg, lambda: tfl.layers.KroneckerFactoredLattice(**cfg), bae, must_reject=reason or ("injected fault: " + fault))


def _run_synonyms(ctx, rng):
  """Two spellings of the same configuration must give bitwise identical
  projections and outputs."""
  tf, tfl = _state["tf"], _state["tfl"]
  which = pick(rng, ["lattice_mono", "lattice_unimodal", "lattice_trust", "lattice_tuple_list", "pwl_mono", "pwl_convexity", "linear_mono", "kfl_mono",
                     "lattice_single_constraints", "premade_feature_spelling", "premade_feature_spelling"])
  def same(a, b, what):
    ok = a.shape == b.shape and bool(np.array_equal(a, b, equal_nan=True))
    ctx.check("synonyms/identical", ok, "%s: spellings differ by %.3g" % (what, float(np.nanmax(np.abs(a.astype(np.float64) - b.astype(np.float64)))) if a.shape == b.shape else -1),
              info={"which": which})
  ctx.cls("synonyms:" + which)
  if which.startswith("lattice"):
    sizes = [3, 3, 2]
    n = 18
    base = dict(lattice_sizes=sizes, output_min=0.0, output_max=1.0, num_projection_iterations=3)
    if which == "lattice_mono":
      A = dict(base, monotonicities=[1, 0, 1]); B = dict(base, monotonicities=["increasing", "none", "increasing"])
    elif which == "lattice_unimodal":
      A = dict(base, unimodalities=[-1, 1, 0]); B = dict(base, unimodalities=["peak", "valley", "none"])
    elif which == "lattice_trust":
      A = dict(base, monotonicities=[1, 0, 1], edgeworth_trusts=[(0, 1, 1)], trapezoid_trusts=[(2, 1, -1)])
      B = dict(base, monotonicities=[1, 0, 1], edgeworth_trusts=[(0, 1, "positive")], trapezoid_trusts=[(2, 1, "negative")])
    elif which == "lattice_tuple_list":
      A = dict(base, monotonicities=[1, 0, 1], unimodalities=[0, 1, 0]); B = dict(base, lattice_sizes=tuple(sizes), monotonicities=(1, 0, 1), unimodalities=(0, 1, 0))
    else:
      A = dict(base, monotonicities=[1, 1, 0], edgeworth_trusts=(0, 2, 1), monotonic_dominances=(0, 1), joint_monotonicities=(1, 2), joint_unimodalities=([2], "valley") if False else None)
      B = dict(base, monotonicities=[1, 1, 0], edgeworth_trusts=[(0, 2, 1)], monotonic_dominances=[(0, 1)], joint_monotonicities=[(1, 2)], joint_unimodalities=None)
    units = pick(rng, [1, 2])
    la, lb = tfl.layers.Lattice(units=units, **A), tfl.layers.Lattice(units=units, **B)
    x = rng.uniform(0, [2, 2, 1], size=(5, 3) if units == 1 else (5, units, 3)).astype(np.float32)
    la(tf.constant(x)); lb(tf.constant(x))
    w = (rng.normal(size=(n, units)) * 2).astype(np.float32)
    for l in (la, lb):
      l.kernel.assign(w)
      l.kernel.assign(l.kernel.constraint(l.kernel))
    same(la.kernel.numpy(), lb.kernel.numpy(), which + " projection")
    same(la(tf.constant(x)).numpy(), lb(tf.constant(x)).numpy(), which + " output")
    for l in (la, lb):
      l.kernel.assign(w)
      l.finalize_constraints()
    same(la.kernel.numpy(), lb.kernel.numpy(), which + " finalize_constraints")
  elif which == "premade_feature_spelling":
    # premade models built from FeatureConfigs that differ only in how monotonicity / convexity / unimodality are spelled
    # (with the non-default flags that branch on them), same weights, every variable's constraint applied once
    nf = int(rng.randint(2, 4))
    kind = pick(rng, ["linear", "lattice"])
    fa, fb = [], []
    for i in range(nf):
      m = int(pick(rng, [0, 0, 1, -1]))
      conv = int(pick(rng, [0, 0, 1, -1])) if m != 0 else 0
      extra = dict(pwl_calibration_always_monotonic=bool(rng.rand() < .5), pwl_calibration_input_keypoints=[0.0, 1.0, 2.0, 3.5],
                   lattice_size=2)
      uni = int(pick(rng, [0, 1])) if (m == 0 and kind == "lattice" and not extra["pwl_calibration_always_monotonic"] and rng.rand() < .3) else 0
      if uni:
        extra["lattice_size"] = 3
      sp_m = {0: "none", 1: "increasing", -1: "decreasing"}[m]
      sp_c = {0: "none", 1: "convex", -1: "concave"}[conv]
      sp_u = {0: "none", 1: "valley"}[uni]
      fa.append(tfl.configs.FeatureConfig("f%d" % i, monotonicity=m, pwl_calibration_convexity=conv, unimodality=uni, **extra))
      fb.append(tfl.configs.FeatureConfig("f%d" % i, monotonicity=sp_m, pwl_calibration_convexity=sp_c, unimodality=sp_u, **extra))
    models = []
    for fs in (fa, fb):
      if kind == "linear":
        cfg_ = tfl.configs.CalibratedLinearConfig(feature_configs=fs, output_min=0.0, output_max=1.0, output_initialization=[0.0, 1.0])
        models.append(tfl.premade.CalibratedLinear(cfg_))
      else:
        cfg_ = tfl.configs.CalibratedLatticeConfig(feature_configs=fs, output_min=0.0, output_max=1.0, output_initialization=[0.0, 1.0])
        models.append(tfl.premade.CalibratedLattice(cfg_))
    ma, mb = models
    X = [rng.uniform(-0.5, 4.0, size=(7, 1)).astype(np.float32) for _ in range(nf)]
    ya0, yb0 = np.asarray(ma(X)), np.asarray(mb(X))
    same(ya0, yb0, "premade %s initial output" % kind)
    va, vb = ma.trainable_variables, mb.trainable_variables
    okv = [tuple(v.shape) for v in va] == [tuple(v.shape) for v in vb]
    ctx.check("synonyms/identical", okv, "premade %s: the two spellings create different variables" % kind, info={"which": which})
    if okv:
      for a_, b_ in zip(va, vb):
        val = (rng.normal(size=a_.shape) * 2).astype(np.float32)
        a_.assign(val); b_.assign(val)
      ca = [v.constraint is not None for v in va]
      cb = [v.constraint is not None for v in vb]
      ctx.check("synonyms/identical", ca == cb, "premade %s: the two spellings constrain different variables: %s vs %s" % (kind, ca, cb), info={"which": which})
      for vs in (va, vb):
        for v in vs:
          if v.constraint is not None:
            v.assign(v.constraint(v))
      for a_, b_ in zip(va, vb):
        same(a_.numpy(), b_.numpy(), "premade %s weights after constraints (%s)" % (kind, a_.name))
      same(np.asarray(ma(X)), np.asarray(mb(X)), "premade %s output after constraints" % kind)
  elif which in ("pwl_mono", "pwl_convexity"):
    d = pick(rng, [("increasing", 1), ("decreasing", -1), ("none", 0)])
    c = pick(rng, [("convex", 1), ("concave", -1), ("none", 0)]) if which == "pwl_convexity" else ("none", 0)
    base = dict(input_keypoints=[0.0, 1.0, 2.5, 3.0], units=2, output_min=0.0, output_max=1.0)
    la = tfl.layers.PWLCalibration(monotonicity=d[0], convexity=c[0], **base)
    lb = tfl.layers.PWLCalibration(monotonicity=d[1], convexity=c[1], **base)
    x = rng.uniform(-1, 4, size=(6, 1)).astype(np.float32)
    la(tf.constant(x)); lb(tf.constant(x))
    same(la.kernel.numpy(), lb.kernel.numpy(), which + " initial kernel")
    w = (rng.normal(size=(4, 2)) * 2).astype(np.float32)
    for l in (la, lb):
      l.kernel.assign(w)
      l.kernel.assign(l.kernel.constraint(l.kernel))
    same(la.kernel.numpy(), lb.kernel.numpy(), which + " projection")
    same(la(tf.constant(x)).numpy(), lb(tf.constant(x)).numpy(), which + " output")
  elif which == "linear_mono":
    la = tfl.layers.Linear(num_input_dims=3, monotonicities=["increasing", "decreasing", "none"], normalization_order=1)
    lb = tfl.layers.Linear(num_input_dims=3, monotonicities=[1, -1, 0], normalization_order=1)
    x = rng.normal(size=(5, 3)).astype(np.float32)
    la(tf.constant(x)); lb(tf.constant(x))
    w = rng.normal(size=(3, 1)).astype(np.float32)
    for l in (la, lb):
      l.kernel.assign(w)
      l.kernel.assign(l.kernel.constraint(l.kernel))
      l.bias.assign(np.float32(0.25))
    same(la.kernel.numpy(), lb.kernel.numpy(), "linear projection")
    same(la(tf.constant(x)).numpy(), lb(tf.constant(x)).numpy(), "linear output")
  else:
    la = tfl.layers.KroneckerFactoredLattice(lattice_sizes=3, monotonicities=["increasing", "none"], output_min=0.0, output_max=1.0)
    lb = tfl.layers.KroneckerFactoredLattice(lattice_sizes=3, monotonicities=[1, 0], output_min=0.0, output_max=1.0)
    x = rng.uniform(0, 2, size=(5, 2)).astype(np.float32)
    la(tf.constant(x)); lb(tf.constant(x))
    w = (rng.normal(size=la.kernel.shape) * 2).astype(np.float32)
    s = rng.normal(size=la.scale.shape).astype(np.float32)
    for l in (la, lb):
      l.kernel.assign(w); l.scale.assign(s)
      l.finalize_constraints()
    same(la.kernel.numpy(), lb.kernel.numpy(), "KFL projection")
    same(la(tf.constant(x)).numpy(), lb(tf.constant(x)).numpy(), "KFL output")
  return "synonyms"


def run_case(ctx, case):
  _ensure()
  rng = np.random.RandomState(case["seed"])
  fn = {"lattice": _run_lattice, "lattice_constraints": _run_lattice_constraints, "pwl": _run_pwl, "linear": _run_linear,
        "categorical": _run_categorical, "kfl": _run_kfl, "cdf": _run_cdf, "rtl": _run_rtl, "premade": _run_premade,
        "synonyms": _run_synonyms, "single_fault": _run_single_fault}[case["kind"]]
  ctx.cls("kind:" + case["kind"])
  _state["last_cfg"] = None
  if case.get("scenario"):
    _run_premade_scenario(ctx, rng, case["scenario"])
  elif case.get("explicit") is not None:
    e = dict(case["explicit"])
    for k, v in list(e.items()):       # JSON lists -> tuples where the spelling matters
      if k in ("lattice_sizes_tuple",):
        e["lattice_sizes"] = tuple(e.pop(k))
      if k in ("monotonicities_tuple",):
        e["monotonicities"] = tuple(e.pop(k))
      if k == "kernel_regularizer" and v is not None:
        e[k] = (v[0], tuple(v[1]) if isinstance(v[1], list) else v[1], tuple(v[2]) if isinstance(v[2], list) else v[2])
      if k in ("edgeworth_trusts", "trapezoid_trusts", "monotonic_dominances", "range_dominances", "joint_monotonicities") and v is not None:
        e[k] = [tuple(t) for t in v]
      if k == "joint_unimodalities" and v is not None:
        e[k] = [(list(d), str(sn)) for d, sn in v]
    fn(ctx, rng, explicit=e)
  else:
    fn(ctx, rng)
  return True, (_state.get("last_cfg") or core.digest(case))
