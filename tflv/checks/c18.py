"""C18 - Computed calibration keypoints are valid for every data sample.

Monitor: premade_lib.compute_keypoints (return value or exception) and the
configs filled by compute_feature_keypoints / set_feature_keypoints /
compute_label_keypoints / set_label_keypoints.  Oracle O-kp: strictly
increasing (>= 2 distinct clipped values), inside the clipped range, ends equal
to clip bounds / data extremes, count rule, quantile keypoints are sample
values, accepted by PWLCalibration.
"""
import numpy as np

from tflv import core

PROPERTY = "C18"
RULE = ("case = (value array class: normal / small ints / few distinct / constant / skewed / rounded duplicates / constant-after-clipping, size 1-300, "
        "num_keypoints 2-20, mode, clip bounds, default value, strictly positive example weights or none, reduction); "
        "non-trivial = clipped data has >= 2 distinct values; distinct by digest of all arguments")
MIN_EVENTS = {
    "quick": {"compute_keypoints/valid": 4000, "PWLCalibration/accepts-keypoints": 2500, "feature-helpers/valid": 200, "label-helper/valid": 200},
    "thorough": {"compute_keypoints/valid": 150000, "PWLCalibration/accepts-keypoints": 90000, "feature-helpers/valid": 8000, "label-helper/valid": 8000},
}
ASSUMPTIONS = [
    "example weights are strictly positive (zero-weight samples make 'data extreme' ambiguous; all-zero weights are meaningless) - neither is generated",
    "values are finite numeric arrays; arrays that are empty after removing the default value are counted 'empty' and not judged",
]
_state = {}


def setup(ctx):
  from tflv import tfenv
  tf, tfl = tfenv.setup()
  from tensorflow_lattice.python import premade_lib
  _state.update(tf=tf, tfl=tfl, pl=premade_lib)


def _ensure():
  if "tf" not in _state:
    setup(None)
  return _state


def gen_cases(ctx):
  rng = ctx.rng
  for i in range(ctx.n):
    kind = "plain" if i % 10 < 8 else ("features" if i % 10 == 8 else "labels")
    yield {"kind": kind, "seed": int(rng.randint(2**31 - 1))}


def _values(rng):
  n = int(rng.choice([1, 2, 3, 5, 10, 50, 300]))
  vk = str(rng.choice(["normal", "ints", "few", "const", "skew", "dup", "const_after_clip", "negative_large", "huge", "huge"]))
  if vk == "normal":
    v = rng.normal(size=n)
  elif vk == "ints":
    v = rng.randint(0, 5, size=n).astype(float)
  elif vk == "few":
    v = rng.choice([0.0, 1.0, 7.0], size=n)
  elif vk == "const":
    v = np.full(n, 3.0)
  elif vk == "skew":
    v = np.exp(rng.normal(size=n) * 3)
  elif vk == "dup":
    v = np.round(rng.normal(size=n), 1)
  elif vk == "const_after_clip":
    v = rng.uniform(5, 9, size=n)
  elif vk == "huge":
    # magnitudes where x - 1 == x: nanosecond timestamps in float64 (spacing 256), ids beyond 2**24 in float32
    if rng.rand() < .5:
      v = float(rng.choice([1.7e18, -1.7e18])) + 65536.0 * rng.randint(0, 40, size=n)      # spacing 65536: uniform keypoints stay resolvable (float64 step 256)
    else:
      v = (float(rng.choice([3.0e7, -3.0e7])) + 64.0 * rng.randint(0, 40, size=n)).astype(np.float32)   # spacing 64: 20 uniform keypoints stay resolvable (float32 step 2)
  else:
    v = -np.abs(rng.normal(size=n)) * 1e5
  # data columns arrive in every dtype (integer feature columns, integer labels, float32 frames)
  if vk in ("ints", "few", "const") and rng.rand() < .5:
    v = v.astype([np.int64, np.int32, np.uint8][int(rng.randint(3))])
  elif rng.rand() < .15 and vk != "huge":
    v = v.astype(np.float32)
  return vk, v


def _args(rng):
  vk, v = _values(rng)
  k = int(rng.choice([2, 3, 5, 10, 20]))
  mode = str(rng.choice(["quantiles", "uniform"]))
  cmin = float(rng.choice([-1.0, 0.0, 0.5])) if rng.rand() < .4 else None
  cmax = ((cmin if cmin is not None else 0.0) + float(rng.choice([0.5, 1.0, 5.0]))) if rng.rand() < .4 else None
  if vk == "const_after_clip":
    cmin, cmax = None, 1.0
  dv = float(rng.choice([-1.0, 0.0, 3.0])) if rng.rand() < .3 else None
  w = None
  if rng.rand() < .5:
    w = [rng.uniform(.1, 2, size=len(v)), np.ones(len(v)), rng.exponential(size=len(v)) + 1e-6][int(rng.randint(3))]
    if len(v) >= 3 and rng.rand() < .3:
      # masked examples: weight exactly 0 on some values (never on all) - such a value still belongs to the data range,
      # exactly like the clip bounds the function itself appends with weight 0
      z = rng.rand(len(v)) < .4
      if z.all():
        z[int(rng.randint(len(v)))] = False
      w = np.where(z, 0.0, w)
  red = str(rng.choice(["mean", "sum"]))
  return vk, v, k, mode, cmin, cmax, dv, w, red


def _distinct(v, cmin, cmax, dv):
  vv = v[v != dv] if dv is not None else v
  cl = vv.copy()
  if cmin is not None:
    cl = np.append(np.maximum(cl, cmin), cmin)
  if cmax is not None:
    cl = np.append(np.minimum(cl, cmax), cmax)
  return np.unique(cl), vv


def judge(ctx, site, kp, distinct, k, mode, info):
  st = _ensure()
  tfl = st["tfl"]
  msgs = []
  kp = np.asarray(kp, dtype=float)
  distinct = np.asarray(distinct, dtype=np.float64)      # float32 / integer data: compare as exact float64 values
  if kp.ndim != 1 or not np.all(np.isfinite(kp)):
    msgs.append("keypoints not a finite 1-D array: %s" % kp)
  else:
    if len(distinct) >= 2 and not np.all(np.diff(kp) > 0):
      msgs.append("not strictly increasing: %s" % kp.tolist())
    if kp.min() < distinct[0] - 1e-12 * max(1, abs(distinct[0])) or kp.max() > distinct[-1] + 1e-12 * max(1, abs(distinct[-1])):
      msgs.append("outside the clipped data range [%g, %g]: %s" % (distinct[0], distinct[-1], kp.tolist()))
    if len(distinct) >= 2 and (abs(kp[0] - distinct[0]) > 1e-12 * max(1, abs(distinct[0])) or abs(kp[-1] - distinct[-1]) > 1e-12 * max(1, abs(distinct[-1]))):
      msgs.append("first/last keypoint (%g, %g) != clip bound / data extreme (%g, %g)" % (kp[0], kp[-1], distinct[0], distinct[-1]))
    if mode == "quantiles":
      want = k if len(distinct) >= k else len(distinct)
      if len(kp) != want:
        msgs.append("%d keypoints, expected %d (%d distinct values, num_keypoints=%d)" % (len(kp), want, len(distinct), k))
      if not set(np.round(kp, 10)).issubset(set(np.round(distinct, 10))):
        msgs.append("a quantile keypoint is not a sample value")
    else:
      if len(kp) != k:
        msgs.append("%d keypoints in uniform mode, expected %d" % (len(kp), k))
  ctx.check(site, not msgs, "; ".join(msgs), info=info)
  if not msgs and len(distinct) >= 2 and len(kp) >= 2:
    try:
      tfl.layers.PWLCalibration(input_keypoints=kp)
      ctx.check("PWLCalibration/accepts-keypoints", True)
    except Exception as e:
      ctx.check("PWLCalibration/accepts-keypoints", False, "PWLCalibration rejects computed keypoints: %s" % str(e)[:120], info=info)


def run_case(ctx, case):
  st = _ensure()
  pl, tfl = st["pl"], st["tfl"]
  rng = np.random.RandomState(case["seed"])
  if case["kind"] == "plain":
    if case.get("explicit"):
      # a stored witness: the arguments themselves (independent of later changes to the generator)
      ex = case["explicit"]
      vk, v, k, mode, cmin, cmax, dv, red = "explicit", np.asarray(ex["values"], dtype=ex.get("dtype", "float64")), ex["num_keypoints"], ex["mode"], \
          ex.get("clip_min"), ex.get("clip_max"), ex.get("default_value"), ex.get("reduction", "mean")
      w = None if ex.get("weights") is None else np.asarray(ex["weights"], dtype=np.float64)
    else:
      vk, v, k, mode, cmin, cmax, dv, w, red = _args(rng)
    distinct, vv = _distinct(v, cmin, cmax, dv)
    info = {"values": core.brief(v.tolist(), 30), "num_keypoints": k, "mode": mode, "clip_min": cmin, "clip_max": cmax,
            "default_value": dv, "weights": None if w is None else core.brief(w.tolist(), 30), "reduction": red}
    ctx.cls("dtype:" + str(np.asarray(v).dtype))
    ctx.cls("values:" + vk, "mode:" + mode, "weights:%s" % (w is not None), "clip:%d%d" % (cmin is not None, cmax is not None),
            "default:%s" % (dv is not None), "n:%d" % len(v))
    if len(distinct) == 0 or len(vv) == 0:
      # no sample left once the default value is removed (only zero-weight clip sentinels remain): outside the stated domain
      ctx.note("empty-after-default-removal")
      return False, None
    if w is not None and float(np.asarray(w)[np.asarray(v) != dv].sum() if dv is not None else np.asarray(w).sum()) <= 0.0:
      # every remaining sample is masked (the only positive weights sat on default-valued examples): all-zero weights, excluded
      ctx.note("all-zero-weights-after-default-removal")
      return False, None
    try:
      kp = pl.compute_keypoints(v, k, keypoints=mode, clip_min=cmin, clip_max=cmax, default_value=dv, weights=w, weight_reduction=red)
    except Exception as e:
      ctx.check("compute_keypoints/valid", False, "compute_keypoints raised %s: %s" % (type(e).__name__, str(e)[:150]), info=info)
      return True, core.digest(info)
    judge(ctx, "compute_keypoints/valid", kp, distinct, k, mode, info)
    return len(distinct) >= 2, core.digest([core.arr_digest(v), k, mode, cmin, cmax, dv, None if w is None else core.arr_digest(w), red])
  if case["kind"] == "features":
    nfeat = int(rng.randint(1, 4))
    fcs, feats, expect = [], {}, {}
    w = None
    n = int(rng.choice([5, 40, 200]))
    if rng.rand() < .5:
      w = rng.uniform(.1, 2, size=n)
    for j in range(nfeat):
      vk, v = _values(rng)
      v = np.resize(v, n)
      k = int(rng.choice([2, 5, 10]))
      mode = str(rng.choice(["quantiles", "uniform"]))
      cmin = float(rng.choice([-1.0, 0.0])) if rng.rand() < .4 else None
      cmax = (cmin or 0.0) + 2.0 if rng.rand() < .4 else None
      dv = -1.0 if rng.rand() < .3 else None
      if dv is not None and np.all(v == dv):
        dv = None        # a feature whose every sample is the default value has no data: outside the stated domain
      name = "f%d" % j
      fcs.append(tfl.configs.FeatureConfig(name, pwl_calibration_num_keypoints=k, pwl_calibration_input_keypoints=mode,
                                           pwl_calibration_clip_min=cmin, pwl_calibration_clip_max=cmax, default_value=dv))
      feats[name] = v
      expect[name] = (v, k, mode, cmin, cmax, dv)
    # a categorical and a user-specified feature must be left alone
    fcs.append(tfl.configs.FeatureConfig("cat", num_buckets=3))
    feats["cat"] = rng.randint(0, 3, size=n)
    fcs.append(tfl.configs.FeatureConfig("user", pwl_calibration_input_keypoints=[0.0, 1.0, 5.0]))
    feats["user"] = rng.normal(size=n)
    try:
      kps = pl.compute_feature_keypoints(fcs, feats, weights=w, weight_reduction=str(rng.choice(["mean", "sum"])))
      pl.set_feature_keypoints(fcs, kps, add_missing_feature_configs=False)
    except Exception as e:
      ctx.check("feature-helpers/valid", False, "feature keypoint helpers raised %s: %s" % (type(e).__name__, str(e)[:150]))
      return True, None
    for fc in fcs:
      if fc.name == "cat":
        ctx.check("feature-helpers/valid", "cat" not in kps, "categorical feature received keypoints")
        continue
      if fc.name == "user":
        ctx.check("feature-helpers/valid", list(fc.pwl_calibration_input_keypoints) == [0.0, 1.0, 5.0], "user keypoints overwritten")
        continue
      v, k, mode, cmin, cmax, dv = expect[fc.name]
      distinct, vv_ = _distinct(v, cmin, cmax, dv)
      if len(distinct) == 0 or len(vv_) == 0:
        continue
      if w is not None and float(np.asarray(w)[np.asarray(v) != dv].sum() if dv is not None else np.asarray(w).sum()) <= 0.0:
        continue
      judge(ctx, "feature-helpers/valid", fc.pwl_calibration_input_keypoints, distinct, k, mode,
            {"feature": fc.name, "num_keypoints": k, "mode": mode, "clip": [cmin, cmax], "default": dv})
    return True, core.digest([case["seed"], "features"])
  # labels
  vk, v = _values(rng)
  label_form = str(rng.choice(["numeric", "numeric", "numeric", "bool", "str"]))
  if label_form != "numeric":
    # class labels that are not numbers (the helper documents them: keypoints over the class indices 0..n_classes-1)
    classes = ["cat", "dog", "eel", "fox"][:int(rng.randint(2, 5))] if label_form == "str" else [False, True]
    raw = [classes[int(j)] for j in rng.randint(0, len(classes), size=max(3, len(v)))]
    for c_ in classes:
      raw[int(rng.randint(len(raw)))] = c_
    labels_in = np.array(raw) if rng.rand() < .7 else list(raw)
    v = np.arange(len(set(raw)), dtype=float)          # what the keypoints are computed over
    ctx.cls("labels:" + label_form)
  else:
    labels_in = v
  k = int(rng.choice([2, 5, 10]))
  mode = str(rng.choice(["quantiles", "uniform"]))
  b = str(rng.choice(["none", "both", "min"]))
  omin = 0.0 if b != "none" else None
  omax = 4.0 if b == "both" else None
  logits = bool(rng.rand() < .25)
  cfg = tfl.configs.CalibratedLatticeConfig(output_calibration=True, output_calibration_num_keypoints=k, output_initialization=mode,
                                            output_min=omin, output_max=omax)
  w = rng.uniform(.1, 2, size=len(labels_in)) if rng.rand() < .5 else None
  try:
    kp = pl.compute_label_keypoints(cfg, labels_in, logits_output=logits, weights=w)
    pl.set_label_keypoints(cfg, kp)
  except Exception as e:
    ctx.check("label-helper/valid", False, "label keypoint helper raised %s: %s" % (type(e).__name__, str(e)[:150]),
              info={"labels": core.brief(v.tolist(), 30)})
    return True, None
  if logits:
    ok = len(kp) == k and abs(kp[0] + 2) < 1e-12 and abs(kp[-1] - 2) < 1e-12 and np.all(np.diff(kp) > 0)
    ctx.check("label-helper/valid", bool(ok), "logits keypoints are not linspace(-2, 2, k): %s" % (kp,))
  else:
    distinct, _ = _distinct(v, omin, omax, None)
    judge(ctx, "label-helper/valid", cfg.output_initialization, distinct, k, mode, {"labels": core.brief(v.tolist(), 30), "k": k, "mode": mode, "bounds": [omin, omax]})
  return True, core.digest([case["seed"], "labels"])
