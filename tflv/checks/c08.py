"""C08 - Iterative (Dykstra) projection: feasible points are fixed, violation
tends to zero (bounded-progress restatement), converged results are fixed
points, the limit is the Euclidean-nearest feasible kernel for the families
that claim it; strict layer constraint with many iterations stays close; PWL
analogue.

Monitors: lattice_lib.project_by_dykstra (boundary, eager and tf.function),
every lattice_lib._project_partial_* call made inside the loop (per-group
monitor: each claimed-exact group projection is compared with the certified
float64 projection onto exactly that group's rows), LatticeConstraints with
N=1000, pwl_calibration_lib.project_all_constraints.
Oracle: O-rows + KKT-certified NNLS/LDP projection (oracles/qp.py).
"""
import itertools

import numpy as np

from tflv import core
from tflv import monitors
from tflv.gen import pwl as genpwl
from tflv.oracles import feasible as feas
from tflv.oracles import lattice as ol

PROPERTY = "C08"
RULE = ("case = (lattice shape <= 64 vertices, units, one or several Dykstra families with directions, kernel class) or a PWL "
        "(monotonicity+bounds+clamps) configuration; each case runs the real projection at N in {1,10,100,1000} (eager for 1 and 10, "
        "tf.function for 100 and 1000), on a feasible point, and again on its own converged result; non-trivial = the kernel "
        "violated some configured row by > tol; distinct by digest of (config, kernel)")
MIN_EVENTS = {
    "quick": {"project_by_dykstra/feasible-unchanged": 40, "project_by_dykstra/bounded-progress": 40,
              "project_by_dykstra/idempotent": 40, "project_by_dykstra/nearest-point": 25,
              "_project_partial/exact-group-projection": 300, "LatticeConstraints(N=1000)/near-nearest-point": 5,
              "project_all_constraints/nearest-point": 8, "project_all_constraints/feasible-unchanged": 20},
    "thorough": {"project_by_dykstra/feasible-unchanged": 1200, "project_by_dykstra/bounded-progress": 1200,
                 "project_by_dykstra/idempotent": 1200, "project_by_dykstra/nearest-point": 700,
                 "_project_partial/exact-group-projection": 10000, "LatticeConstraints(N=1000)/near-nearest-point": 150,
                 "project_all_constraints/nearest-point": 600, "project_all_constraints/feasible-unchanged": 600},
}
ASSUMPTIONS = [
    "'tends to zero as num_iterations grows' is restated as bounded progress: lattices <= 64 vertices, max violation <= 5e-2*scale at N=100 and <= 1e-3*scale at N=1000 (no monotone envelope: Dykstra iterates are not monotone in the violation)",
    "nearest-point claim checked at N=1000 with 1e-3*scale (strict layer constraint: 1e-2*scale); range dominance and joint unimodality: feasibility limit and fixed point only",
    "per-group monitor: range-dominance groups are checked for feasibility of their row and for leaving satisfied rows alone (the corner case is documented as not L2-exact)",
    "the nearest-point oracle is KKT-certified; evaluations whose certificate fails are counted as oracle-unavailable, never as violations",
]

_state = {"calls": None}
FAMS = ["monotonicity", "unimodality", "edgeworth", "trapezoid", "monotonic_dominance", "range_dominance",
        "joint_monotonicity", "joint_unimodality"]
NEAREST = {"monotonicity", "unimodality", "edgeworth", "trapezoid", "monotonic_dominance", "joint_monotonicity"}


def setup(ctx):
  from tflv import tfenv
  tf, tfl = tfenv.setup()
  from tensorflow_lattice.python import lattice_lib, lattice_layer, pwl_calibration_lib
  _state.update(tf=tf, lib=lattice_lib, ll=lattice_layer, plib=pwl_calibration_lib)
  if "mon" in _state or ctx is None:
    return
  mon = monitors.Monitors(ctx)

  def make(name):
    def post(c, site, snap, args, kwargs, out):
      calls = _state["calls"]
      if calls is None:
        return
      w = kwargs.get("weights", args[0] if args else None)
      if not monitors.is_concrete(w, out):
        c.ev("_project_partial/symbolic")
        return
      if len(calls) < _state["cap"]:
        calls.append((name, args, kwargs, monitors.npy(w), None if out is None else monitors.npy(out)))
      else:
        c.ev("_project_partial/not-judged-beyond-cap")
    return post
  for name in ["_project_partial_monotonicity", "_project_partial_edgeworth", "_project_partial_trapezoid",
               "_project_partial_monotonic_dominance", "_project_partial_range_dominance",
               "_project_partial_joint_monotonicity", "_project_partial_joint_unimodality"]:
    mon.wrap(lattice_lib, name, make(name), site="lattice_lib." + name)
  _state["mon"] = mon


def _ensure(ctx=None):
  if "tf" not in _state:
    setup(ctx)
  return _state["tf"], _state["lib"]


# ------------------------------------------------------------------------------
def _gen_cfg(rng, i, shard=0):
  """Small lattice with a labelled family combination."""
  combos = [("monotonicity",), ("unimodality",), ("edgeworth",), ("trapezoid",), ("monotonic_dominance",),
            ("range_dominance",), ("joint_monotonicity",), ("joint_unimodality",),
            ("monotonicity", "unimodality"), ("edgeworth", "trapezoid"), ("edgeworth", "monotonic_dominance"),
            ("trapezoid", "joint_monotonicity"), ("monotonicity", "joint_monotonicity", "unimodality"),
            ("edgeworth", "trapezoid", "monotonic_dominance", "joint_monotonicity"),
            ("range_dominance", "edgeworth"), ("joint_unimodality", "monotonicity")]
  fams = combos[(i + 3 * shard) % len(combos)]
  # several constraints of one family that share a feature (a second trust on the same main feature, dominance / joint
  # pairs with a common first or second feature): Dykstra keeps one correction term per constraint, and state shared
  # between two constraints of a family is invisible with one constraint per family
  multi = bool(set(fams) & {"edgeworth", "trapezoid", "monotonic_dominance", "range_dominance", "joint_monotonicity"}) and rng.rand() < .5
  rank = 3 if multi else int(rng.choice([2, 2, 3]))
  while True:
    sizes = [int(rng.choice([2, 3, 4, 5])) for _ in range(rank)]
    if int(np.prod(sizes)) <= 64:
      break
  units = int(rng.choice([1, 1, 2]))
  need3 = "unimodality" in fams or "joint_unimodality" in fams
  if need3 and max(sizes) < 3:
    sizes[int(rng.randint(rank))] = 3
  mono = [0] * rank
  unimod = [0] * rank
  ew, tz, mdom, rdom, jmono, junimod = [], [], [], [], [], []
  dims = list(rng.permutation(rank))
  a, b = int(dims[0]), int(dims[1])
  if set(fams) & {"edgeworth", "trapezoid"}:
    mono[a] = 1
    if rng.rand() < .3:
      mono[b] = 1
    dr = int(rng.choice([-1, 1]))
    if "edgeworth" in fams:
      ew.append([a, b, dr])
    if "trapezoid" in fams:
      tz.append([a, b, dr if rng.rand() < .6 or "edgeworth" in fams else -dr])
  if set(fams) & {"monotonic_dominance", "range_dominance"}:
    mono[a] = mono[b] = 1
    if ew or tz:
      # a feature cannot be main and conditional; dominance needs both monotone
      pass
    if "monotonic_dominance" in fams:
      mdom.append([a, b])
    if "range_dominance" in fams:
      rdom.append([a, b] if rng.rand() < .5 else [b, a])
  if "monotonicity" in fams:
    for d in range(rank):
      if rng.rand() < .6:
        mono[d] = 1
    if not any(mono):
      mono[a] = 1
  if "unimodality" in fams:
    cand = [d for d in range(rank) if sizes[d] >= 3 and not mono[d]]
    if not cand:
      d = int(np.argmax(sizes))
      mono[d] = 0
      ew = [t for t in ew if t[0] != d]
      tz = [t for t in tz if t[0] != d]
      mdom = [t for t in mdom if d not in t]
      rdom = [t for t in rdom if d not in t]
      cand = [d]
    unimod[int(rng.choice(cand))] = int(rng.choice([-1, 1]))
  if "joint_monotonicity" in fams:
    jmono.append([a, b])
  if "joint_unimodality" in fams:
    cand = [d for d in range(rank) if sizes[d] >= 3 and not mono[d] and not unimod[d]]
    if not cand:
      d = int(np.argmax(sizes))
      if mono[d]:
        mono[d] = 0
        ew = [t for t in ew if t[0] != d]
        tz = [t for t in tz if t[0] != d]
        mdom = [t for t in mdom if d not in t]
        rdom = [t for t in rdom if d not in t]
      unimod[d] = 0
      cand = [d]
    k = 1 if len(cand) == 1 or rng.rand() < .5 else 2
    junimod.append([[int(x) for x in rng.choice(cand, k, replace=False)], str(rng.choice(["valley", "peak"]))])
  if multi:
    c = int(dims[2])
    dr2 = int(rng.choice([-1, 1]))      # one direction per feature pair (opposite directions on a pair are rejected)
    if ew:
      ew.append([ew[0][0], c, dr2])
    if tz:
      tz.append([tz[0][0], c, dr2])
    if mdom:
      mono[c] = 1
      mdom.append([mdom[0][0], c] if rng.rand() < .5 else [c, mdom[0][1]])
    if rdom:
      mono[c] = 1
      rdom.append([rdom[0][0], c] if rng.rand() < .5 else [c, rdom[0][1]])
    if jmono:
      jmono.append([jmono[0][0], c] if rng.rand() < .6 else [c, jmono[0][1]])
    if (ew or tz) and mono[c] and any(t[0] == c for t in ew + tz):
      pass
  # trusts need a monotone main feature
  ew = [t for t in ew if mono[t[0]]]
  tz = [t for t in tz if mono[t[0]]]
  cfg = dict(sizes=sizes, units=units, mono=mono, unimod=unimod, ew=ew, tz=tz, mdom=mdom, rdom=rdom,
             jmono=jmono, junimod=junimod, omin=None, omax=None)
  present = set()
  for f, v in (("monotonicity", any(mono)), ("unimodality", any(unimod)), ("edgeworth", ew), ("trapezoid", tz),
               ("monotonic_dominance", mdom), ("range_dominance", rdom), ("joint_monotonicity", jmono),
               ("joint_unimodality", junimod)):
    if v:
      present.add(f)
  return cfg, sorted(present)


def gen_cases(ctx):
  rng = ctx.rng
  for i in range(ctx.n):
    if i % 5 == 4:
      cfg, _ = genpwl.pwl_config(rng, i, iters_choices=(200,), allow_cyclic=False)
      cfg["conv"] = 0
      if cfg["mono"] == 0:
        cfg["mono"] = int(rng.choice([-1, 1]))
      if cfg["omin"] is None and cfg["omax"] is None:
        cfg["omin"], cfg["omax"] = 0.0, 1.0
      cfg["clamp_min"] = bool(cfg["omin"] is not None and rng.rand() < .4)
      cfg["clamp_max"] = bool(cfg["omax"] is not None and rng.rand() < .4)
      nk = len(cfg["lengths"]) + 1
      kclass, w = genpwl.pwl_kernel(rng, nk, cfg["units"], cfg["mono"],
                                    kclass=str(rng.choice(["gauss", "farbias", "wrongsign", "ints", "rightsign"])))
      yield {"kind": "pwl", "cfg": cfg, "kclass": kclass, "w": w.tolist(), "seed": int(rng.randint(2**31 - 1))}
      continue
    cfg, fams = _gen_cfg(rng, i, ctx.shard)
    n = int(np.prod(cfg["sizes"]))
    kclass = str(rng.choice(["gauss", "gauss", "x100", "ints", "anti", "spike"]))
    w = rng.normal(size=(n, cfg["units"]))
    if kclass == "x100":
      w *= 100
    elif kclass == "ints":
      w = rng.randint(-3, 4, size=w.shape).astype(float)
    elif kclass == "anti":
      w = -np.sort(w, axis=0)
    elif kclass == "spike":
      w = np.zeros_like(w)
      w[int(rng.randint(n)), :] = float(rng.choice([-5, 5]))
    kscale = None
    if rng.rand() < .15 and float(np.abs(w).max()) > 0:
      # Dykstra's projection is scale-equivariant: a kernel of magnitude 1e-6 must converge relative to its own scale
      # (an absolute "moved less than 1e-6" stopping rule is invisible at scale 1)
      kscale = float(rng.choice([1e-3, 1e-6, 1e-9]))
      w = w * kscale
      kclass = "micro/" + kclass
    yield {"kind": "dykstra", "cfg": cfg, "fams": fams, "kclass": kclass, "kscale": kscale,
           "w": w.astype(np.float32).tolist(), "seed": int(rng.randint(2**31 - 1)),
           "layer": bool(i % 3 == 0)}


def _kw(cfg):
  t = lambda l: [tuple(x) for x in l]
  return dict(lattice_sizes=list(cfg["sizes"]), monotonicities=list(cfg["mono"]), unimodalities=list(cfg["unimod"]),
              edgeworth_trusts=t(cfg["ew"]), trapezoid_trusts=t(cfg["tz"]), monotonic_dominances=t(cfg["mdom"]),
              range_dominances=t(cfg["rdom"]), joint_monotonicities=t(cfg["jmono"]),
              joint_unimodalities=[(tuple(d), s) for d, s in cfg["junimod"]])


def _maxviol(A, W):
  if A.shape[0] == 0:
    return 0.0
  return float(max(0.0, (A @ W.astype(np.float64)).max()))


def _group_rows(name, args, kwargs, shape):
  """Rows (a.w <= 0) of the constraint group a _project_partial_* call claims
  to project onto, over the flattened `shape` (units axis included)."""
  sizes = list(shape)
  idx = np.arange(int(np.prod(sizes))).reshape(sizes)
  n = idx.size
  rows = []

  def add(pairs):
    r = np.zeros(n)
    for i, c in pairs:
      r[int(i)] += c
    rows.append(r)
  a = list(args[1:])  # after weights
  if name == "_project_partial_monotonicity":
    _, mono, unimod, d, g = a
    I = np.moveaxis(idx, d, 0)
    for k in range(g, sizes[d] - 1, 2):
      if mono[d]:
        inc = True
      else:
        first = k < sizes[d] // 2
        inc = (unimod[d] == -1 and first) or (unimod[d] == 1 and not first)
      for p, q in zip(I[k].ravel(), I[k + 1].ravel()):
        add([(p, 1), (q, -1)] if inc else [(p, -1), (q, 1)])
  elif name == "_project_partial_edgeworth":
    _, (m, c, dr), (gi, gj) = a
    I = np.moveaxis(idx, [m, c], [0, 1])
    # a negative direction is the positive rule on the reversed conditional axis
    # (so the even/odd group is counted from the far end)
    J = I if dr > 0 else I[:, ::-1]
    for i in range(gi, sizes[m] - 1, 2):
      for j in range(gj, sizes[c] - 1, 2):
        for p, q, r_, s in zip(J[i, j].ravel(), J[i + 1, j].ravel(), J[i, j + 1].ravel(), J[i + 1, j + 1].ravel()):
          add([(q, 1), (p, -1), (s, -1), (r_, 1)])      # (q-p) - (s-r) <= 0
  elif name == "_project_partial_trapezoid":
    _, (m, c, dr), g = a
    I = np.moveaxis(idx, [m, c], [0, 1])
    J = I if dr > 0 else I[:, ::-1]
    for j in range(g, sizes[c] - 1, 2):
      for p, q in zip(J[0, j].ravel(), J[0, j + 1].ravel()):
        add([(q, 1), (p, -1)])                          # low[j+1] - low[j] <= 0
      for p, q in zip(J[-1, j].ravel(), J[-1, j + 1].ravel()):
        add([(p, 1), (q, -1)])                          # high[j] - high[j+1] <= 0
  elif name == "_project_partial_monotonic_dominance":
    _, (dm, wk), (gi, gj, tri) = a
    I = np.moveaxis(idx, [dm, wk], [0, 1])
    for i in range(gi, sizes[dm] - 1, 2):
      for j in range(gj, sizes[wk] - 1, 2):
        for p, q, r_, s in zip(I[i, j].ravel(), I[i + 1, j].ravel(), I[i, j + 1].ravel(), I[i + 1, j + 1].ravel()):
          if tri == 1:
            add([(p, .5), (s, .5), (q, -1)])
          else:
            add([(r_, 1), (p, -.5), (s, -.5)])
  elif name == "_project_partial_joint_monotonicity":
    _, (d1, d2), (gi, gj, tri) = a
    I = np.moveaxis(idx, [d1, d2], [0, 1])
    for i in range(gi, sizes[d1] - 1, 2):
      for j in range(gj, sizes[d2] - 1, 2):
        for p, q, r_, s in zip(I[i, j].ravel(), I[i + 1, j].ravel(), I[i, j + 1].ravel(), I[i + 1, j + 1].ravel()):
          if tri == 1:
            add([(q, .5), (r_, .5), (s, -1)])
          else:
            add([(p, 1), (q, -.5), (r_, -.5)])
  elif name == "_project_partial_range_dominance":
    _, (dm, wk), (i, j) = a
    I = np.moveaxis(idx, [dm, wk], [0, 1])
    for wl, wf, dl, df in zip(I[i, -1].ravel(), I[i, 0].ravel(), I[-1, j].ravel(), I[0, j].ravel()):
      add([(wl, 1), (wf, -1), (dl, -1), (df, 1)])
  return np.array(rows) if rows else np.zeros((0, n))


def _junimod_rows(kwargs, shape):
  sizes = list(shape)
  dims, direction = kwargs["joint_unimodalities"]
  R = ol.build_rows(sizes, junimod=[(tuple(dims), direction)], families={"joint_unimodality"})
  vertex, offsets = tuple(kwargs["vertex"]), tuple(kwargs["offsets"])
  sel = [k for k, t in enumerate(R.tags) if tuple(t["vertex"]) == vertex and tuple(t["offsets"]) == offsets]
  return R.dense(sel)


def _judge_groups(ctx, calls):
  for name, args, kwargs, w_in, w_out in calls:
    shape = w_in.shape
    scale = core.scale_of(w_in, floor=_state.get("floor", 1.0))
    tol = core.REL_TOL * scale
    site = "_project_partial/exact-group-projection"
    if name == "_project_partial_joint_unimodality":
      A = _junimod_rows(kwargs, shape)
      if w_out is None:
        ctx.check("_project_partial/joint-unimodality-none-iff-no-rows", A.shape[0] == 0,
                  "joint unimodality group %s/%s skipped although it has rows" % (kwargs["vertex"], kwargs["offsets"]))
        continue
    else:
      A = _group_rows(name, args, kwargs, shape)
    x0 = w_in.ravel().astype(np.float64)
    out = w_out.ravel().astype(np.float64)
    if name == "_project_partial_range_dominance":
      v = _maxviol(A, out)
      ok = v <= tol
      sat = _maxviol(A, x0) <= 0
      if sat:
        ok = ok and float(np.abs(out - x0).max()) <= tol
      ctx.check("_project_partial/range-dominance-row-feasible", ok,
                "range dominance group %s leaves its row violated by %.3g or moves a satisfied row" % (list(args[3]), v))
      continue
    ref = ol.nnls_project(A, x0)
    if ref is None:
      ctx.note("oracle-unavailable:group-projection")
      continue
    e = float(np.abs(out - ref).max())
    ctx.check(site, e <= tol,
              "%s%s: output differs from the exact projection onto its group by %.3g (tol %.3g)" % (
                  name, [x for x in args[3:]] or [kwargs.get("vertex"), kwargs.get("offsets")], e, tol),
              info={"fn": name, "group_args": core.to_jsonable(list(args[2:])), "err": e}, ratio=e / tol)
    ctx.cls("group:" + name.replace("_project_partial_", ""))


def _run_dykstra(ctx, case):
  tf, lib = _ensure(ctx)
  cfg = case["cfg"]
  sizes, units = cfg["sizes"], cfg["units"]
  n = int(np.prod(sizes))
  w = np.asarray(case["w"], dtype=np.float32).reshape(n, units)
  kw = _kw(cfg)
  fams = set(case["fams"])
  ctx.cls("kernel:" + case["kclass"], "units:%d" % units, "families:" + "+".join(case["fams"]))
  A = feas.lattice_rows(cfg).dense()
  floor = 0.0 if case.get("kscale") else 1.0
  _state["floor"] = floor
  scale = core.scale_of(w, floor=floor)
  tol = core.REL_TOL * scale
  rng = np.random.RandomState(case["seed"])

  def project(x, N, graph=False):
    if graph:
      f = tf.function(lambda t: lib.project_by_dykstra(t, num_iterations=N, **kw))
      return f(tf.constant(x)).numpy()
    return lib.project_by_dykstra(tf.constant(x), num_iterations=N, **kw).numpy()

  # (e) per-group monitor: judge every partial projection of the first iterations
  _state["calls"], _state["cap"] = [], 60
  p1 = project(w, 1)
  p10 = project(w, 10)
  calls, _state["calls"] = _state["calls"], None
  _judge_groups(ctx, calls)
  p100 = project(w, 100, graph=True)
  p1000 = project(w, 1000, graph=True)
  viol = [max(_maxviol(A, p[:, u]) for u in range(units)) for p in (p1, p10, p100, p1000)]
  v0 = max(_maxviol(A, w[:, u]) for u in range(units))
  # (b) bounded progress.  Dykstra's iterates are not monotone in the violation
  # (the correction terms may re-introduce a violation that an early sweep had
  # removed: observed in=241, N=1: 0, N=10: 1.89, N=100: 7.6e-6), so no
  # monotone envelope is asserted: only the two checkpoints.
  ok_lim = viol[3] <= 1e-3 * scale and viol[2] <= 5e-2 * scale
  conv = p1000          # what the later clauses treat as "the converged result"
  if not ok_lim and viol[2] <= 5e-2 * scale and viol[3] <= 1e-2 * scale:
    # a slow instance, not a wrong one, if it keeps converging: 5000 iterations must at least halve the violation (an
    # iteration stuck at a non-zero violation does not); the converged result is then the one after 5000 iterations
    p5000 = project(w, 5000, graph=True)
    v5 = max(_maxviol(A, p5000[:, u]) for u in range(units))
    ctx.note("bounded-progress:slow-instance-extended-to-5000")
    if v5 <= max(1e-3 * scale, 0.5 * viol[3]):
      ok_lim, conv = True, p5000
  ctx.check("project_by_dykstra/bounded-progress", ok_lim,
            "violation by N: in=%.3g N=1:%.3g 10:%.3g 100:%.3g 1000:%.3g (limits: N=100 %.3g, N=1000 %.3g)" % (
                v0, viol[0], viol[1], viol[2], viol[3], 5e-2 * scale, 1e-3 * scale),
            info={"violations": [v0] + viol}, ratio=max(viol[3] / (1e-3 * scale), viol[2] / (5e-2 * scale)))
  if viol[1] > 2 * max(viol[0], 1e-6 * scale):
    ctx.note("non-monotone-violation-envelope(observed, allowed)")
  # (c) idempotence of the converged result
  again = project(conv, int(rng.choice([1, 10])))
  d = float(np.abs(again.astype(np.float64) - conv).max())
  lim_i = 1e-3 * scale if conv is p1000 else max(1e-3 * scale, 2 * max(_maxviol(A, conv[:, u]) for u in range(units)))
  ctx.check("project_by_dykstra/idempotent", d <= lim_i,
            "projecting the converged result again moves it by %.3g (limit %.3g)" % (d, lim_i), ratio=d / lim_i)
  # (d) nearest point
  ref = None
  if fams <= NEAREST:
    cols = [ol.nnls_project(A, w[:, u].astype(np.float64)) for u in range(units)]
    if any(c is None for c in cols):
      ctx.note("oracle-unavailable:nearest-point")
    else:
      ref = np.stack(cols, axis=1)
      e = float(np.abs(p1000 - ref).max())
      if 1e-3 * scale < e <= 1e-2 * scale:
        # The rate of Dykstra's (linear) convergence depends on the instance; 1e-3*scale at N=1000 is my restatement, not
        # the property.  A result that is close but not there yet gets 5000 iterations and must have at least halved its
        # distance (an iteration that converges to a wrong point does not move).
        p5000 = project(w, 5000, True)
        e5 = float(np.abs(p5000 - ref).max())
        ctx.note("nearest-point:slow-instance-extended-to-5000")
        if e5 <= max(1e-3 * scale, 0.5 * e):
          e = min(e, 1e-3 * scale)
        else:
          e = max(e, e5)
      ctx.check("project_by_dykstra/nearest-point", e <= 1e-3 * scale,
                "N=1000 result is %.3g away from the Euclidean-nearest feasible kernel (limit %.3g)" % (e, 1e-3 * scale),
                info={"err": e}, ratio=e / (1e-3 * scale))
  else:
    ctx.note("nearest-point-not-claimed(range dominance / joint unimodality)")
  # (a) feasible => unchanged, any N
  x = (np.stack([feas.lp_interior(A, rng, n)[0] for _ in range(units)], axis=1) * (case.get("kscale") or 1.0)).astype(np.float32)
  xv = max(_maxviol(A, x[:, u]) for u in range(units))
  if xv <= 1e-6 * core.scale_of(x, floor=floor):
    for N, graph in ((int(rng.choice([1, 2, 7])), False), (50, True)):
      out = project(x, N, graph)
      d = float(np.abs(out.astype(np.float64) - x).max())
      ctx.check("project_by_dykstra/feasible-unchanged", d <= 1e-4 * core.scale_of(x, floor=floor),
                "feasible kernel moved by %.3g at N=%d" % (d, N), info={"N": N, "moved": d})
  # N = 0 is the identity
  out0 = project(w, 0)
  ctx.check("project_by_dykstra/zero-iterations-identity", bool(np.array_equal(out0, w)), "N=0 changed the kernel")
  # (f) strict layer constraint with many iterations stays close to the nearest point
  if case.get("layer") and ref is not None and any(cfg["mono"]):
    shared = {}
    for t in cfg["tz"]:
      shared.setdefault(t[1], []).append(t)
    doc_exc = bool(cfg["ew"]) and any(len(v) >= 2 for v in shared.values())
    kf = bool(cfg["ew"]) and any(cfg["mono"][t[1]] for t in cfg["tz"])
    if not doc_exc and not kf:
      ll = _state["ll"]
      # slack bounds (inactive at the nearest point: 5 beyond its range, on one side or both) must not move the result -
      # they switch on the bound branches of the strict finalisation
      kwb = dict(kw)
      slack = str(rng.choice(["none", "max_only", "min_only", "both"]))
      # (for micro kernels the slack is 5 kernel scales: a bound of magnitude 5 next to a kernel of 1e-6 would round the
      # bound arithmetic at ulp(5) = 5e-7, half the kernel - the C01 row of 10.3)
      margin = 5.0 * (scale if floor == 0.0 else 1.0)
      if slack in ("max_only", "both"):
        kwb["output_max"] = float(ref.max() + margin)
      if slack in ("min_only", "both"):
        kwb["output_min"] = float(ref.min() - margin)
      ctx.cls("strict-layer:slack-bounds=" + slack)
      c = ll.LatticeConstraints(num_projection_iterations=1000, **kwb)
      outc = tf.function(lambda t: c(t))(tf.constant(w)).numpy()
      e = float(np.abs(outc - ref).max())
      ctx.check("LatticeConstraints(N=1000)/near-nearest-point", e <= 1e-2 * scale,
                "strict constraint with 1000 iterations is %.3g away from the nearest feasible kernel (limit %.3g)" % (e, 1e-2 * scale),
                info={"err": e}, ratio=e / (1e-2 * scale))
  return v0 > tol, core.digest([cfg, core.arr_digest(w)])


def _pwl_polyhedron(cfg, nk):
  """{w=(bias,heights): G w <= h} for monotonicity + bounds (+ clamps)."""
  G, h = [], []
  mono = cfg["mono"]
  for i in range(1, nk):
    r = np.zeros(nk)
    r[i] = -mono
    G.append(r)
    h.append(0.0)
  first = np.zeros(nk)
  first[0] = 1.0
  last = np.ones(nk)
  lo_end, hi_end = (first, last) if mono == 1 else (last, first)
  if cfg.get("omin") is not None:
    G.append(-lo_end)
    h.append(-cfg["omin"])
    if cfg.get("clamp_min"):
      G.append(lo_end)
      h.append(cfg["omin"])
  if cfg.get("omax") is not None:
    G.append(hi_end)
    h.append(cfg["omax"])
    if cfg.get("clamp_max"):
      G.append(-hi_end)
      h.append(-cfg["omax"])
  return np.array(G), np.array(h)


def _run_pwl(ctx, case):
  tf, _ = _ensure(ctx)
  plib = _state["plib"]
  cfg = case["cfg"]
  nk = len(cfg["lengths"]) + 1
  units = cfg["units"]
  w = np.asarray(case["w"], dtype=np.float32).reshape(nk, units)
  omin, omax = cfg.get("omin"), cfg.get("omax")
  _, _, cmn, cmx = plib.convert_all_constraints(omin, omax, cfg.get("clamp_min"), cfg.get("clamp_max"))
  ctx.cls("pwl:mono%d" % cfg["mono"], "pwl:clamp%d%d" % (bool(cfg.get("clamp_min")), bool(cfg.get("clamp_max"))), "kernel:pwl/" + case["kclass"])

  def project(x, N):
    return plib.project_all_constraints(
        weights=tf.constant(x), monotonicity=cfg["mono"], output_min=omin, output_max=omax,
        output_min_constraints=cmn, output_max_constraints=cmx, convexity=0,
        lengths=tf.constant(np.asarray(cfg["lengths"], dtype=np.float32)), num_projection_iterations=N).numpy()
  out = tf.function(lambda t: plib.project_all_constraints(
      weights=t, monotonicity=cfg["mono"], output_min=omin, output_max=omax, output_min_constraints=cmn,
      output_max_constraints=cmx, convexity=0, lengths=tf.constant(np.asarray(cfg["lengths"], dtype=np.float32)),
      num_projection_iterations=200))(tf.constant(w)).numpy()
  G, h = _pwl_polyhedron(cfg, nk)
  scale = core.scale_of(w, [b for b in (omin, omax) if b is not None])
  feasible_set = not (omin is not None and omax is not None and omin > omax)
  for u in range(units):
    ref = ol.ldp_project(G, h, w[:, u].astype(np.float64)) if feasible_set else None
    if ref is None:
      ctx.note("oracle-unavailable:pwl-ldp")
      continue
    e = float(np.abs(out[:, u] - ref).max())
    ctx.check("project_all_constraints/nearest-point", e <= 1e-3 * scale,
              "PWL projection (200 iterations) is %.3g away from the nearest feasible kernel (limit %.3g)" % (e, 1e-3 * scale),
              info={"unit": u, "err": e, "got": out[:, u].tolist(), "want": ref.tolist()}, ratio=e / (1e-3 * scale))
  rng = np.random.RandomState(case["seed"])
  x = genpwl.pwl_feasible(rng, cfg).astype(np.float32)
  viol = max(float((G @ x[:, u].astype(np.float64) - h).max()) for u in range(units))
  if viol <= 1e-6 * scale:
    for N in (int(rng.choice([1, 8])), 200):
      o = project(x, N) if N < 50 else tf.function(lambda t: plib.project_all_constraints(
          weights=t, monotonicity=cfg["mono"], output_min=omin, output_max=omax, output_min_constraints=cmn,
          output_max_constraints=cmx, convexity=0, lengths=tf.constant(np.asarray(cfg["lengths"], dtype=np.float32)),
          num_projection_iterations=N))(tf.constant(x)).numpy()
      d = float(np.abs(o.astype(np.float64) - x).max())
      ctx.check("project_all_constraints/feasible-unchanged", d <= 1e-4 * scale,
                "feasible PWL kernel moved by %.3g at %d iterations" % (d, N), info={"N": N})
  # the same claim with convexity added (the final squeeze-by-scaling path: monotone + convex/concave + bounds)
  from tflv.checks import c04
  lengths_t = tf.constant(np.asarray(cfg["lengths"], dtype=np.float32))      # outside the trace (DESIGN 10.3, grappler)
  for rep in range(6):
    lo = [None, -2.0, -0.5, 0.0, 1.0][int(rng.randint(5))]
    hi = None if (lo is not None and rng.rand() < .3) else (lo if lo is not None else 0.0) + float(rng.choice([1.0, 3.5]))
    cfg2 = dict(cfg, mono=int(rng.choice([-1, 1])), conv=int(rng.choice([-1, 1])), omin=lo, omax=hi, clamp_min=False, clamp_max=False)
    x2 = genpwl.pwl_feasible(rng, cfg2).astype(np.float32)
    sc2 = core.scale_of(x2, [b for b in (lo, hi) if b is not None])
    _, _, cmn2, cmx2 = plib.convert_all_constraints(lo, hi, False, False)
    if c04.input_violation(cfg2, x2) > 1e-6 * sc2:
      continue
    ctx.cls("pwl:convex-feasible", "pwl:convex-feasible/mono%d/conv%d/omin:%s" % (cfg2["mono"], cfg2["conv"], "neg" if (lo or 0) < 0 else ("none" if lo is None else "nonneg")))
    for N in (int(rng.choice([1, 8])), 200):
      f = lambda t: plib.project_all_constraints(
          weights=t, monotonicity=cfg2["mono"], output_min=lo, output_max=hi, output_min_constraints=cmn2,
          output_max_constraints=cmx2, convexity=cfg2["conv"], lengths=lengths_t, num_projection_iterations=N)
      o = (f if N < 50 else tf.function(f))(tf.constant(x2)).numpy()
      d = float(np.abs(o.astype(np.float64) - x2).max())
      ctx.check("project_all_constraints/feasible-unchanged", d <= 1e-4 * sc2,
                "feasible monotone (%d) + convex (%d) PWL kernel within [%s, %s] moved by %.3g at %d iterations" % (
                    cfg2["mono"], cfg2["conv"], lo, hi, d, N), info={"N": N, "cfg": cfg2, "x": x2.tolist()})
  w_viol = max(float((G @ w[:, u].astype(np.float64) - h).max()) for u in range(units))
  return w_viol > core.REL_TOL * scale, core.digest([cfg, core.arr_digest(w)])


def run_case(ctx, case):
  if case["kind"] == "pwl":
    return _run_pwl(ctx, case)
  return _run_dykstra(ctx, case)
