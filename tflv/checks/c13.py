"""C13 - Regularizers compute the documented Laplacian / torsion / Hessian /
wrinkle penalties.

Monitors: the regularizer objects' __call__ (lattice_layer.LaplacianRegularizer,
TorsionRegularizer; pwl_calibration_layer.LaplacianRegularizer,
HessianRegularizer, WrinkleRegularizer) and the Lattice / PWLCalibration
layers' losses when configured through kernel_regularizer.
Oracle O-reg: np.diff on the reshaped kernel / on the keypoint outputs.
"""
import numpy as np

from tflv import core
from tflv.gen import lattice as gen
from tflv.oracles import lattice as ol

PROPERTY = "C13"
RULE = ("case = (regularizer kind, lattice shape/units or PWL rows/cyclic, scalar or per-dimension l1/l2 incl. zeros, kernel class "
        "incl. the vanishing families: constant, additively separable, index-linear, index-quadratic); "
        "non-trivial = oracle value > 0 or the case is a must-vanish case; distinct by digest of (config, kernel)")
MIN_EVENTS = {
    "quick": {"layer.losses/oracle-equal-after-config-round-trip": 60, "regularizer/oracle-equal": 800, "regularizer/linear-in-l1-l2": 250, "regularizer/vanishes": 150,
              "layer.losses/oracle-equal": 40},
    "thorough": {"layer.losses/oracle-equal-after-config-round-trip": 1800, "regularizer/oracle-equal": 30000, "regularizer/linear-in-l1-l2": 10000, "regularizer/vanishes": 6000,
                 "layer.losses/oracle-equal": 1500},
}
ASSUMPTIONS = ["values compared with tol = 2e-5*max(1, U) where U bounds the sum of absolute operands of the penalty (float32 summation)",
               "scalar torsion amounts weight every pair by the amount itself; per-dimension amounts by the product"]
_state = {}


def setup(ctx):
  from tflv import tfenv
  tf, tfl = tfenv.setup()
  from tensorflow_lattice.python import lattice_layer, pwl_calibration_layer
  _state.update(tf=tf, tfl=tfl, ll=lattice_layer, pl=pwl_calibration_layer)


def _ensure():
  if "tf" not in _state:
    setup(None)
  return _state


def gen_cases(ctx):
  rng = ctx.rng
  for i in range(ctx.n):
    kind = ["lat_laplacian", "lat_torsion", "pwl_laplacian", "pwl_hessian", "pwl_wrinkle"][i % 5]
    units = int(rng.choice([1, 1, 2, 3]))
    amt = lambda: float(rng.choice([0.0, 0.0, 1.0, 0.3, 2.5, 1e-3]))
    if kind.startswith("lat"):
      sizes, _ = gen.lattice_sizes(rng, 300, max_rank=4)
      rank = len(sizes)
      form = str(rng.choice(["scalar", "list", "tuple", "list_with_zeros"]))
      if form == "scalar":
        l1, l2 = amt(), amt()
      else:
        l1 = [amt() for _ in range(rank)]
        l2 = [amt() for _ in range(rank)]
        if form == "list_with_zeros":
          l1[int(rng.randint(rank))] = 0.0
          l2[int(rng.randint(rank))] = 0.0
      kclass = str(rng.choice(["gauss", "big", "ints", "const", "additive", "spike"]))
      yield {"kind": kind, "sizes": sizes, "units": units, "l1": l1, "l2": l2, "form": form,
             "kclass": kclass, "via_layer": bool(rng.rand() < .15), "seed": int(rng.randint(2**31 - 1))}
    else:
      rows = int(rng.choice([2, 3, 4, 5, 8]))
      kclass = str(rng.choice(["gauss", "big", "ints", "const", "index_linear", "index_quadratic", "hugebias"]))
      yield {"kind": kind, "rows": rows, "units": units, "l1": amt(), "l2": amt(), "cyclic": bool(rng.rand() < .4),
             "kclass": kclass, "via_layer": bool(rng.rand() < .15), "seed": int(rng.randint(2**31 - 1))}


def _lat_kernel(rng, case):
  sizes, units = case["sizes"], case["units"]
  n = int(np.prod(sizes))
  kc = case["kclass"]
  if kc == "const":
    w = np.ones((n, units)) * rng.normal(size=(1, units)) * 3
  elif kc == "additive":
    grids = np.meshgrid(*[np.arange(s) for s in sizes], indexing="ij")
    cols = []
    for u in range(units):
      f = np.zeros(sizes)
      for d in range(len(sizes)):
        f = f + rng.randint(-4, 5, size=sizes[d]).astype(float)[grids[d]]   # integers: exact in float32
      cols.append(f.ravel())
    w = np.stack(cols, axis=1)
  elif kc == "big":
    w = rng.normal(size=(n, units)) * 1e3
  elif kc == "ints":
    w = rng.randint(-3, 4, size=(n, units)).astype(float)
  elif kc == "spike":
    w = np.zeros((n, units))
    w[int(rng.randint(n)), :] = 5.0
  else:
    w = rng.normal(size=(n, units))
  return w.astype(np.float32)


def _pwl_kernel(rng, case):
  rows, units = case["rows"], case["units"]
  kc = case["kclass"]
  idx = np.arange(rows, dtype=np.float64)
  if kc == "const":
    outs = np.ones((rows, units)) * rng.randint(-3, 4, size=(1, units))
  elif kc == "index_linear":
    outs = idx[:, None] * rng.randint(-3, 4, size=(1, units)) + rng.randint(-3, 4, size=(1, units))
  elif kc == "index_quadratic":
    outs = (idx ** 2)[:, None] * rng.randint(-2, 3, size=(1, units)) + idx[:, None] * rng.randint(-3, 4, size=(1, units))
  elif kc == "big":
    outs = rng.normal(size=(rows, units)) * 1e3
  elif kc == "ints":
    outs = rng.randint(-3, 4, size=(rows, units)).astype(float)
  else:
    outs = rng.normal(size=(rows, units))
  k = np.concatenate([outs[:1], np.diff(outs, axis=0)], axis=0)
  if kc == "hugebias":
    # keypoint outputs far from zero with ordinary increments: the PWL regularizers are functions of the increments only
    # (the first kernel row, the bias, cancels in every difference), so their value must not degrade with the bias
    k[0] += rng.choice([3e6, -3e6, 4e4], size=units)
  return k.astype(np.float32)


def pwl_penalty(kind, k, l1, l2, cyclic):
  outs = np.cumsum(np.asarray(k, dtype=np.float64), axis=0)
  order = {"pwl_laplacian": 1, "pwl_hessian": 2, "pwl_wrinkle": 3}[kind]
  if kind == "pwl_wrinkle" and k.shape[0] < 3:
    return 0.0, 0.0
  d = outs
  if cyclic:
    for _ in range(order):
      d = np.roll(d, -1, axis=0) - d
  else:
    for _ in range(order):
      d = np.diff(d, axis=0)
  val = l1 * np.abs(d).sum() + l2 * (d ** 2).sum()
  # rounding scale: the increments (kernel rows 1..) and their running sums - not the bias, which no difference contains
  inc = np.asarray(k, dtype=np.float64)[1:]
  S = float(max(np.abs(np.cumsum(inc, axis=0)).max(), np.abs(inc).max())) if inc.size else 0.0
  nterm = d.size
  c = 2 ** order
  U = l1 * nterm * c * S + l2 * nterm * (c * S) ** 2
  return float(val), float(U)


def lat_penalty(kind, w, sizes, l1, l2):
  if kind == "lat_laplacian":
    val = ol.laplacian(w, sizes, l1, l2)
    c = 2
  else:
    if len(sizes) == 1:
      return 0.0, 0.0
    l1e = l1 if not np.isscalar(l1) else [np.sqrt(l1)] * len(sizes)
    l2e = l2 if not np.isscalar(l2) else [np.sqrt(l2)] * len(sizes)
    val = ol.torsion(w, sizes, list(l1e), list(l2e))
    c = 4
  S = float(np.abs(w).max())
  n = w.size * len(sizes) ** (1 if c == 2 else 2)
  m1 = float(np.max(l1)) if not np.isscalar(l1) else float(l1)
  m2 = float(np.max(l2)) if not np.isscalar(l2) else float(l2)
  if c == 4 and not np.isscalar(l1):
    m1, m2 = m1 ** 2, m2 ** 2
  U = m1 * n * c * S + m2 * n * (c * S) ** 2
  return float(val), float(U)


def _scale_amt(a, f):
  return a * f if np.isscalar(a) else [x * f for x in a]


def run_case(ctx, case):
  st = _ensure()
  tf, ll, pl, tfl = st["tf"], st["ll"], st["pl"], st["tfl"]
  rng = np.random.RandomState(case["seed"])
  kind = case["kind"]
  lat = kind.startswith("lat")
  l1, l2 = case["l1"], case["l2"]
  if lat:
    sizes = case["sizes"]
    w = _lat_kernel(rng, case)
    conv = tuple if case["form"] == "tuple" else (lambda v: v)
    sz = tuple(sizes) if case["form"] == "tuple" else sizes
    cls = ll.LaplacianRegularizer if kind == "lat_laplacian" else ll.TorsionRegularizer

    def make(a, b):
      return cls(lattice_sizes=sz, l1=a if np.isscalar(a) else conv(a), l2=b if np.isscalar(b) else conv(b))

    def ref(a, b):
      return lat_penalty(kind, w, sizes, a, b)
    vanish = (case["kclass"] == "const") or (kind == "lat_torsion" and case["kclass"] == "additive")
    ctx.cls("kind:" + kind, "amounts:" + case["form"], "kernel:" + case["kclass"], "rank:%d" % len(sizes), "units:%d" % case["units"])
  else:
    w = _pwl_kernel(rng, case)
    cyc = case["cyclic"]
    cls = {"pwl_laplacian": pl.LaplacianRegularizer, "pwl_hessian": pl.HessianRegularizer, "pwl_wrinkle": pl.WrinkleRegularizer}[kind]

    def make(a, b):
      return cls(l1=a, l2=b, is_cyclic=cyc)

    def ref(a, b):
      return pwl_penalty(kind, w, a, b, cyc)
    kc = case["kclass"]
    vanish = (kc == "const") or (not cyc and ((kind == "pwl_hessian" and kc in ("index_linear",)) or
                                              (kind == "pwl_wrinkle" and kc in ("index_linear", "index_quadratic"))))
    ctx.cls("kind:" + kind, "cyclic:%s" % cyc, "kernel:" + kc, "rows:%d" % case["rows"], "units:%d" % case["units"])
  # a share of the kernels in float64 (judged at float64 resolution), a share of the evaluations inside tf.function, and the
  # regularizer object is used on another kernel first (a regularizer keeps no state between calls)
  f64 = case["seed"] % 6 == 0
  w = np.asarray(w, dtype=np.float64 if f64 else np.float32)
  reg = make(l1, l2)
  if case["seed"] % 3 == 1:
    reg(tf.constant((w[::-1] * 0.5 + 1.0).astype(w.dtype)))
    ctx.cls("regularizer:reused-object")
  if case["seed"] % 5 == 2:
    val = float(np.asarray(tf.function(lambda t: reg(t))(tf.constant(w))))
    ctx.cls("mode:graph")
  else:
    val = float(np.asarray(reg(tf.constant(w))))
  ctx.cls("dtype:float64" if f64 else "dtype:float32")
  want, U = ref(l1, l2)
  # (a bias 1e5..1e9 times the heights makes the float64 reference itself - a cumulative sum through the bias - uncertain by
  # eps64 * |bias|: such kernels keep the float32 allowance in float64 too; thorough tier, err 5.8e-10 vs 3.3e-10)
  tight = f64 and case.get("kclass") != "hugebias"
  tol = (1e-11 if tight else 2e-5) * max(1.0, U)
  e = abs(val - want)
  ctx.check("regularizer/oracle-equal", e <= tol and val >= -tol,
            "%s = %.9g, documented formula gives %.9g (err %.3g, tol %.3g)" % (kind, val, want, e, tol),
            info={"l1": l1, "l2": l2, "value": val, "want": want}, ratio=e / tol)
  if vanish:
    ctx.check("regularizer/vanishes", abs(val) <= tol, "%s should vanish on a %s kernel but is %.6g" % (kind, case["kclass"], val),
              info={"value": val})
  # linearity in (l1, l2): R(a*l1, b*l2) = a*R(l1,0) + b*R(0,l2)
  a, b = float(rng.choice([0.5, 2.0, 3.0])), float(rng.choice([0.25, 2.0, 5.0]))
  zero1 = 0.0 if np.isscalar(l1) else [0.0] * len(l1)
  zero2 = 0.0 if np.isscalar(l2) else [0.0] * len(l2)
  if lat and kind == "lat_torsion" and not np.isscalar(l1):
    # per-dimension torsion amounts enter as products: scale each by sqrt
    sa, sb = np.sqrt(a), np.sqrt(b)
  else:
    sa, sb = a, b
  r_ab = float(np.asarray(make(_scale_amt(l1, sa), _scale_amt(l2, sb))(tf.constant(w))))
  r_1 = float(np.asarray(make(l1, zero2)(tf.constant(w))))
  r_2 = float(np.asarray(make(zero1, l2)(tf.constant(w))))
  lin = a * r_1 + b * r_2
  t2 = (2e-11 if tight else 4e-5) * max(1.0, (a + b) * U)
  ctx.check("regularizer/linear-in-l1-l2", abs(r_ab - lin) <= t2 and r_1 >= -tol and r_2 >= -tol,
            "%s not linear in (l1,l2): R(a*l1,b*l2)=%.9g vs a*R(l1,0)+b*R(0,l2)=%.9g" % (kind, r_ab, lin),
            info={"a": a, "b": b})
  # through a layer's losses
  if case["via_layer"]:
    if lat:
      name = "laplacian" if kind == "lat_laplacian" else "torsion"
      layer = tfl.layers.Lattice(lattice_sizes=sizes, units=case["units"], kernel_regularizer=(name, l1, l2), dtype=str(w.dtype))
      layer.build((None, len(sizes)) if case["units"] == 1 else (None, case["units"], len(sizes)))
    else:
      name = kind.replace("pwl_", "")
      rows = case["rows"] + (1 if case["cyclic"] else 0)
      layer = tfl.layers.PWLCalibration(input_keypoints=list(np.arange(rows, dtype=float)), units=case["units"],
                                        is_cyclic=case["cyclic"], kernel_regularizer=(name, l1, l2), dtype=str(w.dtype))
      layer.build((None, 1))
    layer.kernel.assign(w)
    losses = layer.losses
    got = float(sum(np.asarray(l) for l in losses)) if losses else 0.0
    ctx.check("layer.losses/oracle-equal", abs(got - want) <= tol,
              "layer regularization loss %.9g differs from the documented %s value %.9g" % (got, kind, want))
    # the same value from a layer rebuilt from its config (clone_model / save-load path: the regularizer is restored from
    # its own get_config(), not re-derived from the layer's arguments)
    try:
      layer2 = type(layer).from_config(layer.get_config())
      layer2.build((None, len(sizes)) if (lat and case["units"] == 1) else ((None, case["units"], len(sizes)) if lat else (None, 1)))
      layer2.kernel.assign(w)
      l2_ = layer2.losses
      got2 = float(sum(np.asarray(l) for l in l2_)) if l2_ else 0.0
      ctx.check("layer.losses/oracle-equal-after-config-round-trip", abs(got2 - want) <= tol,
                "regularization loss of the layer rebuilt from its config is %.9g, documented %s value %.9g" % (got2, kind, want))
    except Exception as e:
      ctx.check("layer.losses/oracle-equal-after-config-round-trip", False,
                "rebuilding the layer from its config raised %s: %s" % (type(e).__name__, str(e)[:200]))
  return (want > 0 or vanish), core.digest([case, core.arr_digest(w)])
