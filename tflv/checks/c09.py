"""C09 - Units and examples never interact: projections are per-unit, outputs
per-row.

Monitors (paired executions of the real code):
  constraint(K)[:, u]  vs  constraint(K[:, u:u+1]);  constraint(K[:, perm]) vs
  constraint(K)[:, perm]  for LatticeConstraints, PWLCalibrationConstraints,
  CategoricalCalibrationConstraints, LinearConstraints,
  KroneckerFactoredLatticeConstraints(+ScaleConstraints);
  layer outputs of unit u after perturbing the other units' parameters / inputs;
  layer(x)[i] vs layer(x[i:i+1]) and layer(x[perm]) vs layer(x)[perm] for every
  layer, CDF, the functional forms and premade models.
Units are given very different magnitudes (x1, x10, x0.1) so that a reduction
over the wrong axis cannot hide.
"""
import numpy as np

from tflv import core
from tflv.gen import graphs
from tflv.gen import lattice as genl
from tflv.gen import premade as gp
from tflv.gen import pwl as genp

PROPERTY = "C09"
RULE = ("case = (constraint or layer kind, configuration with units >= 2, kernel with per-unit magnitudes x1/x10/x0.1 and degenerate "
        "units (all-zero, wrong-signed) mixed with regular ones, batch) ; each case runs the multi-unit / full-batch call and the per-column / per-row / "
        "permuted calls and compares; non-trivial = the multi-unit projection changed the kernel (or the layer output varies over the batch); "
        "distinct by digest of (kind, configuration, weights, inputs)")
MIN_EVENTS = {
    "quick": {"constraint/column-independent-of-other-columns": 200, "constraint/column-alone-equal": 250, "constraint/unit-permutation-equivariant": 60,
              "layer/unit-isolated": 45, "layer/row-alone-equal": 280, "layer/batch-permutation-equivariant": 70},
    "thorough": {"constraint/column-independent-of-other-columns": 12000, "constraint/column-alone-equal": 18000, "constraint/unit-permutation-equivariant": 5000,
                 "layer/unit-isolated": 3000, "layer/row-alone-equal": 16000, "layer/batch-permutation-equivariant": 4000},
}
ASSUMPTIONS = [
    "column results compared within 4 float32 ulp of max(1,|column|) (bitwise equality is the observed behaviour; the margin only guards against shape-dependent kernels inside TensorFlow)",
    "batch-row independence within 1e-6*max(1,|outputs|) (matmul blocking may differ with the batch shape)",
]
_state = {}
CONSTRAINTS = ["lattice", "pwl", "categorical", "linear", "kfl"]
LAYERS = ["lattice", "pwl", "categorical", "linear", "kfl", "cdf", "pwl_fn", "cdf_fn", "premade"]


def setup(ctx):
  from tflv import tfenv
  tf, tfl = tfenv.setup()
  import tf_keras as keras
  from tensorflow_lattice.python import (lattice_layer, pwl_calibration_layer, pwl_calibration_lib, linear_layer,
                                         categorical_calibration_layer, kronecker_factored_lattice_layer,
                                         conditional_pwl_calibration, conditional_cdf)
  _state.update(tf=tf, tfl=tfl, keras=keras, ll=lattice_layer, pl=pwl_calibration_layer, plib=pwl_calibration_lib,
                lin=linear_layer, cat=categorical_calibration_layer, kfll=kronecker_factored_lattice_layer,
                cpc=conditional_pwl_calibration, ccdf=conditional_cdf)


def _ensure():
  if "tf" not in _state:
    setup(None)
  return _state


def gen_cases(ctx):
  rng = ctx.rng
  for i in range(ctx.n):
    if i % 2 == 0:
      yield {"part": "constraint", "kind": CONSTRAINTS[(i // 2 + ctx.shard) % len(CONSTRAINTS)], "seed": int(rng.randint(2**31 - 1))}
    else:
      yield {"part": "layer", "kind": LAYERS[(i // 2 + ctx.shard) % len(LAYERS)], "seed": int(rng.randint(2**31 - 1))}


def _unit_scales(units):
  return np.array([1.0, 10.0, 0.1, 3.0])[:units]


def _degenerate_some_units(rng, k, mode_axis=-1):
  """Makes one unit degenerate (all zeros / all negative / huge) while the
  others stay regular: a guard or reduction shared across units shows up."""
  units = k.shape[mode_axis]
  if units < 2 or rng.rand() < .4:
    return k
  u = int(rng.randint(units))
  how = str(rng.choice(["zeros", "negative", "huge", "positive"]))
  sl = [slice(None)] * k.ndim
  sl[mode_axis] = u
  if how == "zeros":
    k[tuple(sl)] = 0.0
  elif how == "negative":
    k[tuple(sl)] = -np.abs(k[tuple(sl)]) - 0.1
  elif how == "positive":
    k[tuple(sl)] = np.abs(k[tuple(sl)]) + 0.1
  else:
    k[tuple(sl)] = k[tuple(sl)] * 1e3 + 50
  return k


def _cmp_cols(ctx, site, full_u, single, what, info=None, ulps=4):
  full_u, single = np.asarray(full_u, dtype=np.float64), np.asarray(single, dtype=np.float64)
  tol = ulps * core.F32_EPS * core.scale_of(full_u, single)
  ok = full_u.shape == single.shape and bool(np.all(np.isfinite(full_u) == np.isfinite(single)))
  e = float(np.nanmax(np.abs(full_u - single))) if ok and full_u.size else (0.0 if ok else float("inf"))
  if not np.isfinite(e):
    e = 0.0 if ok else float("inf")
  ctx.check(site, ok and e <= tol, "%s: differs by %.3g (%d ulp = %.3g)" % (what, e, ulps, tol), info=info, ratio=e / tol)
  if ok and e == 0.0:
    ctx.note("bitwise-equal:" + site)


def _run_constraint(ctx, case, st):
  tf = st["tf"]
  rng = np.random.RandomState(case["seed"])
  kind = case["kind"]
  units = int(rng.choice([2, 3, 4]))
  axis = 1
  if kind == "lattice":
    cfg, labels = genl.lattice_config(rng, max_vertices=120, units_choices=(units,))
    if case["seed"] % 6 == 0:
      # joint unimodality over 2-4 features listed in any order (the projection unstacks the kernel along those axes in the
      # listed order; with units > 1 the last axis of the reshaped kernel is the units axis)
      sz = [[3, 3, 3], [3, 3, 3, 3], [3, 4, 3], [3, 3, 2, 3], [4, 3, 3, 3]][int(rng.randint(5))]
      elig = [d for d in range(len(sz)) if sz[d] >= 3]
      g = [int(x) for x in rng.permutation(elig)[:int(rng.randint(2, len(elig) + 1))]]
      cfg.update(sizes=sz, mono=[0] * len(sz), unimod=[0] * len(sz), ew=[], tz=[], mdom=[], rdom=[], jmono=[],
                 junimod=[[g, str(rng.choice(["valley", "peak"]))]], omin=None, omax=None, iters=int(rng.choice([1, 2])))
      labels = ["junimod-focus:%d" % len(g)]
      ctx.cls("lattice:joint-unimodality-%d-dims" % len(g))
    n = int(np.prod(cfg["sizes"]))
    units = cfg["units"] = units
    kw = genl.constraint_kwargs(cfg)
    _, k = genl.kernel(rng, n, units, kclass=str(rng.choice(["gauss", "ints", "anti", "far_offset", "spike"])))
    make = lambda: st["ll"].LatticeConstraints(num_projection_iterations=cfg["iters"], **kw)
    desc = cfg
  elif kind == "pwl":
    cfg, labels = genp.pwl_config(rng, int(rng.randint(3)), allow_cyclic=False)
    nk = len(cfg["lengths"]) + 1
    _, k = genp.pwl_kernel(rng, nk, units, cfg["mono"])
    _, _, cmn, cmx = st["plib"].convert_all_constraints(cfg["omin"], cfg["omax"], cfg["clamp_min"], cfg["clamp_max"])
    make = lambda: st["pl"].PWLCalibrationConstraints(
        monotonicity=cfg["mono"], convexity=cfg["conv"], lengths=tf.constant(np.asarray(cfg["lengths"], dtype=np.float32)),
        output_min=cfg["omin"], output_max=cfg["omax"], output_min_constraints=cmn, output_max_constraints=cmx,
        num_projection_iterations=cfg["iters"])
    desc = cfg
  elif kind == "categorical":
    nb = int(rng.randint(2, 8))
    pairs, gk = graphs.dag_pairs(rng, list(range(nb)))
    omin = float(rng.choice([-1.0, 0.0])) if rng.rand() < .5 else None
    omax = (omin or 0.0) + 1.0 if rng.rand() < .5 else None
    k = rng.normal(size=(nb, units)).astype(np.float32)
    make = lambda: st["cat"].CategoricalCalibrationConstraints(output_min=omin, output_max=omax, monotonicities=[tuple(p) for p in pairs])
    desc = {"nb": nb, "pairs": pairs, "omin": omin, "omax": omax}
  elif kind == "linear":
    n = int(rng.randint(2, 7))
    mono = [int(rng.choice([-1, 0, 1, 1])) for _ in range(n)]
    inc = [d for d in range(n) if mono[d] == 1]
    mdom = []
    if len(inc) >= 2 and rng.rand() < .5:
      pairs, _ = graphs.dag_pairs(rng, inc)
      mdom = [(b, a) for a, b in pairs]
    order = [None, 1, 2][int(rng.randint(3))]
    k = rng.normal(size=(n, units)).astype(np.float32)
    make = lambda: st["lin"].LinearConstraints(monotonicities=mono, monotonic_dominances=mdom or None, normalization_order=order)
    desc = {"n": n, "mono": mono, "mdom": mdom, "order": order}
  else:  # kfl: kernel (1, L, units*dims, T), scale (units, T)
    L, dims, T = int(rng.choice([2, 3, 4])), int(rng.randint(1, 4)), int(rng.choice([1, 2, 3]))
    mono = [int(rng.rand() < .6) for _ in range(dims)]
    b = str(rng.choice(["none", "min", "max", "both"]))
    omin = 0.0 if b in ("min", "both") else None
    omax = 1.0 if b in ("max", "both") else None
    K = (rng.normal(size=(1, L, units, dims, T)) * _unit_scales(units)[None, None, :, None, None]).astype(np.float32)
    K = _degenerate_some_units(rng, K, mode_axis=2)
    S = rng.normal(size=(units, T)).astype(np.float32)
    if rng.rand() < .4:
      S[int(rng.randint(units))] = 0.0
    ctx.cls("constraint:kfl", "units:%d" % units, "bounds:" + b)

    def run(Ksub, Ssub):
      u = Ksub.shape[2]
      c = st["kfll"].KroneckerFactoredLatticeConstraints(units=u, scale=tf.constant(Ssub), monotonicities=mono, output_min=omin, output_max=omax)
      out = c(tf.constant(Ksub.reshape(1, L, u * dims, T))).numpy().reshape(1, L, u, dims, T)
      sc = st["kfll"].ScaleConstraints(output_min=omin, output_max=omax)(tf.constant(Ssub)).numpy()
      return out, sc
    full, fulls = run(K, S)
    for u in range(units):
      o, s_ = run(K[:, :, u:u + 1], S[u:u + 1])
      _cmp_cols(ctx, "constraint/column-alone-equal", full[:, :, u:u + 1], o, "KFL kernel constraint, unit %d alone" % u, {"unit": u, "mono": mono, "bounds": b})
      _cmp_cols(ctx, "constraint/column-alone-equal", fulls[u:u + 1], s_, "KFL scale constraint, unit %d alone" % u)
    perm = rng.permutation(units)
    op, sp = run(K[:, :, perm], S[perm])
    _cmp_cols(ctx, "constraint/unit-permutation-equivariant", full[:, :, perm], op, "KFL kernel constraint under unit permutation")
    return bool(np.abs(full - K).max() > 0), core.digest([kind, L, dims, T, mono, b, core.arr_digest(K, S)])
  k = (k.astype(np.float64) * _unit_scales(units)[None, :]).astype(np.float32)
  k = _degenerate_some_units(rng, k, mode_axis=1)
  c = make()
  full = c(tf.constant(k)).numpy()
  ctx.cls("constraint:" + kind, "units:%d" % units)
  # Decisive test (same tensor shape, hence the same TensorFlow kernels and SIMD lanes): column u of the result must
  # not change when the OTHER columns are replaced by different / degenerate content.
  for u in range(units):
    k2 = k.copy()
    for v in range(units):
      if v != u:
        how = int(rng.randint(4))
        k2[:, v] = [k[:, v] * -3.0 + 7.0, np.zeros(k.shape[0]), -np.abs(k[:, v]) - 0.5, rng.normal(size=k.shape[0]) * 100.0][how]
    other = make()(tf.constant(k2.astype(np.float32))).numpy()
    _cmp_cols(ctx, "constraint/column-independent-of-other-columns", full[:, u:u + 1], other[:, u:u + 1],
              "%s constraint: column %d changes when the other columns are replaced" % (kind, u), {"unit": u, "config": core.to_jsonable(desc)})
  # Different tensor shapes (column alone, subsets, permutations) go through differently vectorised TensorFlow kernels; the
  # ulp-level differences are amplified by PWL convexity chains with very unequal segment lengths (0.0137 observed for
  # lengths 0.01 .. 7 at 30 iterations), so for those configurations only the same-shape test above is asserted.
  if kind == "pwl" and (desc.get("conv") or (len(desc.get("lengths", [])) > 12 and int(desc.get("iters", 0)) > 1)):
    # (also: an iterated projection of a long calibrator - 39 heights, 8-30 Dykstra iterations - where the non-smooth steps
    # (max/min against the bounds) amplify a shape-dependent last-bit difference to 3e-4 at scale 1; thorough tier)
    ctx.note("shape-changing comparisons skipped: PWL convexity chain / long iterated projection amplifies shape-dependent rounding")
  else:
    # An iterated PWL projection (Dykstra, up to 200 iterations, bounds and clamps) accumulates the shape-dependent
    # rounding too (4.6e-5 at scale 3 after 30 iterations, thorough tier): 4 ulp per iteration for the shape-changing
    # comparisons; a leak between units is O(0.1 * scale) and the same-shape test above stays at 4 ulp.
    ulps = 4 * (1 + int(desc.get("iters", 0))) if kind == "pwl" else 4
    for u in range(units):
      single = make()(tf.constant(k[:, u:u + 1])).numpy()
      _cmp_cols(ctx, "constraint/column-alone-equal", full[:, u:u + 1], single, "%s constraint, column %d alone" % (kind, u),
                {"unit": u, "config": core.to_jsonable(desc)}, ulps=ulps)
    perm = rng.permutation(units)
    fp = make()(tf.constant(k[:, perm])).numpy()
    _cmp_cols(ctx, "constraint/unit-permutation-equivariant", full[:, perm], fp, "%s constraint under unit permutation %s" % (kind, perm.tolist()), ulps=ulps)
    if units >= 3:
      sub = [0, units - 1]
      fs = make()(tf.constant(k[:, sub])).numpy()
      _cmp_cols(ctx, "constraint/column-alone-equal", full[:, sub], fs, "%s constraint, unit subset %s" % (kind, sub), ulps=ulps)
  if kind == "lattice" and labels and str(labels[0]).startswith("junimod-focus"):
    # the same group listed in other orders: each listing is a configuration of its own (the kernel is unstacked along the
    # axes in the listed order), and each must keep the units apart
    g0, dr = desc["junimod"][0]
    for _ in range(4 if len(g0) >= 3 else 1):
      g2 = [int(x) for x in rng.permutation(g0)]
      kw2 = dict(kw, joint_unimodalities=[(tuple(g2), dr)])
      mk2 = lambda: st["ll"].LatticeConstraints(num_projection_iterations=desc["iters"], **kw2)
      f2 = mk2()(tf.constant(k)).numpy()
      u = int(rng.randint(units))
      single = mk2()(tf.constant(k[:, u:u + 1])).numpy()
      _cmp_cols(ctx, "constraint/column-alone-equal", f2[:, u:u + 1], single, "lattice constraint, joint unimodality listed as %s, column %d alone" % (g2, u),
                {"unit": u, "config": core.to_jsonable(dict(desc, junimod=[[g2, dr]]))})
  return bool(np.abs(full - k).max() > 0), core.digest([kind, core.to_jsonable(desc), core.arr_digest(k)])


def _rows_check(ctx, f, x, what, pick=None):
  """f: batch -> np array (B, ...); x: np array or list of arrays with batch
  axis 0.  Row i alone and a permuted batch must reproduce the full call."""
  def take(idx):
    return [a[idx] for a in x] if isinstance(x, list) else x[idx]
  B = (x[0] if isinstance(x, list) else x).shape[0]
  y = f(take(np.arange(B)))
  tol = 1e-6 * core.scale_of(y)
  rng = np.random.RandomState(B)
  for i in (pick if pick is not None else [0, B // 2, B - 1]):
    yi = f(take(np.array([i])))
    e = float(np.nanmax(np.abs(np.asarray(yi, dtype=np.float64)[0] - np.asarray(y, dtype=np.float64)[i])))
    ctx.check("layer/row-alone-equal", e <= tol, "%s: row %d alone differs from the batched result by %.3g" % (what, i, e), ratio=e / tol)
  perm = rng.permutation(B)
  yp = f(take(perm))
  e = float(np.nanmax(np.abs(np.asarray(yp, dtype=np.float64) - np.asarray(y, dtype=np.float64)[perm])))
  ctx.check("layer/batch-permutation-equivariant", e <= tol, "%s: permuting the batch changes per-example outputs by %.3g" % (what, e), ratio=e / tol)
  sub = np.array([B - 1, 0])
  ys = f(take(sub))
  e = float(np.nanmax(np.abs(np.asarray(ys, dtype=np.float64) - np.asarray(y, dtype=np.float64)[sub])))
  ctx.check("layer/row-alone-equal", e <= tol, "%s: a 2-row subset differs from the batched result by %.3g" % (what, e), ratio=e / tol)
  return float(np.nanmax(y) - np.nanmin(y))


def _unit_isolation(ctx, what, call, params, x, units, perturb_x=True):
  """call(params, x) -> (B, units).  Perturbing unit v's parameters/inputs must
  leave every other unit's output untouched."""
  base = np.asarray(call(params, x), dtype=np.float64)
  tol = 4 * core.F32_EPS * core.scale_of(base)
  for v in range(units):            # every unit in turn: a leak from one particular unit (say unit 0) must not be missed
    p2 = []
    for (arr, axis) in params:
      a = arr.copy()
      if axis is not None:
        sl = [slice(None)] * a.ndim
        sl[axis] = v
        a[tuple(sl)] = a[tuple(sl)] * -3.0 + 7.0
      p2.append((a, axis))
    x2 = x
    if perturb_x and x.ndim >= 2 and x.shape[1] == units:
      x2 = x.copy()
      x2[:, v] = x2[:, v] * 0.5 + 0.3
    pert = np.asarray(call(p2, x2), dtype=np.float64)
    others = [u for u in range(units) if u != v]
    e = float(np.nanmax(np.abs(pert[:, others] - base[:, others]))) if others else 0.0
    ctx.check("layer/unit-isolated", e <= tol, "%s: changing unit %d's parameters/inputs moves other units' outputs by %.3g" % (what, v, e),
              info={"unit": v}, ratio=e / tol)


def _run_layer(ctx, case, st):
  tf, tfl = st["tf"], st["tfl"]
  rng = np.random.RandomState(case["seed"])
  kind = case["kind"]
  units = int(rng.choice([2, 3]))
  B = 7
  ctx.cls("layer:" + kind)
  spread = 1.0
  if kind == "lattice":
    sizes, _ = genl.lattice_sizes(rng, 60, max_rank=3)
    interp = str(rng.choice(["hypercube", "simplex"]))
    layer = tfl.layers.Lattice(lattice_sizes=sizes, units=units, interpolation=interp)
    x = rng.uniform(-0.5, np.array(sizes) - 0.5, size=(B, units, len(sizes))).astype(np.float32)
    layer(tf.constant(x))
    K = (rng.normal(size=layer.kernel.shape) * _unit_scales(units)).astype(np.float32)

    def call(params, xx):
      layer.kernel.assign(params[0][0])
      return layer(tf.constant(xx)).numpy()
    _unit_isolation(ctx, "Lattice(%s)" % interp, call, [(K, 1)], x, units)
    layer.kernel.assign(K)
    spread = _rows_check(ctx, lambda xx: layer(tf.constant(xx)).numpy(), x, "Lattice(%s)" % interp)
  elif kind == "pwl":
    nk = int(rng.choice([2, 4, 6]))
    kp = np.concatenate([[0.0], np.cumsum(rng.choice([.5, 1., 2.], size=nk - 1))])
    wide = bool(rng.rand() < .6)
    learned = bool(rng.rand() < .3)
    layer = tfl.layers.PWLCalibration(input_keypoints=kp.tolist(), units=units, impute_missing=True, missing_input_value=-7.0,
                                      input_keypoints_type="learned_interior" if learned else "fixed")
    x = rng.uniform(-1, kp[-1] + 1, size=(B, units if wide else 1)).astype(np.float32)
    x[1, 0] = -7.0
    layer(tf.constant(x))
    K = (rng.normal(size=layer.kernel.shape) * _unit_scales(units)).astype(np.float32)
    M = rng.normal(size=layer.missing_output.shape).astype(np.float32)
    params = [(K, 1), (M, 1)]
    if learned:
      params.append((rng.normal(size=layer.interpolation_logits.shape).astype(np.float32), 0))

    def call(params, xx):
      layer.kernel.assign(params[0][0])
      layer.missing_output.assign(params[1][0])
      if learned:
        layer.interpolation_logits.assign(params[2][0])
      return layer(tf.constant(xx)).numpy()
    _unit_isolation(ctx, "PWLCalibration", call, params, x, units, perturb_x=wide)
    call(params, x)
    spread = _rows_check(ctx, lambda xx: layer(tf.constant(xx)).numpy(), x, "PWLCalibration")
  elif kind == "categorical":
    nb = int(rng.randint(2, 6))
    layer = tfl.layers.CategoricalCalibration(num_buckets=nb, units=units, default_input_value=-1)
    x = rng.randint(0, nb, size=(B, units)).astype(np.int32)
    x[2, 0] = -1
    layer(tf.constant(x))
    K = (rng.normal(size=layer.kernel.shape) * _unit_scales(units)).astype(np.float32)

    def call(params, xx):
      layer.kernel.assign(params[0][0])
      return layer(tf.constant(xx)).numpy()
    _unit_isolation(ctx, "CategoricalCalibration", call, [(K, 1)], x, units, perturb_x=False)
    layer.kernel.assign(K)
    spread = _rows_check(ctx, lambda xx: layer(tf.constant(xx)).numpy(), x, "CategoricalCalibration")
  elif kind == "linear":
    n = int(rng.randint(1, 5))
    layer = tfl.layers.Linear(num_input_dims=n, units=units, input_min=[0.0] * n, input_max=[1.0] * n)
    x = rng.uniform(-0.5, 1.5, size=(B, units, n)).astype(np.float32)
    layer(tf.constant(x))
    K = (rng.normal(size=layer.kernel.shape) * _unit_scales(units)).astype(np.float32)
    bb = rng.normal(size=layer.bias.shape).astype(np.float32)

    def call(params, xx):
      layer.kernel.assign(params[0][0])
      layer.bias.assign(params[1][0])
      return layer(tf.constant(xx)).numpy()
    _unit_isolation(ctx, "Linear", call, [(K, 1), (bb, 0)], x, units)
    call([(K, 1), (bb, 0)], x)
    spread = _rows_check(ctx, lambda xx: layer(tf.constant(xx)).numpy(), x, "Linear")
  elif kind == "kfl":
    L, dims, T = int(rng.choice([2, 3])), int(rng.randint(1, 4)), int(rng.choice([1, 2]))
    layer = tfl.layers.KroneckerFactoredLattice(lattice_sizes=L, units=units, num_terms=T)
    x = rng.uniform(-0.5, L - 0.5, size=(B, units, dims)).astype(np.float32)
    layer(tf.constant(x))
    K = rng.normal(size=(1, L, units, dims, T)).astype(np.float32)
    S = rng.normal(size=layer.scale.shape).astype(np.float32)
    bb = rng.normal(size=layer.bias.shape).astype(np.float32)

    def call(params, xx):
      layer.kernel.assign(params[0][0].reshape(layer.kernel.shape))
      layer.scale.assign(params[1][0])
      layer.bias.assign(params[2][0])
      return layer(tf.constant(xx)).numpy()
    _unit_isolation(ctx, "KroneckerFactoredLattice", call, [(K, 2), (S, 0), (bb, 0)], x, units)
    call([(K, 2), (S, 0), (bb, 0)], x)
    spread = _rows_check(ctx, lambda xx: layer(tf.constant(xx)).numpy(), x, "KroneckerFactoredLattice")
  elif kind == "cdf":
    D = int(rng.choice([1, 2, 4]))
    red = str(rng.choice(["mean", "geometric_mean", "none"]))
    layer = tfl.layers.CDF(num_keypoints=int(rng.choice([1, 3])), units=units * 2, activation=str(rng.choice(["relu6", "sigmoid"])),
                           reduction=red, sparsity_factor=int(rng.choice([1, 2])) if D % 2 == 0 else 1)
    x = (rng.normal(size=(B, D)) * 2).astype(np.float32)
    layer(tf.constant(x))
    layer.kernel.assign(rng.normal(size=layer.kernel.shape).astype(np.float32))
    spread = _rows_check(ctx, lambda xx: layer(tf.constant(xx)).numpy(), x, "CDF(%s)" % red)
  elif kind == "pwl_fn":
    cpc = st["cpc"]
    nk = int(rng.choice([3, 5]))
    mono = str(rng.choice(["none", "increasing"]))
    cmin = bool(mono == "increasing" and rng.rand() < .4)
    cmax = bool(mono == "increasing" and rng.rand() < .4)
    cyc = bool(mono == "none" and rng.rand() < .3)
    missing = str(rng.choice(["no", "fixed", "derived", "derived"]))
    miv = (0.0 if rng.rand() < .3 else -1.0) if missing != "no" else None
    mov = 0.25 if missing == "fixed" else None
    out_size = nk - cmin - cmax - cyc + (missing == "derived")
    # documented forms of the per-example keypoint parameters: per unit (B, units, P), or shared by all units as
    # (B, 1, P) / (B, P)
    kin_form = str(rng.choice(["per_unit", "per_unit", "shared_3d", "shared_2d"]))
    kin = rng.normal(size=(B, units, nk - 2)).astype(np.float32)
    if kin_form == "shared_3d":
      kin = kin[:, :1, :]
    elif kin_form == "shared_2d":
      kin = kin[:, 0, :]
    ctx.cls("pwl_fn:kin_form=" + kin_form)
    kout = (rng.normal(size=(B, units, out_size)) * 2).astype(np.float32)
    x = rng.uniform(-0.2, 1.2, size=(B, units)).astype(np.float32)
    if miv is not None:
      x[rng.rand(B, units) < .4] = miv          # missing inputs in any unit
    kwp = dict(units=units, monotonicity=mono, clamp_min=cmin, clamp_max=cmax, is_cyclic=cyc, missing_input_value=miv, missing_output_value=mov)
    ctx.cls("pwl_fn:missing=" + missing, "pwl_fn:clamp=%d%d" % (cmin, cmax), "pwl_fn:cyclic=%s" % cyc)

    def f(arrs):
      return cpc.pwl_calibration_fn(tf.constant(arrs[0]), tf.constant(arrs[1]), tf.constant(arrs[2]), **kwp).numpy()
    spread = _rows_check(ctx, f, [x, kin, kout], "pwl_calibration_fn")

    def call(params, xx):
      return cpc.pwl_calibration_fn(tf.constant(xx), tf.constant(params[0][0]), tf.constant(params[1][0]), **kwp).numpy()
    _unit_isolation(ctx, "pwl_calibration_fn", call, [(kin, 1 if kin_form == "per_unit" else None), (kout, 1)], x, units)
  elif kind == "cdf_fn":
    ccdf = st["ccdf"]
    D, nkp = int(rng.choice([1, 2, 3])), int(rng.choice([1, 3]))
    red = str(rng.choice(["mean", "geometric_mean", "none"]))
    loc = rng.normal(size=(B, D, nkp, units)).astype(np.float32)
    sc = np.abs(rng.normal(size=(B, D, 1, 1))).astype(np.float32)
    x = (rng.normal(size=(B, D)) * 2).astype(np.float32)

    def f(arrs):
      return ccdf.cdf_fn(tf.constant(arrs[0]), tf.constant(arrs[1]), tf.constant(arrs[2]), units=units, reduction=red,
                         activation="sigmoid").numpy()
    spread = _rows_check(ctx, f, [x, loc, sc], "cdf_fn(%s)" % red)
  else:  # premade
    desc = gp.describe(rng, kind=str(rng.choice(["linear", "lattice", "ens_explicit", "rtl", "lattice_kfl"])), allow_convexity=False, nf=int(rng.randint(2, 4)))
    model = gp.build(desc)
    cols = []
    for ftr in desc["features"]:
      cols.append(rng.randint(0, ftr["num_buckets"], size=B) if ftr["type"] in ("cat", "catnone") else rng.uniform(-1, 4, size=B))
    X = gp.model_inputs(desc, cols)
    ctx.cls("premade:" + desc["kind"])
    spread = _rows_check(ctx, lambda xx: np.asarray(model(xx if not isinstance(xx, list) else [tf.constant(a) for a in xx])), X, "premade %s" % desc["kind"])
  return spread > 0, core.digest([kind, case["seed"]])


def run_case(ctx, case):
  st = _ensure()
  if case["part"] == "constraint":
    return _run_constraint(ctx, case, st)
  return _run_layer(ctx, case, st)
