"""C04 - PWLCalibration weight constraint returns keypoint outputs meeting all
its limits; feasible kernels unchanged.

Monitors: PWLCalibrationConstraints.__call__, pwl_calibration_lib.project_all_constraints,
layer path (kernel.constraint + keypoints_outputs()), NaiveBoundsConstraints.__call__
(missing output), and an attribution hook on pwl_calibration_lib._finalize_constraints
(entering / returned bias) used only by the known-finding classifier.
Oracle O-pwlfeas (float64, per unit): exact sign of heights, bounds of the
cumulative sums, slope ordering, clamp equality.
"""
import numpy as np

from tflv import core
from tflv import findings
from tflv import modes
from tflv import monitors
from tflv.gen import pwl as gen

PROPERTY = "C04"
RULE = ("case = (monotonicity, convexity, bounds, clamps, cyclic, units, keypoint spacing, iterations, entry point, kernel class); "
        "non-trivial = at least one constraint configured and (the input kernel violated one of them, or it is a feasible-must-stay-unchanged case); "
        "distinct by digest of (config, entry, kernel)")
MIN_EVENTS = {
    "quick": {"PWLCalibrationConstraints.__call__/pwlfeas": 200, "project_all_constraints/pwlfeas": 100,
              "PWLCalibration.layer/pwlfeas": 60, "NaiveBoundsConstraints.__call__/exact": 30,
              "feasible-unchanged": 150},
    "thorough": {"PWLCalibrationConstraints.__call__/pwlfeas": 20000, "project_all_constraints/pwlfeas": 8000,
                 "PWLCalibration.layer/pwlfeas": 2000, "NaiveBoundsConstraints.__call__/exact": 1000,
                 "feasible-unchanged": 5000},
}
ASSUMPTIONS = [
    "tolerance 1e-5*max(1,|w_in|,|keypoint outputs|,|bounds|) for bounds/clamps; height signs exact; slopes compared with the rounding of each height divided by its segment length",
    "documented relaxation: convexity residual tolerated when bounds are set without monotonicity; clamp residual tolerated when combined with convexity",
    "clamps are generated only together with monotonicity (clamp without monotonicity is the C16 known finding KF-C16-b)",
]

_state = {}


def setup(ctx):
  from tflv import tfenv
  tf, tfl = tfenv.setup()
  from tensorflow_lattice.python import pwl_calibration_layer as pl
  from tensorflow_lattice.python import pwl_calibration_lib as plib
  _state.update(tf=tf, pl=pl, plib=plib, fin=None)
  if "mon" not in _state:
    class _Null(object):
      def exception(self, *a, **k):
        pass
    mon = monitors.Monitors(ctx if ctx is not None else _Null())

    def pre(*a, **k):
      return None

    def post(c, site, snap, args, kwargs, out):
      bias = kwargs.get("bias", args[0] if args else None)
      if monitors.is_concrete(bias, out):
        _state["fin"] = {"bias_in": monitors.npy(bias), "out": monitors.npy(out)}
    mon.wrap(plib, "_finalize_constraints", post, site="pwl_calibration_lib._finalize_constraints")
    _state["mon"] = mon


def _ensure():
  if "tf" not in _state:
    setup(None)
  return _state["tf"], _state["pl"], _state["plib"]


def oracle(cfg, w_in, w_out):
  """Per-unit report. Returns list of failures dict(kind, unit, amount, tol)."""
  mono, conv = cfg["mono"], cfg["conv"]
  omin, omax = cfg.get("omin"), cfg.get("omax")
  lengths = np.asarray(cfg["lengths"], dtype=np.float64)
  p = np.asarray(w_out, dtype=np.float64)
  fails, ratios = [], []
  if not np.all(np.isfinite(p)):
    return [dict(kind="nonfinite", unit=-1, amount=float("inf"), tol=0)], []
  sums = np.cumsum(p, axis=0)
  scale = core.scale_of(w_in, sums, [b for b in (omin, omax) if b is not None])
  tol = core.REL_TOL * scale
  has_bounds = omin is not None or omax is not None
  for u in range(p.shape[1]):
    h = p[1:, u]
    if mono == 1 and h.size and h.min() < 0:
      fails.append(dict(kind="sign", unit=u, amount=float(-h.min()), tol=0.0))
    if mono == -1 and h.size and h.max() > 0:
      fails.append(dict(kind="sign", unit=u, amount=float(h.max()), tol=0.0))
    if omin is not None:
      v = core.f32(omin) - float(sums[:, u].min())
      if v > tol:
        fails.append(dict(kind="lower", unit=u, amount=v, tol=tol))
      else:
        ratios.append(max(v, 0) / tol)
    if omax is not None:
      v = float(sums[:, u].max()) - core.f32(omax)
      if v > tol:
        fails.append(dict(kind="upper", unit=u, amount=v, tol=tol))
      else:
        ratios.append(max(v, 0) / tol)
    if conv != 0 and h.size >= 2:
      if mono == 0 and has_bounds:
        pass  # documented relaxation
      else:
        s = h / lengths[:len(h)]
        v = conv * (s[:-1] - s[1:])            # positive = violated
        hs = max(1.0, float(np.abs(p[:, u]).max()), float(np.abs(np.asarray(w_in)[:, u]).max()))
        t = core.REL_TOL * hs * (1.0 / lengths[:len(h) - 1] + 1.0 / lengths[1:len(h)])
        k = int(np.argmax(v - t))
        if v[k] > t[k]:
          fails.append(dict(kind="convexity", unit=u, amount=float(v[k]), tol=float(t[k]), where=k))
        else:
          ratios.append(float(np.max(np.maximum(v, 0) / t)))
    if conv == 0 and mono != 0 and cfg.get("iters", 1) > 0:
      # the clamp at the *starting* end is the bias itself, which the projection sets to the bound: exact, however far
      # outside the incoming bias was (bit-exact on 189 cases with biases up to 1e9; the far end carries heights' rounding)
      start = float(p[0, u])
      if mono == 1 and cfg.get("clamp_min") and omin is not None and start != core.f32(omin):
        fails.append(dict(kind="clamp_start_exact", unit=u, amount=abs(start - core.f32(omin)), tol=0.0))
      if mono == -1 and cfg.get("clamp_max") and omax is not None and start != core.f32(omax):
        fails.append(dict(kind="clamp_start_exact", unit=u, amount=abs(start - core.f32(omax)), tol=0.0))
    if conv == 0 and mono != 0:
      first, last = float(sums[0, u]), float(sums[-1, u])
      lo_end, hi_end = (first, last) if mono == 1 else (last, first)
      if cfg.get("clamp_min") and omin is not None:
        v = abs(lo_end - core.f32(omin))
        if v > tol:
          fails.append(dict(kind="clamp_min", unit=u, amount=v, tol=tol))
      if cfg.get("clamp_max") and omax is not None:
        v = abs(hi_end - core.f32(omax))
        if v > tol:
          fails.append(dict(kind="clamp_max", unit=u, amount=v, tol=tol))
  return fails, ratios


def input_violation(cfg, w):
  """Largest violation of the configured constraints by an input kernel (for
  the non-trivial rule and the feasible-unchanged precondition). Convexity and
  clamps always included here (a feasible input must satisfy all)."""
  c2 = dict(cfg)
  fails, _ = oracle(c2, w, w)
  worst = max([f["amount"] - f["tol"] for f in fails] + [0.0])
  # relaxed families are not reported by oracle(); evaluate them strictly here
  p = np.asarray(w, dtype=np.float64)
  lengths = np.asarray(cfg["lengths"], dtype=np.float64)
  if cfg["conv"] != 0 and p.shape[0] >= 3:
    s = p[1:] / lengths[:p.shape[0] - 1, None]
    worst = max(worst, float((cfg["conv"] * (s[:-1] - s[1:])).max()))
  sums = np.cumsum(p, axis=0)
  if cfg["mono"] != 0:
    lo_end, hi_end = (sums[0], sums[-1]) if cfg["mono"] == 1 else (sums[-1], sums[0])
    if cfg.get("clamp_min") and cfg.get("omin") is not None:
      worst = max(worst, float(np.abs(lo_end - cfg["omin"]).max()))
    if cfg.get("clamp_max") and cfg.get("omax") is not None:
      worst = max(worst, float(np.abs(hi_end - cfg["omax"]).max()))
  return worst


def judge(ctx, site, cfg, w_in, w_out, fin=None, w_cls=None):
  """w_cls: the output of the eager pass that fed the attribution hook `fin` (graph-mode cases): the mechanism
  predicate compares the hook's bias with the returned one, which is only meaningful within one execution."""
  fails, ratios = oracle(cfg, w_in, w_out)
  for r in ratios:
    ctx.near(r, site)
  if cfg["conv"] != 0 and cfg["mono"] == 0 and (cfg.get("omin") is not None or cfg.get("omax") is not None):
    ctx.note("documented-relaxation:convexity+bounds-without-monotonicity")
  if cfg["conv"] != 0 and (cfg.get("clamp_min") or cfg.get("clamp_max")):
    ctx.note("documented-relaxation:clamp+convexity")
  if not fails:
    ctx.check(site + "/pwlfeas", True)
  for f in fails:
    fk = findings.classify_c04(cfg, f, w_in, w_out if w_cls is None else w_cls, fin)
    ctx.check(site + "/pwlfeas", False,
              "%s violated for unit %d by %.3g (tol %.3g)" % (f["kind"], f["unit"], f["amount"], f["tol"]),
              info=f, finding=fk)
  return fails


def gen_cases(ctx):
  rng = ctx.rng
  iters_choices = (0, 1, 2, 8, 30) if ctx.tier == "quick" else (0, 1, 2, 8, 30, 200)
  for i in range(ctx.n):
    cfg, labels = gen.pwl_config(rng, i, iters_choices)
    entry = ["constraint", "constraint", "lib", "layer"][i % 4]
    if cfg["cyclic"]:
      entry = "layer"
    mode = str(rng.choice(["random", "random", "feasible", "near_feasible"]))
    nk = len(cfg["lengths"]) + 1
    kclass = None
    w = None
    if mode == "random":
      kclass, w = gen.pwl_kernel(rng, nk, cfg["units"], cfg["mono"])
      if rng.rand() < .1:
        kclass = "hugebias/" + kclass           # first keypoint output far outside any bound (1e5 .. 1e9)
        w[0] = rng.choice([4.2e7, -4.2e7, 1e9, -1e9, 3e5], size=w.shape[1])
      w = w.tolist()
    kp_offset = float(rng.choice([5e7, 1.7e9, -3e6])) if (entry == "layer" and rng.rand() < .3) else 0.0
    learned = bool(entry == "layer" and cfg["conv"] == 0 and not cfg["cyclic"] and not kp_offset and nk > 2 and rng.rand() < .4)
    yield {"kind": entry, "cfg": cfg, "mode": mode, "kclass": kclass, "w": w, "kp_offset": kp_offset, "learned_keypoints": learned,
           "kseed": int(rng.randint(2**31 - 1)), "labels": labels,
           "exec": modes.pick(rng, (0.7, 0.3, 0.0), allow=("eager", "graph"))}


def _kernel(case):
  cfg = case["cfg"]
  nk = len(cfg["lengths"]) + 1
  if case.get("w") is not None:
    return np.asarray(case["w"], dtype=np.float32).reshape(nk, cfg["units"])
  rng = np.random.RandomState(case["kseed"])
  w = gen.pwl_feasible(rng, cfg)
  if case["mode"] == "near_feasible":
    w = w + rng.normal(size=w.shape) * 1e-3
  w = w.astype(np.float32)
  case["w"] = w.tolist()
  return w


def run_case(ctx, case):
  tf, pl, plib = _ensure()
  cfg = case["cfg"]
  w = _kernel(case)
  ctx.cls(*case.get("labels", []))
  ctx.cls("entry:" + case["kind"], "kernel:" + str(case.get("kclass") or case["mode"]))
  omin, omax = cfg.get("omin"), cfg.get("omax")
  _, _, cmn, cmx = plib.convert_all_constraints(omin, omax, cfg.get("clamp_min"), cfg.get("clamp_max"))
  lengths32 = np.asarray(cfg["lengths"], dtype=np.float32)
  in_viol = input_violation(cfg, w)
  scale_in = core.scale_of(w, [b for b in (omin, omax) if b is not None])
  feasible_in = in_viol <= 1e-6 * scale_in
  _state["fin"] = None
  kind = case["kind"]
  ex = case.get("exec", "eager")
  ctx.cls("exec:" + ex)
  if kind == "constraint":
    c = pl.PWLCalibrationConstraints(
        monotonicity=cfg["mono"], convexity=cfg["conv"], lengths=tf.constant(lengths32),
        output_min=omin, output_max=omax, output_min_constraints=cmn, output_max_constraints=cmx,
        num_projection_iterations=cfg["iters"])
    w_cls = None
    if ex != "eager":
      w_cls = c(tf.constant(w)).numpy()     # eager pass only feeds the _finalize_constraints hook used to attribute failures
    out = modes.call(tf, ex, c, tf.constant(w)).numpy()
    if w_cls is not None and not float(np.abs(out.astype(np.float64) - w_cls).max()) <= 1e-3 * core.scale_of(w, out):
      w_cls, _state["fin"] = None, None     # graph and eager disagree: nothing to attribute
    site = "PWLCalibrationConstraints.__call__"
    fails = judge(ctx, site, cfg, w, out, _state["fin"], w_cls)
    if not fails and input_violation(cfg, out) <= 1e-6 * core.scale_of(out):
      out2 = modes.call(tf, ex, c, tf.constant(out)).numpy()
      d = float(np.abs(out2.astype(np.float64) - out).max())
      t = 1e-4 * core.scale_of(out, [b for b in (omin, omax) if b is not None])
      ctx.check("feasible-unchanged", d <= t, "constraint moved its own feasible output by %.3g (tol %.3g)" % (d, t),
                info={"entry": site, "moved": d}, ratio=d / t)
  elif kind == "lib":
    # lengths is created outside the traced function, as the layer does (an eager tensor captured by the graph).  A
    # tf.constant created *inside* the trace lets TF 2.21's grappler remapper rewrite Maximum(Unpack:1, Mul(Unpack:0,
    # Const)) in _approximately_project_convexity into LeakyRelu(Unpack:0) - a TensorFlow miscompilation (DESIGN 10.3),
    # not something tensorflow/lattice does or can be judged for.
    lengths_t = tf.constant(lengths32)

    def proj(t):
      return plib.project_all_constraints(
          weights=t, monotonicity=cfg["mono"], output_min=omin, output_max=omax,
          output_min_constraints=cmn, output_max_constraints=cmx, convexity=cfg["conv"],
          lengths=lengths_t, num_projection_iterations=cfg["iters"])
    w_cls = None
    if ex != "eager":
      w_cls = proj(tf.constant(w)).numpy()
    out = modes.call(tf, ex, proj, tf.constant(w)).numpy()
    if w_cls is not None and not float(np.abs(out.astype(np.float64) - w_cls).max()) <= 1e-3 * core.scale_of(w, out):
      w_cls, _state["fin"] = None, None
    site = "project_all_constraints"
    judge(ctx, site, cfg, w, out, _state["fin"], w_cls)
  else:
    # keypoints far from the origin (timestamps, ids): the constraint works on the *differences* of the configured
    # keypoints, which stay well defined in float64 even when the keypoints themselves collapse in float32
    k0 = cfg["kp0"] + case.get("kp_offset", 0.0)
    kp = np.concatenate([[k0], k0 + np.cumsum(np.asarray(cfg["lengths"], dtype=np.float64))])
    if case.get("kp_offset"):
      ctx.cls("keypoint_offset:%g" % case["kp_offset"])
      cfg = dict(cfg, lengths=np.diff(kp).tolist())      # the oracle uses the spacing of the keypoints actually configured
    if cfg["cyclic"]:
      # a cyclic layer stores one row fewer; use one more keypoint so the kernel keeps its size
      kp = np.concatenate([kp, [kp[-1] + 1.0]])
    layer = pl.PWLCalibration(
        input_keypoints=kp.tolist(), units=cfg["units"], output_min=omin, output_max=omax,
        clamp_min=bool(cfg.get("clamp_min")), clamp_max=bool(cfg.get("clamp_max")),
        monotonicity=cfg["mono"], convexity=cfg["conv"], is_cyclic=bool(cfg["cyclic"]),
        num_projection_iterations=cfg["iters"], impute_missing=True,
        # learned interior keypoints: the layer then builds its weight constraint without segment lengths
        input_keypoints_type="learned_interior" if case.get("learned_keypoints") else "fixed")
    if case.get("learned_keypoints"):
      ctx.cls("layer:learned_interior")
    layer.build((None, 1))
    layer.keypoints_outputs()        # queried before the weights change as well as after
    layer.kernel.assign(w)
    layer.kernel.assign(layer.kernel.constraint(layer.kernel))
    out = layer.kernel.numpy()
    site = "PWLCalibration.layer"
    judge(ctx, site, cfg, w, out, _state["fin"])
    # keypoints_outputs() reports the cumulative sums (plus cyclic closure)
    ko = layer.keypoints_outputs().numpy().astype(np.float64)
    sums = np.cumsum(out.astype(np.float64), axis=0)
    if cfg["cyclic"]:
      sums = np.concatenate([sums, sums[:1]], axis=0)
    d = float(np.abs(ko - sums).max())
    ctx.check("PWLCalibration.keypoints_outputs/equals-cumsum", d <= core.tol_of(sums),
              "keypoints_outputs() differs from cumulative kernel sums by %.3g" % d)
    # missing output weight: naive clip, exact
    mo = layer.missing_output
    far = np.array([[(-1e3 if (k % 2) else 1e3) for k in range(cfg["units"])]], dtype=np.float32)
    moc = mo.constraint(tf.constant(far)).numpy()
    ok = True
    if omin is not None:
      ok = ok and bool(moc.min() >= core.f32(omin))
    if omax is not None:
      ok = ok and bool(moc.max() <= core.f32(omax))
    if omin is None and omax is None:
      ok = bool(np.array_equal(moc, far))
    ctx.check("NaiveBoundsConstraints.__call__/exact", ok, "missing output %s not clipped into [%s, %s]" % (moc.tolist(), omin, omax))

  if feasible_in:
    d = float(np.abs(out.astype(np.float64) - w.astype(np.float64)).max())
    t = 1e-4 * core.scale_of(w, out, [b for b in (omin, omax) if b is not None])
    ctx.check("feasible-unchanged", d <= t,
              "%s moved a feasible kernel by %.3g (tol %.3g; input violation %.3g)" % (site, d, t, in_viol),
              info={"entry": site, "moved": d, "input_violation": in_viol}, ratio=d / t)
  constrained = bool(cfg["mono"] or cfg["conv"] or omin is not None or omax is not None)
  work = in_viol > core.REL_TOL * scale_in
  return constrained and (work or feasible_in), core.digest([cfg, kind, ex, core.arr_digest(w)])
