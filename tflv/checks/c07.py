"""C07 - KroneckerFactoredLattice after its constraints gives monotone, bounded
outputs, for every sign pattern of scale and every order of updates.

Monitors: histories of one layer.  Each state of a history is reached by
(a) assigning an arbitrary kernel and scale (sign flips, exact zeros) and then
applying the variables' own constraints in order kernel->scale, scale->kernel
or layer.finalize_constraints(), or (b) a real optimizer step (new and legacy
tf_keras optimizers, which apply update and constraint in different orders) on
adversarial targets.  At every quiescent point the layer is evaluated on a
product grid (half-integer grid inside the range; outside too when
clip_inputs).  Oracle O-pairs: non-decreasing along declared dims, inside
bounds; O-kfl cross-checks the evaluation itself.
"""
import itertools

import numpy as np

from tflv import core
from tflv import modes
from tflv.oracles import kfl as okfl

PROPERTY = "C07"
RULE = ("history = one KFL layer (lattice size, dims, units, terms, monotonicity subset incl. none/None, bound mode, clip_inputs) taken through "
        "2-4 states (assign+constrain in a labelled order, or optimizer steps); every state is judged on the full product grid; "
        "non-trivial state = some constraint configured and the grid output is not constant; distinct by digest of (config, step, weights)")
MIN_EVENTS = {
    "quick": {"state/monotone-on-grid": 150, "state/bounded-on-grid": 180, "state/evaluation-equals-kfl-oracle": 250,
              "train-state/monotone-on-grid": 15, "train-state/bounded-on-grid": 30},
    "thorough": {"state/monotone-on-grid": 6000, "state/bounded-on-grid": 8000, "state/evaluation-equals-kfl-oracle": 10000,
                 "train-state/monotone-on-grid": 600, "train-state/bounded-on-grid": 800},
}
ASSUMPTIONS = ["tol = 1e-5*max(1,|grid outputs|); states whose weights left the finite float32 range are cut and counted as overflow (never a violation)",
               "out-of-range grid points only when clip_inputs is on (the property claims nothing else)"]
_state = {}


def setup(ctx):
  from tflv import tfenv
  tf, tfl = tfenv.setup()
  import tf_keras as keras
  _state.update(tf=tf, tfl=tfl, keras=keras)


def _ensure():
  if "tf" not in _state:
    setup(None)
  return _state


def gen_cases(ctx):
  rng = ctx.rng
  for i in range(ctx.n):
    dims = int(rng.randint(1, 5))
    L = int(rng.choice([2, 3, 4])) if dims < 4 else int(rng.choice([2, 3]))
    units, terms = int(rng.choice([1, 2])), int(rng.choice([1, 2, 3]))
    mm = str(rng.choice(["some", "all", "none_list", "None"], p=[.45, .25, .15, .15]))
    mono = {"some": [int(rng.rand() < .5) for _ in range(dims)], "all": [1] * dims, "none_list": [0] * dims, "None": None}[mm]
    b = ["none", "min", "max", "both"][i % 4]
    omin = omax = None
    if b in ("min", "both"):
      omin = float(rng.choice([-1.0, 0.0, 0.5]))
    if b in ("max", "both"):
      omax = (omin if omin is not None else 0.0) + float(rng.choice([0.5, 1.0, 3.0]))
    yield {"kind": "train" if i % 6 == 5 else ("v1graph" if i % 6 == 2 else "assign"), "form": "list" if rng.rand() < .25 else "tensor", "L": L, "dims": dims, "units": units, "terms": terms,
           "mono": mono, "mono_mode": mm, "omin": omin, "omax": omax, "bounds": b, "clip": bool(rng.rand() < .5),
           "spelling": str(rng.choice(["int", "str"])), "seed": int(rng.randint(2**31 - 1)),
           "exec": modes.pick(rng, (0.6, 0.2, 0.2)), "dtype": "float64" if rng.rand() < .12 else "float32"}


def _grid(case):
  L, dims = case["L"], case["dims"]
  g = np.linspace(0, L - 1, 2 * (L - 1) + 1) if not case["clip"] else np.linspace(-1, L, 2 * (L + 1) + 1)
  if dims >= 4:
    g = g[::2] if len(g) > 5 else g
  pts = np.array(list(itertools.product(g, repeat=dims)), dtype=np.float32)
  return g, pts


def _feed(tf, case, X):
  """The documented input forms: one tensor, or a list of `dims` tensors with a trailing dimension of 1."""
  if case.get("form") == "list":
    return [tf.constant(X[..., d:d + 1]) for d in range(case["dims"])]
  return tf.constant(X)


def _judge(ctx, prefix, case, layer, X, g, step, label, fetched=None, prev=None):
  """fetched = (K, S, bias, y) when the state was read through a TF1 session; otherwise read eagerly from the layer.
  prev = (kernel, scale) held by the variables just before the constraints were applied: finalize_constraints() (and an
  optimizer step) write `variable += projection - variable`, which rounds at the magnitude of the *old* value (kernel
  entry -38.9 -> 0.0505829 instead of 0.0505847; times the other dimensions' factors: 1.5e-4 at the output, thorough tier)."""
  tf = _state["tf"]
  dims, units = case["dims"], case["units"]
  if fetched is not None:
    K, S, Bv = fetched[:3]
  else:
    K, S, Bv = layer.kernel.numpy(), layer.scale.numpy(), layer.bias.numpy()
  if not (np.all(np.isfinite(K)) and np.all(np.isfinite(S)) and np.all(np.isfinite(Bv))):
    ctx.note("overflow-state-cut")
    return None
  if fetched is not None:
    y = np.asarray(fetched[3], dtype=np.float64)
  else:
    y = modes.call(tf, case.get("exec", "eager"), layer, _feed(tf, case, X)).numpy().astype(np.float64)
  if not np.all(np.isfinite(y)) and (np.abs(K).max() > 1e15 or np.abs(S).max() > 1e15):
    ctx.note("overflow-state-cut")
    return None
  Y = y.reshape([len(g)] * dims + [units])
  tol = core.REL_TOL * core.scale_of(Y)
  info = {"step": step, "how": label}
  ok_fin = bool(np.all(np.isfinite(Y)))
  ctx.check(prefix + "/finite", ok_fin, "non-finite output with finite weights", info=info)
  if not ok_fin:
    return None
  # the dense float64 definition evaluated on the layer's own (float32) weights, and the magnitude of its terms: the
  # float32 evaluation of the layer is uncertain by eps * (sum of |terms|), which can exceed the output itself when terms of
  # opposite sign cancel (kernels x30: 1.5e-4 at output scale 5, thorough tier)
  X3 = X if units > 1 else X[:, None, :]
  ref = okfl.evaluate(K, S, Bv, X3.astype(np.float64), clip=case["clip"])
  mag = okfl.evaluate(np.abs(K), np.abs(S), np.abs(Bv), X3.astype(np.float64), clip=case["clip"])
  te = core.REL_TOL * max(1.0, float(mag.max()))
  tw = te       # allowance for what the *weights* define
  if prev is not None and np.all(np.isfinite(prev[0])) and np.all(np.isfinite(prev[1])):
    magp = okfl.evaluate(np.maximum(np.abs(K), np.abs(prev[0])), np.maximum(np.abs(S), np.abs(prev[1])), np.abs(Bv), X3.astype(np.float64), clip=case["clip"])
    tw = max(te, 4 * core.F32_EPS * dims * float(magp.max()))
  mono = case["mono"] or []
  if any(mono):
    # (i) the function the weights define is monotone - judged on the float64 reference, where only the weights matter
    R = np.asarray(ref, dtype=np.float64).reshape([len(g)] * dims + [units])
    worst, wd = 0.0, None
    for d, m in enumerate(mono):
      if m:
        v = float((-np.diff(R, axis=d)).max())
        if v > worst:
          worst, wd = v, d
    # the weights are float32 results of the projection: each is rounded by eps relative to itself, and the other
    # dimensions' factors multiply that up to eps * (sum of |terms|) - the same allowance as the evaluation
    tr = tw
    ctx.check(prefix + "/monotone-on-grid", worst <= tr,
              "the function defined by the weights decreases by %.3g along increasing input %s (tol %.3g) after %s" % (worst, wd, tr, label),
              info=dict(info, dim=wd, worst=worst), ratio=worst / tr)
    # (ii) and so is the layer's own float32 output, up to its evaluation uncertainty
    worst, wd = 0.0, None
    for d, m in enumerate(mono):
      if m:
        v = float((-np.diff(Y, axis=d)).max())
        if v > worst:
          worst, wd = v, d
    tm = max(tol, te + tw)
    ctx.check(prefix + "/monotone-on-grid", worst <= tm,
              "output decreases by %.3g along increasing input %s (tol %.3g) after %s" % (worst, wd, tm, label),
              info=dict(info, dim=wd, worst=worst), ratio=worst / tm)
  if case["omin"] is not None or case["omax"] is not None:
    lo = (case["omin"] - Y.min()) if case["omin"] is not None else -np.inf
    hi = (Y.max() - case["omax"]) if case["omax"] is not None else -np.inf
    v = max(lo, hi)
    tb = core.REL_TOL * core.scale_of(Y, [b for b in (case["omin"], case["omax"]) if b is not None])
    tb = max(tb, tw)      # same allowance as monotonicity: the update is written as `variable += projection - variable`
    ctx.check(prefix + "/bounded-on-grid", v <= tb,
              "output range [%.6g, %.6g] leaves [%s, %s] after %s" % (Y.min(), Y.max(), case["omin"], case["omax"], label),
              info=dict(info, min=float(Y.min()), max=float(Y.max())), ratio=max(v, 0) / tb)
  # the evaluation itself, against the dense float64 definition
  e = float(np.abs(y.reshape(ref.shape) - ref).max())
  ctx.check(prefix + "/evaluation-equals-kfl-oracle", e <= te, "layer output differs from the KFL definition by %.3g (tol %.3g)" % (e, te),
            info=info, ratio=e / te)
  return float(Y.max() - Y.min())


def _run_v1(ctx, case, st, rng, mono_arg, X, g):
  """TF1 graph mode, which finalize_constraints() documents: 'in graph mode returns a group op ... which has to be executed'.
  The layer is built in its own Graph, weights are assigned and the returned op (or every variable's constraint) is run in
  a Session; the state and the outputs are fetched through the session and judged by the same oracle."""
  tf, tfl = st["tf"], st["tfl"]
  v1 = tf.compat.v1
  units, dims = case["units"], case["dims"]
  ctx.cls("kind:v1graph", "bounds:" + case["bounds"], "mono:" + case["mono_mode"], "clip:%s" % case["clip"], "dims:%d" % dims, "units:%d" % units)
  constrained = bool(any(case["mono"] or [])) or case["omin"] is not None or case["omax"] is not None
  spread, keys = 0.0, []
  graph = tf.Graph()
  with graph.as_default():
    layer = tfl.layers.KroneckerFactoredLattice(
        lattice_sizes=case["L"], units=units, num_terms=case["terms"], monotonicities=mono_arg,
        output_min=case["omin"], output_max=case["omax"], clip_inputs=case["clip"])
    xin = v1.placeholder(tf.float32, [None] + list(X.shape[1:]))
    yout = layer(xin)
    kph = v1.placeholder(tf.float32, layer.kernel.shape)
    sph = v1.placeholder(tf.float32, layer.scale.shape)
    assign = [layer.kernel.assign(kph), layer.scale.assign(sph)]
    fin_op = layer.finalize_constraints()
    ck_op = layer.kernel.assign(layer.kernel.constraint(layer.kernel)) if layer.kernel.constraint is not None else None
    cs_op = layer.scale.assign(layer.scale.constraint(layer.scale)) if layer.scale.constraint is not None else None
    with v1.Session(graph=graph) as sess:
      sess.run(v1.global_variables_initializer())
      for step in range(1, int(rng.randint(2, 4)) + 1):
        k = rng.normal(size=layer.kernel.shape).astype(np.float32) * float(rng.choice([.5, 3., 30.]))
        sc = rng.normal(size=layer.scale.shape).astype(np.float32) * float(rng.choice([.5, 3.]))
        sess.run(assign, {kph: k, sph: sc})
        order = str(rng.choice(["finalize_constraints", "finalize_constraints", "kernel->scale", "scale->kernel"]))
        if order == "finalize_constraints":
          sess.run(fin_op)
        else:
          for op in ((ck_op, cs_op) if order == "kernel->scale" else (cs_op, ck_op)):
            if op is not None:
              sess.run(op)
        K, S, Bv, y = sess.run([layer.kernel, layer.scale, layer.bias, yout], {xin: X})
        ctx.cls("order:" + order)
        r = _judge(ctx, "state", case, layer, X, g, step, "TF1 session: assign, then %s" % order, fetched=(K, S, Bv, y), prev=(k, sc))
        spread = max(spread, r or 0.0)
        keys.append(core.arr_digest(K, S))
  return constrained and spread > 1e-3, core.digest([{k: v for k, v in case.items()}, keys])


def run_case(ctx, case):
  st = _ensure()
  tf, tfl, keras = st["tf"], st["tfl"], st["keras"]
  rng = np.random.RandomState(case["seed"])
  mono = case["mono"]
  if mono is not None and case["spelling"] == "str":
    mono_arg = ["increasing" if m else "none" for m in mono]
  else:
    mono_arg = mono
  layer = tfl.layers.KroneckerFactoredLattice(
      lattice_sizes=case["L"], units=case["units"], num_terms=case["terms"], monotonicities=mono_arg,
      output_min=case["omin"], output_max=case["omax"], clip_inputs=case["clip"],
      **({} if case.get("dtype", "float32") == "float32" else {"dtype": case["dtype"]}))
  g, pts = _grid(case)
  units, dims = case["units"], case["dims"]
  X = pts if units == 1 else np.repeat(pts[:, None, :], units, axis=1)
  X = X.astype(case.get("dtype", "float32"))
  ctx.cls("dtype:" + case.get("dtype", "float32"))
  if case["kind"] == "v1graph":
    return _run_v1(ctx, case, st, rng, mono_arg, X, g)
  layer(_feed(tf, case, X))
  ctx.cls("form:" + case.get("form", "tensor"))
  ctx.cls("kind:" + case["kind"], "bounds:" + case["bounds"], "mono:" + case["mono_mode"], "clip:%s" % case["clip"],
          "dims:%d" % dims, "units:%d" % units, "terms:%d" % case["terms"], "L:%d" % case["L"])
  constrained = bool(any(mono or [])) or case["omin"] is not None or case["omax"] is not None
  spread = 0.0
  keys = []

  ex = case.get("exec", "eager")
  ctx.cls("exec:" + ex)

  def ck():
    if layer.kernel.constraint is not None:
      modes.call(tf, "eager" if ex == "eager" else "graph", lambda: layer.kernel.assign(layer.kernel.constraint(layer.kernel)))

  def cs():
    if layer.scale.constraint is not None:
      modes.call(tf, "eager" if ex == "eager" else "graph", lambda: layer.scale.assign(layer.scale.constraint(layer.scale)))

  if case["kind"] == "assign":
    r = _judge(ctx, "state", case, layer, X, g, 0, "construction")
    spread = max(spread, r or 0.0)
    nsteps = int(rng.randint(2, 5))
    prev_s = None
    for step in range(1, nsteps + 1):
      k = rng.normal(size=layer.kernel.shape).astype(np.float32) * float(rng.choice([.5, 3., 30.]))
      how = str(rng.choice(["fresh", "flip_scale_signs", "zero_some_scale", "zero_some_kernel"]))
      s = rng.normal(size=layer.scale.shape).astype(np.float32) * float(rng.choice([.5, 3.]))
      if how == "flip_scale_signs" and prev_s is not None:
        s = -prev_s
        k = layer.kernel.numpy()          # keep the already-projected kernel: only scale moves
      if how == "zero_some_scale":
        s[rng.rand(*s.shape) < .5] = 0.0
      if how == "zero_some_kernel":
        k[:, :, rng.rand(k.shape[2]) < .4, :] = 0.0
      layer.kernel.assign(k)
      layer.scale.assign(s)
      if case["omin"] is None and case["omax"] is None and rng.rand() < .5:
        layer.bias.assign(rng.normal(size=layer.bias.shape).astype(np.float32) * 3)
      order = str(rng.choice(["kernel->scale", "scale->kernel", "finalize_constraints"]))
      if order == "kernel->scale":
        ck(); cs()
      elif order == "scale->kernel":
        cs(); ck()
      else:
        layer.finalize_constraints()
      prev_s = layer.scale.numpy()
      ctx.cls("order:" + order, "update:" + how)
      r = _judge(ctx, "state", case, layer, X, g, step, "%s, constraints %s" % (how, order), prev=(k, s))
      spread = max(spread, r or 0.0)
      keys.append(core.arr_digest(layer.kernel.numpy(), layer.scale.numpy()))
  else:
    inp = keras.layers.Input(shape=(dims,) if units == 1 else (units, dims))
    model = keras.models.Model(inp, layer(inp))
    optname = str(rng.choice(["SGD", "Adam", "Adagrad", "RMSprop", "legacy.SGD", "legacy.Adam"]))
    lr = float(rng.choice([0.05, 0.5, 5.0]))
    opt = (getattr(keras.optimizers.legacy, optname.split(".")[1]) if optname.startswith("legacy") else getattr(keras.optimizers, optname))(learning_rate=lr)
    model.compile(optimizer=opt, loss="mse", run_eagerly=bool(rng.rand() < .3))
    # adversarial targets: decreasing in every input, far outside any bound
    tgt = (-(X.reshape(len(X), -1).sum(axis=1, keepdims=True)) * float(rng.choice([1.0, 10.0])) + float(rng.choice([-20, 20]))).astype(np.float32)
    tgt = np.repeat(tgt, units, axis=1)
    ctx.cls("optimizer:" + optname, "lr:%g" % lr)
    r = _judge(ctx, "train-state", case, layer, X, g, 0, "construction")
    spread = max(spread, r or 0.0)
    for step in range(1, int(rng.randint(2, 5))):
      idx = rng.randint(0, len(X), size=min(32, len(X)))
      model.train_on_batch(X[idx], tgt[idx])
      r = _judge(ctx, "train-state", case, layer, X, g, step, "%s(lr=%g) step %d" % (optname, lr, step))
      if r is None:
        break
      spread = max(spread, r)
      keys.append(core.arr_digest(layer.kernel.numpy(), layer.scale.numpy()))
  return constrained and spread > 1e-3, core.digest([{k: v for k, v in case.items()}, keys])
