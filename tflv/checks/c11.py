"""C11 - Config and weight round-trips reproduce the same function.

Monitors: cls.from_config(obj.get_config()) for every public class with
get_config (layers, constraints, initializers, regularizers, model configs),
set_weights(get_weights()) between original and rebuilt layers, and
model.save / load_model / save_weights+load_weights of premade models at
training steps 0..k.
Oracle: (1) from_config succeeds; (2) second-generation config equals the
first; (3) constructor-argument coverage: every __init__ parameter stored as an
attribute is equal on the rebuilt object; (4) same variables and identical
outputs; (5) seed-derived structures identical; (6) reloaded models keep their
outputs, their constrained variables and the C03 invariants after a further
hostile update.
"""
import inspect
import os
import shutil
import tempfile

import numpy as np

from tflv import core
from tflv.gen import premade as gp

PROPERTY = "C11"
RULE = ("case = one object of a public class with get_config built from per-class value pools (every optional argument takes a non-default value in some case: "
        "single-tuple trusts, per-dimension regularizer amounts, ndarray keypoints, missing output values, ...), or one premade model saved and reloaded "
        "(formats .keras / .h5 / SavedModel / weights) at a training step; non-trivial = every case; distinct by digest of (class, arguments) or (model, format, step)")
MIN_EVENTS = {
    "quick": {"layer/built-config-round-trip": 30, "json-round-trip/same-behaviour": 120, "from_config/succeeds": 130, "get_config/second-generation-equal": 130, "from_config/constructor-arguments-preserved": 130,
              "layer/same-variables-and-outputs": 30, "model/save-load-same-outputs": 10, "model/reloaded-keeps-constraints": 8},
    "thorough": {"layer/built-config-round-trip": 720, "json-round-trip/same-behaviour": 2880, "from_config/succeeds": 10000, "get_config/second-generation-equal": 10000, "from_config/constructor-arguments-preserved": 10000,
                 "layer/same-variables-and-outputs": 3500, "model/save-load-same-outputs": 300, "model/reloaded-keeps-constraints": 300},
}
ASSUMPTIONS = [
    "configs compared structurally after JSON normalisation (tuples = lists), layer names ignored",
    "a save format that fails for a plain Keras control model on this install is skipped and reported",
    "'crash points' = step boundaries (Keras saving is synchronous; there is no mid-step state to crash in)",
]
_state = {}
CLASSES = ["LatticeConstraints", "LinearInitializer", "RandomMonotonicInitializer", "TorsionRegularizer", "LatticeLaplacianRegularizer", "Lattice",
           "PWLCalibration", "UniformOutputInitializer", "PWLCalibrationConstraints", "NaiveBoundsConstraints", "PWLLaplacian", "PWLHessian",
           "PWLWrinkle", "Linear", "LinearConstraints", "CategoricalCalibration", "CategoricalCalibrationConstraints", "KFL",
           "KFLRandomMonotonicInitializer", "ScaleInitializer", "BiasInitializer", "ScaleConstraints", "CDF", "RTL", "ParallelCombination",
           "FeatureConfig", "CalibratedLatticeEnsembleConfig", "CalibratedLatticeConfig", "CalibratedLinearConfig", "AggregateFunctionConfig",
           "RegularizerConfig", "TrustConfig", "DominanceConfig"]


def setup(ctx):
  from tflv import tfenv
  tf, tfl = tfenv.setup()
  import tf_keras as keras
  from tensorflow_lattice.python import (lattice_layer, pwl_calibration_layer, pwl_calibration_lib, linear_layer, categorical_calibration_layer,
                                         kronecker_factored_lattice_layer, configs, premade)
  _state.update(tf=tf, tfl=tfl, keras=keras, ll=lattice_layer, pl=pwl_calibration_layer, plib=pwl_calibration_lib, lin=linear_layer,
                cl=categorical_calibration_layer, kl=kronecker_factored_lattice_layer, configs=configs, premade=premade)
  _state["formats"] = None


def _ensure():
  if "tf" not in _state:
    setup(None)
  return _state


def gen_cases(ctx):
  rng = ctx.rng
  for i in range(ctx.n):
    if i % 12 == 11:
      yield {"kind": "model", "seed": int(rng.randint(2**31 - 1)), "format": ["keras", "h5", "tf", "weights"][(i // 12 + ctx.shard) % 4]}
    else:
      yield {"kind": "object", "cls": CLASSES[(i + 5 * ctx.shard) % len(CLASSES)], "seed": int(rng.randint(2**31 - 1))}


def P(rng, *opts):
  return opts[int(rng.randint(len(opts)))]


def make_object(name, rng):
  """Returns (object, build_input or None)."""
  st = _state
  tfl, keras, ll, pl, plib, lin, cl, kl, configs = st["tfl"], st["keras"], st["ll"], st["pl"], st["plib"], st["lin"], st["cl"], st["kl"], st["configs"]
  t = lambda *a: a
  if name == "LatticeConstraints":
    return ll.LatticeConstraints([2, 3, 2], monotonicities=P(rng, ["increasing", "none", 1], [1, 0, 1]), unimodalities=P(rng, None, [0, 0, 0]),
                                 edgeworth_trusts=P(rng, None, [t(0, 1, "positive")], [t(0, 1, 1)]), trapezoid_trusts=P(rng, None, [t(2, 1, -1)]),
                                 monotonic_dominances=P(rng, None, [t(0, 2)]), range_dominances=P(rng, None, [t(2, 0)]),
                                 joint_monotonicities=P(rng, None, [t(0, 1)]), joint_unimodalities=P(rng, None, [([1], "valley")]),
                                 output_min=P(rng, None, 0.0), output_max=P(rng, None, 1.0), num_projection_iterations=P(rng, 1, 3),
                                 enforce_strict_monotonicity=P(rng, True, False)), None
  if name == "LinearInitializer":
    return ll.LinearInitializer(P(rng, [2, 3], (2, 3)), P(rng, [1, 0], ["increasing", "none"]), -1.0, 2.0, unimodalities=P(rng, None, [0, 1])), None
  if name == "RandomMonotonicInitializer":
    return ll.RandomMonotonicInitializer([2, 3], -1.0, 2.0, unimodalities=P(rng, None, [0, 1])), None
  if name == "TorsionRegularizer":
    return ll.TorsionRegularizer(P(rng, [2, 3], (2, 3)), l1=P(rng, 0.0, 0.1, [0.1, 0.2]), l2=P(rng, 0.3, [0.0, 0.5])), None
  if name == "LatticeLaplacianRegularizer":
    return ll.LaplacianRegularizer([2, 3], l1=P(rng, 0.0, 0.1, [0.1, 0.2]), l2=P(rng, 0.3, (0.0, 0.5))), None
  if name == "Lattice":
    sizes = [2, 3, 3]
    units = P(rng, 1, 2)
    lay = tfl.layers.Lattice(sizes, units=units, monotonicities=P(rng, [1, 0, 0], ["increasing", "none", "none"]),
                             unimodalities=P(rng, None, [0, "valley", 0], [0, 0, -1]), edgeworth_trusts=P(rng, None, t(0, 1, "positive"), [t(0, 1, 1)]),
                             trapezoid_trusts=P(rng, None, t(0, 2, -1)), monotonic_dominances=None, range_dominances=None,
                             joint_monotonicities=P(rng, None, t(1, 2), [t(1, 2)]), joint_unimodalities=None,
                             output_min=P(rng, None, -1.0), output_max=P(rng, None, 1.0), num_projection_iterations=P(rng, 10, 4),
                             monotonic_at_every_step=P(rng, True, False), clip_inputs=P(rng, True, False), interpolation=P(rng, "hypercube", "simplex"),
                             kernel_initializer=P(rng, "linear_initializer", "random_monotonic_initializer", "random_uniform_or_linear_initializer"),
                             kernel_regularizer=P(rng, None, ("torsion", 0.1, 0.2), [("torsion", 0.1, 0.2), ("laplacian", [0.1, 0.2, 0.3], 0.0)]))
    x = rng.uniform(0, [1, 2, 2], size=(4, 3) if units == 1 else (4, units, 3)).astype(np.float32)
    return lay, x
  if name == "PWLCalibration":
    units = P(rng, 1, 2)
    mono = P(rng, "none", "decreasing", 1)
    cyc = bool(mono == "none" and rng.rand() < .3)
    kt = P(rng, "fixed", "fixed", "learned_interior")
    # keypoints as list / tuple / numpy array, with values float32 cannot represent (0.1 steps, timestamps): the rebuilt
    # layer must see the very same numbers
    kps = P(rng, [0.0, 1.0, 3.0], np.array([0.0, 1.0, 3.0]), (0.0, 0.5, 1.0, 4.0), np.linspace(0.0, 1.0, 11),
            np.array([1.6e9, 1.6e9 + 300.0, 1.6e9 + 1000.0, 1.6e9 + 2000.0]), [0.1, 0.3, 0.7])
    lay = tfl.layers.PWLCalibration(kps, units=units,
                                    output_min=P(rng, None, 0.0), output_max=P(rng, None, 2.0),
                                    clamp_min=bool(mono != "none" and rng.rand() < .5), clamp_max=bool(mono != "none" and rng.rand() < .5),
                                    monotonicity=mono, convexity=P(rng, "none", "convex", -1) if (not cyc and kt == "fixed") else "none", is_cyclic=cyc,
                                    kernel_initializer=P(rng, "equal_heights", "equal_slopes") if not cyc else "equal_heights",
                                    kernel_regularizer=P(rng, None, ("hessian", 0.1, 0.2), [("hessian", 0.1, 0.2), ("wrinkle", 0.1, 0.0), ("laplacian", 0.0, 0.1)]),
                                    impute_missing=True, missing_input_value=P(rng, None, -1.0), missing_output_value=P(rng, None, 0.5),
                                    num_projection_iterations=P(rng, 8, 3), split_outputs=P(rng, False, True),
                                    input_keypoints_type=kt)
    k0, k1 = float(np.asarray(kps)[0]), float(np.asarray(kps)[-1])
    x = rng.uniform(k0 - 0.3 * (k1 - k0), k1 + 0.3 * (k1 - k0), size=(5, 1)).astype(np.float32)
    return lay, x
  if name == "UniformOutputInitializer":
    return pl.UniformOutputInitializer(0.0, 1.0, P(rng, "decreasing", "none", 1), keypoints=P(rng, None, [0.0, 1.0, 4.0])), None
  if name == "PWLCalibrationConstraints":
    pm = P(rng, 1, "decreasing", "none")
    return pl.PWLCalibrationConstraints(monotonicity=pm, convexity=P(rng, -1, 0, "convex"), lengths=[1.0, 2.0],
                                        output_min=0.0, output_max=P(rng, None, 1.0),
                                        output_min_constraints=(P(rng, plib.BoundConstraintsType.CLAMPED, plib.BoundConstraintsType.BOUND) if pm != "none" else plib.BoundConstraintsType.BOUND),
                                        output_max_constraints=P(rng, plib.BoundConstraintsType.BOUND, plib.BoundConstraintsType.NONE),
                                        num_projection_iterations=P(rng, 8, 5)), None
  if name == "NaiveBoundsConstraints":
    return pl.NaiveBoundsConstraints(P(rng, None, 0.0), P(rng, None, 1.0)), None
  if name in ("PWLLaplacian", "PWLHessian", "PWLWrinkle"):
    c = {"PWLLaplacian": pl.LaplacianRegularizer, "PWLHessian": pl.HessianRegularizer, "PWLWrinkle": pl.WrinkleRegularizer}[name]
    return c(P(rng, 0.0, 0.1), P(rng, 0.0, 0.2), P(rng, False, True)), None
  if name == "Linear":
    units = P(rng, 1, 2)
    rd = bool(rng.rand() < .4)
    ub = P(rng, True, False)
    lay = tfl.layers.Linear(3, units=units, monotonicities=P(rng, [1, 1, -1], ["increasing", "increasing", "none"]) if not rd else [1, 1, 0],
                            monotonic_dominances=P(rng, None, [t(0, 1)]) if not rd else None, range_dominances=[t(0, 1)] if rd else None,
                            input_min=[0.0, 0.0, None] if rd else P(rng, None, [0.0, None, "none"]), input_max=[1.0, 2.0, None] if rd else P(rng, None, [1.0, 2.0, None]),
                            use_bias=ub, normalization_order=P(rng, None, 1, 2),
                            kernel_regularizer=P(rng, None, keras.regularizers.l2(0.1)),
                            bias_regularizer=P(rng, None, keras.regularizers.l1(0.1)) if ub else None)   # unused (and not serialised) without a bias
    x = rng.normal(size=(4, 3) if units == 1 else (4, units, 3)).astype(np.float32)
    return lay, x
  if name == "LinearConstraints":
    rd = bool(rng.rand() < .5)
    return lin.LinearConstraints([1, 1], monotonic_dominances=None if rd else P(rng, None, [t(0, 1)]), range_dominances=[t(0, 1)] if rd else None,
                                 input_min=[0.0, 0.0] if rd else None, input_max=[1.0, 2.0] if rd else None, normalization_order=P(rng, None, 1, 2)), None
  if name == "CategoricalCalibration":
    units = P(rng, 1, 2)
    lay = tfl.layers.CategoricalCalibration(4, units=units, output_min=P(rng, None, 0.0), output_max=P(rng, None, 1.0),
                                            monotonicities=P(rng, None, [t(0, 1), t(1, 3)]), kernel_initializer=P(rng, "uniform", "constant"),
                                            default_input_value=P(rng, None, -1), split_outputs=P(rng, False, True),
                                            kernel_regularizer=P(rng, None, keras.regularizers.l2(0.1)))
    return lay, rng.randint(0, 4, size=(5, 1)).astype(np.int32)
  if name == "CategoricalCalibrationConstraints":
    return cl.CategoricalCalibrationConstraints(P(rng, None, 0.0), P(rng, None, 1.0), P(rng, None, [t(0, 1)])), None
  if name == "KFL":
    units = P(rng, 1, 2)
    lay = tfl.layers.KroneckerFactoredLattice(P(rng, 2, 3), units=units, num_terms=P(rng, 2, 3), monotonicities=P(rng, None, [1, 0], ["increasing", "none"]),
                                              output_min=P(rng, None, 0.0), output_max=P(rng, None, 2.0), clip_inputs=P(rng, True, False))
    x = rng.uniform(0, 1, size=(4, 2) if units == 1 else (4, units, 2)).astype(np.float32)
    return lay, x
  if name == "KFLRandomMonotonicInitializer":
    return kl.KFLRandomMonotonicInitializer(P(rng, [1, 0], None), P(rng, 0.5, 0.1), P(rng, 1.5, 0.9), seed=P(rng, None, 3)), None
  if name == "ScaleInitializer":
    return kl.ScaleInitializer(P(rng, None, 0.0), P(rng, None, 1.0)), None
  if name == "BiasInitializer":
    return kl.BiasInitializer(P(rng, None, 0.0), P(rng, None, 1.0)), None
  if name == "ScaleConstraints":
    return kl.ScaleConstraints(P(rng, None, 0.0), P(rng, None, 1.0)), None
  if name == "CDF":
    lay = tfl.layers.CDF(P(rng, 4, 1), units=2, activation=P(rng, "relu6", "sigmoid"), reduction=P(rng, "mean", "geometric_mean", "none"),
                         input_scaling_init=P(rng, None, 2.0), input_scaling_type=P(rng, "fixed", "learned_shared", "learned_per_input"),
                         input_scaling_monotonicity=P(rng, "increasing", "none"), sparsity_factor=P(rng, 1, 2))
    return lay, rng.normal(size=(4, 2)).astype(np.float32)
  if name == "RTL":
    param = P(rng, "all_vertices", "kronecker_factored")
    lay = tfl.layers.RTL(P(rng, 3, 4), 2, lattice_size=P(rng, 2, 3), output_min=P(rng, None, 0.0), output_max=P(rng, None, 1.0),
                         init_min=P(rng, None, 0.1), init_max=None, separate_outputs=P(rng, False, True), random_seed=P(rng, 0, 7),
                         num_projection_iterations=P(rng, 10, 3), monotonic_at_every_step=P(rng, True, False), clip_inputs=P(rng, True, False),
                         interpolation=P(rng, "hypercube", "simplex") if param == "all_vertices" else "hypercube", parameterization=param,
                         num_terms=P(rng, 2, 3), avoid_intragroup_interaction=P(rng, True, False),
                         kernel_initializer=("kfl_random_monotonic_initializer" if param == "kronecker_factored" else P(rng, "random_monotonic_initializer", "linear_initializer")),
                         kernel_regularizer=(None if param == "kronecker_factored" else P(rng, None, ("torsion", 0.1, 0.2), [("torsion", 0.1, 0.2)])),
                         average_outputs=P(rng, False, True))
    if lay.init_min is not None:
      lay.init_max = 0.9
    feed = {"increasing": rng.uniform(0, 1, size=(4, 2)).astype(np.float32), "unconstrained": rng.uniform(0, 1, size=(4, 3)).astype(np.float32)}
    return lay, feed
  if name == "ParallelCombination":
    # 2-4 calibrators of different shapes; sub-layer names are auto-generated, distinct, or one explicit name used for all of
    # them (names need not be unique inside a ParallelCombination: the round trip must still restore every calibrator)
    k = int(rng.randint(2, 5))
    naming = P(rng, "auto", "auto", "distinct", "same")
    subs, cols = [], []
    for i in range(k):
      kw = {} if naming == "auto" else {"name": ("calib_%d" % i) if naming == "distinct" else "calib"}
      if i == 0 or rng.rand() < .6:
        kp = sorted(set(np.round(rng.uniform(0, 3, size=int(rng.randint(2, 6))), 2).tolist()))
        kp = kp if len(kp) >= 2 else [0.0, 1.0]
        subs.append(tfl.layers.PWLCalibration(kp, monotonicity=P(rng, "none", "increasing"), **kw))
        cols.append(rng.uniform(0, 3, size=5))
      else:
        nb = int(rng.randint(2, 6))
        subs.append(tfl.layers.CategoricalCalibration(nb, **kw))
        cols.append(rng.randint(0, nb, size=5))
    lay = tfl.layers.ParallelCombination(subs, single_output=P(rng, True, False))
    return lay, np.stack(cols, axis=1).astype(np.float32)
  if name == "FeatureConfig":
    return configs.FeatureConfig("a", is_missing_name=P(rng, None, "a_missing"), default_value=P(rng, None, -1.0), lattice_size=P(rng, 2, 3),
                                 monotonicity=P(rng, "none", "increasing", [(0, 1)]), unimodality=P(rng, "none", "valley"),
                                 reflects_trust_in=P(rng, None, [configs.TrustConfig("b", "trapezoid", -1)]), dominates=P(rng, None, [configs.DominanceConfig("c", "range")]),
                                 pwl_calibration_always_monotonic=P(rng, False, True), pwl_calibration_convexity=P(rng, 0, 1), pwl_calibration_num_keypoints=P(rng, 10, 5),
                                 pwl_calibration_input_keypoints=P(rng, "quantiles", [0.0, 1.0]), pwl_calibration_input_keypoints_type=P(rng, "fixed", "learned_interior"),
                                 pwl_calibration_clip_min=P(rng, None, 0.0), pwl_calibration_clip_max=P(rng, None, 5.0),
                                 pwl_calibration_clamp_min=P(rng, False, True), pwl_calibration_clamp_max=P(rng, False, True),
                                 num_buckets=P(rng, 0, 3), vocabulary_list=P(rng, None, ["x", "y", "z"]),
                                 regularizer_configs=P(rng, None, [configs.RegularizerConfig("calib_hessian", 0.1, 0.2)])), None
  if name == "RegularizerConfig":
    return configs.RegularizerConfig(P(rng, "torsion", "calib_wrinkle"), l1=P(rng, 0.0, 0.1), l2=P(rng, 0.0, 0.2)), None
  if name == "TrustConfig":
    return configs.TrustConfig("b", trust_type=P(rng, "edgeworth", "trapezoid"), direction=P(rng, "positive", -1, 1)), None
  if name == "DominanceConfig":
    return configs.DominanceConfig("c", dominance_type=P(rng, "monotonic", "range")), None
  fcs = [configs.FeatureConfig("a", monotonicity=P(rng, "none", "increasing"), pwl_calibration_input_keypoints=[0.0, 1.0],
                               dominates=P(rng, None, [configs.DominanceConfig("b")])), configs.FeatureConfig("b", num_buckets=3)]
  common = dict(feature_configs=fcs, regularizer_configs=P(rng, None, [configs.RegularizerConfig("torsion", 0.1, 0.2)]), output_min=P(rng, None, 0.0),
                output_max=P(rng, None, 1.0), output_calibration=P(rng, False, True), output_calibration_num_keypoints=P(rng, 10, 4),
                output_initialization=P(rng, "quantiles", [0.0, 0.5, 1.0]), output_calibration_input_keypoints_type=P(rng, "fixed", "learned_interior"))
  if name == "CalibratedLatticeEnsembleConfig":
    return configs.CalibratedLatticeEnsembleConfig(lattices=P(rng, "random", "rtl_layer", "crystals", [["a", "b"], ["b", "a"]]), num_lattices=P(rng, None, 3),
                                                   lattice_rank=P(rng, None, 2), interpolation=P(rng, "hypercube", "simplex"),
                                                   parameterization=P(rng, "all_vertices", "kronecker_factored"), num_terms=P(rng, 2, 3),
                                                   separate_calibrators=P(rng, True, False), use_linear_combination=P(rng, False, True), use_bias=P(rng, False, True),
                                                   fix_ensemble_for_2d_constraints=P(rng, True, False), random_seed=P(rng, 0, 3), **common), None
  if name == "CalibratedLatticeConfig":
    return configs.CalibratedLatticeConfig(interpolation=P(rng, "hypercube", "simplex"), parameterization=P(rng, "all_vertices", "kronecker_factored"),
                                           num_terms=P(rng, 2, 3), random_seed=P(rng, 0, 5), **common), None
  if name == "CalibratedLinearConfig":
    return configs.CalibratedLinearConfig(use_bias=P(rng, True, False), **common), None
  if name == "AggregateFunctionConfig":
    return configs.AggregateFunctionConfig(middle_dimension=P(rng, 1, 2), middle_lattice_size=P(rng, 2, 3), middle_calibration=True,
                                           middle_calibration_num_keypoints=P(rng, 10, 4), middle_calibration_input_keypoints_type=P(rng, "fixed", "learned_interior"),
                                           middle_monotonicity=P(rng, None, "increasing"), middle_lattice_interpolation=P(rng, "hypercube", "simplex"),
                                           aggregation_lattice_interpolation=P(rng, "hypercube", "simplex"), **common), None
  raise KeyError(name)


def _norm(o):
  """JSON-normalised config without layer names."""
  if isinstance(o, dict):
    return {str(k): _norm(v) for k, v in o.items() if k != "name"}
  if isinstance(o, (list, tuple)):
    return [_norm(v) for v in o]
  if isinstance(o, np.ndarray):
    return _norm(o.tolist())
  if hasattr(o, "get_config") and not isinstance(o, type):
    try:
      return {"__class__": type(o).__name__, "config": _norm(o.get_config())}
    except Exception:
      return repr(o)
  if isinstance(o, (np.floating,)):
    return float(o)
  if isinstance(o, (np.integer,)):
    return int(o)
  if isinstance(o, (str, int, float, bool)) or o is None:
    return o
  if hasattr(o, "name") and hasattr(o, "value"):     # enum
    return str(o)
  return repr(o)


def _attr_eq(a, b):
  return _norm(a) == _norm(b)


def flat(y):
  if isinstance(y, dict):
    return np.concatenate([np.asarray(y[k]).ravel() for k in sorted(y)])
  if isinstance(y, (list, tuple)):
    return np.concatenate([np.asarray(t).ravel() for t in y])
  return np.asarray(y).ravel()


def _run_object(ctx, case, st):
  tf, keras = st["tf"], st["keras"]
  rng = np.random.RandomState(case["seed"])
  name = case["cls"]
  o, x = make_object(name, rng)
  cls = type(o)
  ctx.cls("class:" + name)
  info = {"class": name}
  with keras.utils.custom_object_scope(st["premade"].get_custom_objects()):
    try:
      c = o.get_config()
      info["config"] = core.brief(_norm(c), 20)
      o2 = cls.from_config(c)
      c2 = o2.get_config()
    except Exception as e:
      ctx.check("from_config/succeeds", False, "%s: from_config(get_config()) raised %s: %s" % (name, type(e).__name__, str(e)[:200]), info=info)
      return True, core.digest([name, case["seed"]])
    ctx.check("from_config/succeeds", True)
    n1, n2 = _norm(c), _norm(c2)
    diff = [k for k in set(n1) | set(n2) if n1.get(k) != n2.get(k)] if isinstance(n1, dict) and isinstance(n2, dict) else ["<not a dict>"]
    ctx.check("get_config/second-generation-equal", not diff,
              "%s: get_config() of the rebuilt object differs in %s: %s vs %s" % (name, diff[:4], [n1.get(k) for k in diff[:2]] if isinstance(n1, dict) else n1,
                                                                                [n2.get(k) for k in diff[:2]] if isinstance(n2, dict) else n2), info=info)
    # constructor-argument coverage
    lost = []
    try:
      params = [p for p in inspect.signature(cls.__init__).parameters if p not in ("self", "kwargs", "args")]
    except (TypeError, ValueError):
      params = []
    for p in params:
      if hasattr(o, p) and hasattr(o2, p):
        if not _attr_eq(getattr(o, p), getattr(o2, p)):
          lost.append((p, core.brief(_norm(getattr(o, p)), 8), core.brief(_norm(getattr(o2, p)), 8)))
    ctx.check("from_config/constructor-arguments-preserved", not lost,
              "%s: constructor arguments not preserved by the config round trip: %s" % (name, lost[:3]), info=info)
    # layers: same variables, same outputs
    if x is not None:
      def feed(v):
        if isinstance(v, dict):
          return {k: tf.constant(a) for k, a in v.items()}
        return tf.constant(v)
      inp = feed(x)
      if name == "PWLCalibration" and o.missing_input_value is None:
        inp = [tf.constant(x), tf.zeros_like(tf.constant(x))]
      y1 = o(inp)
      y2 = o2(inp)
      v1 = [(v.name.split("/", 1)[-1], tuple(v.shape)) for v in o.weights]
      v2 = [(v.name.split("/", 1)[-1], tuple(v.shape)) for v in o2.weights]
      msgs = []
      if v1 != v2:
        msgs.append("variables differ: %s vs %s" % (v1, v2))
      else:
        ws = [(rng.normal(size=w.shape) * 0.5).astype(np.float32) for w in o.get_weights()]
        o.set_weights(ws)
        o2.set_weights(o.get_weights())
        y1, y2 = o(inp), o2(inp)
        a, b = flat(y1), flat(y2)
        if a.shape != b.shape or not np.array_equal(a, b, equal_nan=True):
          msgs.append("outputs differ by %.3g after copying the weights" % (float(np.nanmax(np.abs(a - b))) if a.shape == b.shape else -1))
        if name == "RTL" and core.to_jsonable(o._rtl_structure) != core.to_jsonable(o2._rtl_structure):
          msgs.append("seed-derived RTL structure differs")
        c1 = sorted(v.name.split("/", 1)[-1] for v in o.weights if getattr(v, "constraint", None) is not None)
        c2_ = sorted(v.name.split("/", 1)[-1] for v in o2.weights if getattr(v, "constraint", None) is not None)
        if c1 != c2_:
          msgs.append("constrained variables differ: %s vs %s" % (c1, c2_))
      ctx.check("layer/same-variables-and-outputs", not msgs, "%s: %s" % (name, "; ".join(msgs)), info=info)
      # the config of the *built* layer (what model.save / clone_model read): building must not leak derived state into
      # it, and a layer rebuilt from it has the same variables
      try:
        cb = o.get_config()
        nb = _norm(cb)
        diffb = [k for k in set(n1) | set(nb) if n1.get(k) != nb.get(k)] if isinstance(nb, dict) else ["<not a dict>"]
        msgs = []
        if diffb:
          msgs.append("get_config() changed by build/call in %s: %s -> %s" % (diffb[:3], [n1.get(k) for k in diffb[:2]], [nb.get(k) for k in diffb[:2]]))
        o4 = cls.from_config(cb)
        o4(inp)
        v4 = [(v.name.split("/", 1)[-1], tuple(v.shape)) for v in o4.weights]
        if v4 != v1:
          msgs.append("layer rebuilt from the built layer's config has variables %s, original %s" % (v4, v1))
        else:
          o4.set_weights(o.get_weights())
          a, b = flat(o(inp)), flat(o4(inp))
          if a.shape != b.shape or not np.array_equal(a, b, equal_nan=True):
            msgs.append("outputs differ after copying the weights into the layer rebuilt from the built config")
        ctx.check("layer/built-config-round-trip", not msgs, "%s: %s" % (name, "; ".join(msgs)), info=info)
      except Exception as e:
        ctx.check("layer/built-config-round-trip", False, "%s: round trip of the built layer's config raised %s: %s" % (name, type(e).__name__, str(e)[:200]), info=info)
    # ---- through the serialised (JSON) form, as model.save / to_json do: tuples come back as lists ----------
    try:
      import json as _json
      from tf_keras.src.saving.legacy.saved_model import json_utils
      cj = _json.loads(_json.dumps(c, default=json_utils.get_json_type))      # what model.to_json() does: tuples become lists
    except Exception as e:
      ctx.note("json-encode-skipped:" + type(e).__name__)
      cj = None
    if cj is not None and name != "PWLCalibrationConstraints":      # its enum-valued arguments are not JSON data
      try:
        o3 = cls.from_config(cj)
        msgs = []
        if _norm(o3.get_config()) != n1:
          msgs.append("config differs after the JSON round trip")
        if x is not None:
          o3(inp)
          if [(v.name.split("/", 1)[-1], tuple(v.shape)) for v in o3.weights] == v1:
            o3.set_weights(o.get_weights())
            for v in o3.trainable_variables:          # the re-attached constraints must be usable (resume training)
              if v.constraint is not None:
                v.assign(v.constraint(v))
            for v in o.trainable_variables:
              if v.constraint is not None:
                v.assign(v.constraint(v))
            a, b = flat(o(inp)), flat(o3(inp))
            if a.shape != b.shape or not np.array_equal(a, b, equal_nan=True):
              msgs.append("outputs differ after JSON round trip + constraint application")
          else:
            msgs.append("variables differ after the JSON round trip")
        elif callable(o) and name in ("LatticeConstraints", "PWLCalibrationConstraints", "LinearConstraints", "CategoricalCalibrationConstraints",
                                      "NaiveBoundsConstraints", "ScaleConstraints"):
          shape = {"LatticeConstraints": (12, 2), "PWLCalibrationConstraints": (3, 2), "LinearConstraints": (2, 2),
                   "CategoricalCalibrationConstraints": (3, 2), "NaiveBoundsConstraints": (1, 2), "ScaleConstraints": (2, 2)}[name]
          w = tf.constant((rng.normal(size=shape) * 2).astype(np.float32))
          if name == "PWLCalibrationConstraints" and o.lengths is None:
            pass
          else:
            ra, rb = np.asarray(o(w)), np.asarray(o3(w))
            if not np.array_equal(ra, rb, equal_nan=True):
              msgs.append("constraint output differs after the JSON round trip")
        ctx.check("json-round-trip/same-behaviour", not msgs, "%s: %s" % (name, "; ".join(msgs)), info=info)
      except Exception as e:
        ctx.check("json-round-trip/same-behaviour", False,
                  "%s rebuilt from its JSON-serialised config: %s: %s" % (name, type(e).__name__, str(e).strip().splitlines()[-1][:160]), info=info)
  return True, core.digest([name, _norm(c)])


def _formats(st):
  """Formats that work for a plain Keras control model on this install."""
  if st.get("formats") is not None:
    return st["formats"]
  keras = st["keras"]
  ok = []
  d = tempfile.mkdtemp(prefix="tflv-c11-")
  try:
    m = keras.Sequential([keras.layers.Input((2,)), keras.layers.Dense(1)])
    for fmt, path in (("keras", d + "/c.keras"), ("h5", d + "/c.h5"), ("tf", d + "/csm")):
      try:
        m.save(path) if fmt != "tf" else m.save(path, save_format="tf")
        keras.models.load_model(path)
        ok.append(fmt)
      except Exception:
        pass
    try:
      m.save_weights(d + "/cw.h5")
      m.load_weights(d + "/cw.h5")
      ok.append("weights")
    except Exception:
      pass
  finally:
    shutil.rmtree(d, ignore_errors=True)
  st["formats"] = ok
  return ok


def _run_model(ctx, case, st):
  tf, keras, tfl = st["tf"], st["keras"], st["tfl"]
  from tflv.checks import c03
  c03._ensure()
  rng = np.random.RandomState(case["seed"])
  fmt = case["format"]
  if fmt not in _formats(st):
    ctx.note("format-skipped:" + fmt)
    return False, None
  desc = gp.describe(rng, kind=P(rng, "linear", "lattice", "lattice_kfl", "ens_explicit", "ens_random", "rtl", "rtl_kfl"), allow_convexity=False, nf=int(rng.randint(2, 4)))
  model = gp.build(desc)
  steps = int(rng.randint(0, 3))
  cols = [rng.randint(0, f["num_buckets"], size=24) if f["type"] in ("cat", "catnone") else rng.uniform(-1, 4, size=24) for f in desc["features"]]
  X = gp.model_inputs(desc, cols)
  yt = rng.normal(size=(24, 1)).astype(np.float32)
  model.compile(loss="mse", optimizer=keras.optimizers.Adam(0.1))
  for _ in range(steps):
    model.train_on_batch(X, yt)
  y = np.asarray(model.predict(X, verbose=0))
  ctx.cls("model:" + desc["kind"], "format:" + fmt, "saved_at_step:%d" % steps)
  info = {"desc": desc, "format": fmt, "step": steps}
  d = tempfile.mkdtemp(prefix="tflv-c11-")
  try:
    co = tfl.premade.get_custom_objects()
    if fmt == "weights":
      model.save_weights(d + "/w.h5")
      m2 = type(model).from_config(model.get_config(), custom_objects=co)
      m2.load_weights(d + "/w.h5")
    else:
      path = d + {"keras": "/m.keras", "h5": "/m.h5", "tf": "/sm"}[fmt]
      model.save(path) if fmt != "tf" else model.save(path, save_format="tf")
      m2 = keras.models.load_model(path, custom_objects=co)
    # config round trip of the whole model: second-generation config equal, same regularization losses on the same weights
    if fmt != "tf":
      try:
        cfg1 = model.get_config()
        m3 = type(model).from_config(cfg1, custom_objects=co)
        cfg3 = m3.get_config()
        n1_, n3_ = _norm(cfg1), _norm(cfg3)
        ctx.check("model/config-second-generation-equal", n1_ == n3_,
                  "%s model: get_config() of the model rebuilt from its config differs (e.g. lists grown by the builder)" % desc["kind"], info=info)
        m3.set_weights(model.get_weights())
        l1 = float(sum(np.asarray(l) for l in model.losses)) if model.losses else 0.0
        l3 = float(sum(np.asarray(l) for l in m3.losses)) if m3.losses else 0.0
        ctx.check("model/rebuilt-same-regularization-loss", abs(l1 - l3) <= 1e-6 * max(1.0, abs(l1)),
                  "%s model: regularization losses differ after rebuilding from the config with the same weights: %.9g vs %.9g" % (desc["kind"], l1, l3), info=info)
      except Exception as e2:
        ctx.check("model/config-second-generation-equal", False, "%s model: from_config(get_config()) raised %s: %s" % (desc["kind"], type(e2).__name__, str(e2)[:200]), info=info)
    y2 = np.asarray(m2.predict(X, verbose=0))
    e = float(np.abs(y2 - y).max())
    ctx.check("model/save-load-same-outputs", e <= 1e-6 * core.scale_of(y), "%s model reloaded from %s differs by %.3g" % (desc["kind"], fmt, e), info=info)
    if hasattr(m2, "trainable_variables") and fmt != "tf":
      c1 = sorted(v.name for v in model.trainable_variables if v.constraint is not None)
      c2 = sorted(v.name for v in m2.trainable_variables if v.constraint is not None)
      # constraints must be re-attached: same constrained variables (names may carry a suffix), then a hostile update stays in the C03 invariants
      ok = len(c1) == len(c2)
      ctx.check("model/reloaded-keeps-constraints", ok, "reloaded model has %d constrained variables, the original %d" % (len(c2), len(c1)), info=info)
      if ok:
        for v in m2.trainable_variables:
          v.assign((rng.normal(size=v.shape) * 3.0).astype(np.float32))
        for v in m2.trainable_variables:
          if v.constraint is not None:
            v.assign(v.constraint(v))
        c03._judge(ctx, {"desc": desc}, m2, -1, "reload from %s, then an arbitrary update followed by every variable's constraint" % fmt)
  except Exception as e:
    ctx.check("model/save-load-same-outputs", False, "%s model: save/load through %s raised %s: %s" % (desc["kind"], fmt, type(e).__name__, str(e)[:200]), info=info)
  finally:
    shutil.rmtree(d, ignore_errors=True)
  return True, core.digest([desc, fmt, steps])


def run_case(ctx, case):
  st = _ensure()
  if case["kind"] == "object":
    return _run_object(ctx, case, st)
  return _run_model(ctx, case, st)
