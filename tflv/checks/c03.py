"""C03 - Premade and composed models stay monotone and bounded after any
training history.

Monitors: histories of one model: construction, optimizer steps (new / legacy
tf_keras optimizers, learning rates 0.01..10, adversarial targets, eager or
graph-compiled train step), set_weights(get_weights()).  At every quiescent
state the model is evaluated on a product grid (numeric features below /
inside / above the keypoint range, every category) and on a copy with missing
values injected.  Oracle O-pairs: monotone along every constrained axis,
categorical pairs ordered, outputs inside the bounds, all finite.  Attribution
hook: every PWL calibrator's keypoint outputs inside its declared range.
"""
import numpy as np

from tflv import core
from tflv import findings
from tflv.gen import premade as gp

PROPERTY = "C03"
RULE = ("history = one model (kind x feature mix x bounds x output calibration x options) taken through construction, 1-3 optimizer steps and a "
        "set_weights(get_weights()) round trip; every state is judged on the full product grid and on a missing-value copy; "
        "non-trivial state = grid output range > 1e-3 (a collapsed model is trivially monotone); distinct by digest of (model description, step, weights)")
MIN_EVENTS = {
    "quick": {"state/missing-output-in-calibrator-bounds": 30, "state/monotone-on-grid": 60, "state/bounded-on-grid": 50, "state/finite": 60},
    "thorough": {"state/missing-output-in-calibrator-bounds": 1440, "state/monotone-on-grid": 4000, "state/bounded-on-grid": 3000, "state/finite": 6000},
}
ASSUMPTIONS = [
    "tol = 1e-5*max(1,|grid outputs|); histories whose weights leave the finite float32 range are cut (overflow: inconclusive for that history, never a violation)",
    "bounded histories: <= 4 states per model in quick, <= 7 in thorough",
    "trust / unimodality feature options are not generated (the property is about monotonicity, categorical order and bounds)",
]
_state = {}


def setup(ctx):
  from tflv import tfenv
  tf, tfl = tfenv.setup()
  import tf_keras as keras
  _state.update(tf=tf, tfl=tfl, keras=keras)


def _ensure():
  if "tf" not in _state:
    setup(None)
  return _state


def gen_cases(ctx):
  rng = ctx.rng
  for i in range(ctx.n):
    kind = gp.KINDS[(i + 3 * ctx.shard) % len(gp.KINDS)]
    desc = gp.describe(rng, kind=kind)
    yield {"desc": desc, "optimizer": str(rng.choice(["SGD", "Adam", "Adagrad", "RMSprop", "legacy.SGD"])),
           "lr": float(rng.choice([0.01, 0.1, 1.0, 10.0])), "loss": str(rng.choice(["mse", "mae"])),
           "steps": int(rng.randint(1, 4)) if ctx.tier == "quick" else int(rng.randint(2, 6)),
           "eager": bool(rng.rand() < .25), "target_scale": float(rng.choice([0.3, 1.0, 5.0])),
           "seed": int(rng.randint(2**31 - 1))}


def _calibrator_ranges(model):
  """Invariant hook: [(layer name, mono, conv, out_of_range_amount)] for every
  PWLCalibration reachable in the model."""
  from tensorflow_lattice.python import pwl_calibration_layer as pl
  from tensorflow_lattice.python import parallel_combination_layer as pcl
  from tensorflow_lattice.python import utils
  out = []
  layers = []
  for l in model.layers:
    layers.append(l)
    if isinstance(l, pcl.ParallelCombination):
      layers.extend(l.calibration_layers)
  for l in layers:
    if isinstance(l, pl.PWLCalibration) and getattr(l, "built", False):
      ko = l.keypoints_outputs().numpy().astype(np.float64)
      amt = 0.0
      if l.output_min is not None:
        amt = max(amt, float(l.output_min - ko.min()))
      if l.output_max is not None:
        amt = max(amt, float(ko.max() - l.output_max))
      mamt = None
      if l.impute_missing and getattr(l, "missing_output", None) is not None and hasattr(l.missing_output, "numpy"):
        mo = np.asarray(l.missing_output.numpy(), dtype=np.float64)
        mamt = 0.0
        if l.output_min is not None:
          mamt = max(mamt, float(np.float32(l.output_min) - mo.min()))
        if l.output_max is not None:
          mamt = max(mamt, float(mo.max() - np.float32(l.output_max)))
      out.append({"layer": l.name, "mono": utils.canonicalize_monotonicity(l.monotonicity),
                  "conv": utils.canonicalize_convexity(l.convexity), "out_of_range": amt, "missing_out_of_range": mamt})
  return out


def _hooks(model, desc):
  """Attribution hooks evaluated at the quiescent point (never used to decide a
  violation, only to name the mechanism of one):
    degenerate: some learned-keypoint calibrator has a float32-degenerate
      segment whose keypoint coordinate is one of the grid values (KF-C05-a);
    linear_wrong_sign: a Linear layer holds a weight whose sign contradicts its
      monotonicity (default random_uniform initializer, KF-C03-c)."""
  tf = _state["tf"]
  from tensorflow_lattice.python import pwl_calibration_layer as pl
  from tensorflow_lattice.python import parallel_combination_layer as pcl
  from tensorflow_lattice.python import linear_layer as lin
  from tensorflow_lattice.python import utils
  layers = []
  for l in model.layers:
    layers.append(l)
    if isinstance(l, pcl.ParallelCombination):
      layers.extend(l.calibration_layers)
  grid_vals = set(np.float32(v) for ax in gp.grid_axes(desc) for v in ax)
  degenerate = False
  degenerate_any = False
  wrong_sign = False
  for l in layers:
    if isinstance(l, pl.PWLCalibration) and getattr(l, "built", False) and l.input_keypoints_type == "learned_interior":
      lengths = (tf.nn.softmax(l.interpolation_logits, axis=1) * l._keypoint_range).numpy().astype(np.float32)
      kps = (np.cumsum(lengths, axis=1) - lengths + np.float32(l._keypoint_min)).astype(np.float32)
      if not np.all(np.isfinite(lengths)):
        degenerate = True
      mask = (kps + lengths).astype(np.float32) == kps
      if mask.any() or not np.all(np.isfinite(lengths)):
        degenerate_any = True          # also covers output calibrators, whose input is internal to the model
      for k in kps[mask]:
        if np.float32(k) in grid_vals:
          degenerate = True
    if isinstance(l, lin.Linear) and getattr(l, "built", False):
      mono = utils.canonicalize_monotonicities(l.monotonicities)
      if mono:
        K = l.kernel.numpy()
        for d, m in enumerate(mono):
          if (m == 1 and K[d].min() < 0) or (m == -1 and K[d].max() > 0):
            wrong_sign = True
  return {"degenerate_learned_keypoint_on_grid": degenerate, "degenerate_learned_keypoint_any": degenerate_any, "linear_wrong_sign": wrong_sign}


def _judge(ctx, case, model, step, label):
  desc = case["desc"]
  axes = gp.grid_axes(desc)
  G = np.meshgrid(*axes, indexing="ij")
  cols = [g.reshape(-1) for g in G]
  X = gp.model_inputs(desc, cols)
  ws = [w.numpy() for w in model.weights]
  if not all(np.all(np.isfinite(w)) for w in ws) or max(float(np.abs(w).max()) for w in ws if w.size) > 1e15:
    ctx.note("overflow-history-cut")
    return None
  hooks = _hooks(model, desc)
  info = {"step": step, "how": label, "hooks": hooks}
  try:
    y = np.asarray(model.predict(X, verbose=0, batch_size=8192)).reshape(G[0].shape).astype(np.float64)
  except Exception as e:
    # an exception here is an out-of-range / NaN index inside a clip_inputs=False lattice: name the upstream mechanism
    fk = "KF-C05-a" if hooks["degenerate_learned_keypoint_any"] else None
    if fk is None:
      fk = findings.classify_c03(step, "exception", _calibrator_ranges(model), core.REL_TOL, hooks)
    ctx.check("state/finite", False, "model evaluation raised %s with finite weights after %s: %s" % (
        type(e).__name__, label, str(e).strip().splitlines()[-1][:200]), info=info, finding=fk)
    return None
  fin = bool(np.all(np.isfinite(y)))
  cal = _calibrator_ranges(model)
  if step != 0:
    # categorical calibrators: after every update the constraint leaves the bucket values ordered along every configured
    # pair (any acyclic pair set) - the layer-boundary form of "ordered according to every categorical monotonicity pair"
    from tensorflow_lattice.python import categorical_calibration_layer as ccl
    from tensorflow_lattice.python import parallel_combination_layer as pcl2
    clayers = []
    for l in model.layers:
      clayers.append(l)
      if isinstance(l, pcl2.ParallelCombination):
        clayers.extend(l.calibration_layers)
    for l in clayers:
      if isinstance(l, ccl.CategoricalCalibration) and getattr(l, "built", False) and l.monotonicities:
        K = l.kernel.numpy().astype(np.float64)
        worst = max(float((K[a] - K[b]).max()) for a, b in l.monotonicities)
        tk = core.REL_TOL * core.scale_of(K)
        ctx.check("state/categorical-calibrator-ordered", worst <= tk,
                  "calibrator %s: bucket values violate an ordering pair by %.3g (tol %.3g) after %s" % (l.name, worst, tk, label),
                  info=dict(info, pairs=[list(p) for p in l.monotonicities], kernel=K.tolist()), ratio=max(worst, 0) / tk)
    # the value a calibrator substitutes for a missing input is a weight of its own, clipped into the calibrator's
    # bounds by its constraint after every update: judged exactly (tf.clip), at the layer boundary
    for c in cal:
      if c.get("missing_out_of_range") is not None and np.isfinite(c["missing_out_of_range"]):
        ctx.check("state/missing-output-in-calibrator-bounds", c["missing_out_of_range"] <= 0.0,
                  "calibrator %s substitutes a value %.6g outside its own output bounds for a missing input after %s" % (
                      c["layer"], c["missing_out_of_range"], label), info=dict(info, calibrator=c))
  ctx.check("state/finite", fin, "non-finite model output with finite weights after %s" % label, info=info,
            finding=("KF-C05-a" if (not fin and hooks["degenerate_learned_keypoint_any"]) else None))
  if not fin:
    return None
  tol = core.REL_TOL * core.scale_of(y)
  worst = []
  for i, f in enumerate(desc["features"]):
    D = np.diff(y, axis=i)
    if f["type"] == "inc":
      worst.append((float((-D).max()), "increasing feature %s" % f["name"], "numeric"))
    elif f["type"] == "dec":
      worst.append((float(D.max()), "decreasing feature %s" % f["name"], "numeric"))
    elif f["type"] == "cat":
      yy = np.moveaxis(y, i, 0)
      v = max(float((yy[a] - yy[b]).max()) for a, b in f["pairs"])
      worst.append((v, "categorical pairs of %s" % f["name"], "categorical"))
  if worst:
    bad = [w for w in worst if w[0] > tol]
    if not bad:
      ctx.check("state/monotone-on-grid", True, ratio=max(max(w[0], 0) for w in worst) / tol)
    for v, what, ftype in bad:
      fk = findings.classify_c03(step, ftype, cal, tol, hooks)
      ctx.check("state/monotone-on-grid", False, "model output violates %s by %.3g (tol %.3g) after %s" % (what, v, tol, label),
                info=dict(info, what=what, amount=v, calibrators=cal), finding=fk)
  omin, omax = desc["omin"], desc["omax"]
  if (omin is not None or omax is not None) and gp.stack_has_bounds(desc):
    Xm_cols = [c.copy() for c in cols]
    for i, f in enumerate(desc["features"]):
      if f["default_value"] is not None:
        Xm_cols[i] = Xm_cols[i].astype(np.float64)
        Xm_cols[i][::3] = f["default_value"]
    ym = np.asarray(model.predict(gp.model_inputs(desc, Xm_cols), verbose=0, batch_size=8192)).astype(np.float64)
    tb = core.REL_TOL * core.scale_of(y, ym, [b for b in (omin, omax) if b is not None])
    for name, yy in (("grid", y), ("grid with missing values", ym)):
      okf = bool(np.all(np.isfinite(yy)))
      lo = (omin - yy.min()) if omin is not None else -np.inf
      hi = (yy.max() - omax) if omax is not None else -np.inf
      v = max(lo, hi) if okf else float("inf")
      fk = None
      if v > tb:
        fk = ("KF-C05-a" if (not okf and hooks["degenerate_learned_keypoint_any"]) else findings.classify_c03(step, "bounds", cal, tb, hooks))
      ctx.check("state/bounded-on-grid", v <= tb, "outputs on the %s leave [%s, %s]: range [%.6g, %.6g] after %s" % (
          name, omin, omax, np.nanmin(yy), np.nanmax(yy), label), info=dict(info, calibrators=cal), finding=fk, ratio=max(v, 0) / tb)
  return float(y.max() - y.min())


def run_case(ctx, case):
  st = _ensure()
  tf, keras = st["tf"], st["keras"]
  desc = case["desc"]
  rng = np.random.RandomState(case["seed"])
  tf.keras.utils.set_random_seed(case["seed"] % (2**31))
  try:
    keras.utils.set_random_seed(case["seed"] % (2**31))
  except Exception:
    pass
  model = gp.build(desc)
  if case["seed"] % 4 == 0 and not desc["kind"].startswith("stack"):
    # a model restored through its config (clone_model, load_model) and trained further must keep every constraint
    try:
      import tensorflow_lattice as tfl_
      m2 = type(model).from_config(model.get_config(), custom_objects=tfl_.premade.get_custom_objects())
      m2.set_weights(model.get_weights())
      model = m2
      ctx.cls("model:rebuilt-from-config")
    except Exception as e:
      ctx.check("state/finite", False, "rebuilding the premade model from its config raised %s: %s" % (type(e).__name__, str(e)[:200]))
      return True, None
  ctx.cls("kind:" + desc["kind"], "bounds:" + desc["bounds"], "output_calibration:%s" % desc["output_calibration"],
          "optimizer:" + case["optimizer"], "lr:%g" % case["lr"], "eager:%s" % case["eager"])
  for f in desc["features"]:
    ctx.cls("feature:" + f["type"])
    if f.get("convexity"):
      ctx.cls("feature:convex")
    if f.get("keypoints_type") == "learned_interior":
      ctx.cls("feature:learned_keypoints")
    if f.get("default_value") is not None:
      ctx.cls("feature:default_value")
  spreads, keys = [], []
  r = _judge(ctx, case, model, 0, "construction")
  spreads.append(r or 0.0)
  # Hostile updates without an optimizer: every trainable variable receives an
  # arbitrary value (what an update with an arbitrary gradient and a large step
  # would leave behind), then every variable's own constraint is applied, as
  # Keras does after an update - in creation order or reversed.
  for k in range(case.get("random_updates", 2)):
    scale = float(rng.choice([0.3, 3.0, 30.0]))
    inside = bool(rng.rand() < .5)
    for v in model.trainable_variables:
      c_ = v.constraint
      lo_, hi_ = getattr(c_, "output_min", None), getattr(c_, "output_max", None)
      if inside and isinstance(lo_, (int, float)) and isinstance(hi_, (int, float)) and hi_ > lo_:
        # a bounded weight (calibrator kernels feeding a lattice): values spread over its own range rather than far outside,
        # where the final clip would flatten everything onto a bound and hide what the projection did before it
        r_ = hi_ - lo_
        v.assign(rng.uniform(lo_ - 0.2 * r_, hi_ + 0.2 * r_, size=v.shape).astype(np.float32))
      else:
        v.assign((rng.normal(size=v.shape) * scale + float(rng.choice([0.0, 0.0, scale]))).astype(np.float32))
    order = list(model.trainable_variables)
    rev = bool(rng.rand() < .4)
    if rev:
      order = order[::-1]
    for v in order:
      if v.constraint is not None:
        v.assign(v.constraint(v))
    ctx.cls("update:random+constraints", "constraint_order:%s" % ("reversed" if rev else "creation"), "update:inside-own-bounds:%s" % inside)
    r = _judge(ctx, case, model, -(k + 1), "arbitrary update (scale %g) followed by every variable's constraint (%s order)" % (scale, "reversed" if rev else "creation"))
    if r is None:
      break
    spreads.append(r)
    keys.append(core.arr_digest(*[w.numpy() for w in model.weights]))
  optname = case["optimizer"]
  opt = (getattr(keras.optimizers.legacy, optname.split(".")[1]) if optname.startswith("legacy") else getattr(keras.optimizers, optname))(learning_rate=case["lr"])
  model.compile(loss=case["loss"], optimizer=opt, run_eagerly=case["eager"])
  n = 48
  cols, sign = [], []
  for f in desc["features"]:
    if f["type"] in ("cat", "catnone"):
      cols.append(rng.randint(0, f["num_buckets"], size=n))
    else:
      c = rng.uniform(-1, 4, size=n)
      if f["default_value"] is not None:
        c[::5] = f["default_value"]
      cols.append(c)
    sign.append({"inc": -1, "dec": 1, "none": 0, "cat": -1, "catnone": 0}[f["type"]])
  Xt = gp.model_inputs(desc, cols)
  yt = sum(s * np.asarray(c, dtype=np.float64) for s, c in zip(sign, cols)) * case["target_scale"] + rng.normal(size=n) + float(rng.choice([-10, 0, 10]))
  yt = yt.reshape(-1, 1).astype(np.float32)
  alive = True
  for step in range(1, case["steps"] + 1):
    idx = rng.randint(0, n, size=16)
    xb = Xt[idx] if isinstance(Xt, np.ndarray) else [x[idx] for x in Xt]
    try:
      model.train_on_batch(xb, yt[idx])
    except Exception as e:
      # the forward pass of the step itself can hit the same out-of-range index as model.predict in _judge (a calibrator
      # that left [0, size-1] feeding a clip_inputs=False simplex lattice): same attribution, and the history ends here
      hooks = _hooks(model, desc)
      fk = "KF-C05-a" if hooks["degenerate_learned_keypoint_any"] else findings.classify_c03(step, "exception", _calibrator_ranges(model), core.REL_TOL, hooks)
      ctx.check("state/finite", False, "training step raised %s with finite weights (%s(lr=%g) step %d): %s" % (
          type(e).__name__, optname, case["lr"], step, str(e).strip().splitlines()[-1][:200]), info={"step": step, "hooks": hooks}, finding=fk)
      alive = False
      break
    r = _judge(ctx, case, model, step, "%s(lr=%g) step %d" % (optname, case["lr"], step))
    if r is None:
      alive = False
      break
    spreads.append(r)
    keys.append(core.arr_digest(*[w.numpy() for w in model.weights]))
  if alive:
    model.set_weights(model.get_weights())
    r = _judge(ctx, case, model, case["steps"] + 1, "set_weights(get_weights())")
    spreads.append(r or 0.0)
  return max(spreads) > 1e-3, core.digest([desc, case["optimizer"], case["lr"], keys])
