"""C14 - Alternative representations of the same function agree.

Monitors: paired calls of public callables on identical inputs:
  kfl       KroneckerFactoredLattice  vs  Lattice holding the dense kernel
            bias + mean_t scale_t * outer_d w[d,t]  (and vs O-hyper)
  pwl_fn    pwl_calibration_fn  vs  PWLCalibration (learned_interior layer with
            the front-padded parameters as logits; fixed-keypoint layer built
            from the derived keypoints when well conditioned)
  cdf       cdf_fn  vs  CDF layer ('mean' / 'none' reductions)
  parallel  ParallelCombination  vs  column-wise application of its layers
  aggregation  Aggregation  vs  NumPy mean of the wrapped model over ragged rows
  rtl       RTL  vs  manual gather of its recorded input indices into its lattices
"""
import numpy as np

from tflv import core
from tflv import modes
from tflv.oracles import kfl as okfl
from tflv.oracles import cpwl
from tflv.oracles import lattice as ol

PROPERTY = "C14"
RULE = ("case = one pair kind with seeded shapes / unit and term counts / options / parameters / inputs (ragged rows of different lengths for "
        "Aggregation); both members of the pair are executed on identical inputs and compared; non-trivial = outputs not all equal; "
        "distinct by digest of (pair kind, configuration, parameters, inputs)")
MIN_EVENTS = {
    "quick": {"pair/kfl=dense-lattice": 25, "pair/pwl_fn=learned-layer": 25, "pair/pwl_fn=fixed-layer": 8, "pair/cdf_fn=CDF-layer": 25,
              "pair/parallel=columnwise": 25, "pair/aggregation=ragged-mean": 20, "pair/rtl=manual-gather": 20},
    "thorough": {"pair/kfl=dense-lattice": 1000, "pair/pwl_fn=learned-layer": 1000, "pair/pwl_fn=fixed-layer": 300, "pair/cdf_fn=CDF-layer": 1000,
                 "pair/parallel=columnwise": 1000, "pair/aggregation=ragged-mean": 800, "pair/rtl=manual-gather": 800},
}
ASSUMPTIONS = [
    "equality within 1e-5*max(1, sum of absolute contributions); pwl pairs add the float32 conditioning bound of the derived segments",
    "geometric-mean reduction is excluded for the CDF pair (the statement says the epsilons differ on purpose)",
    "fixed-keypoint PWL pair only when every derived segment is >= 1e-3 of the input range",
]
_state = {}


def setup(ctx):
  from tflv import tfenv
  tf, tfl = tfenv.setup()
  import tf_keras as keras
  from tensorflow_lattice.python import conditional_pwl_calibration as cpc
  from tensorflow_lattice.python import conditional_cdf as ccdf
  _state.update(tf=tf, tfl=tfl, keras=keras, cpc=cpc, ccdf=ccdf)


def _ensure():
  if "tf" not in _state:
    setup(None)
  return _state


KINDS = ["kfl", "pwl_fn", "cdf", "parallel", "aggregation", "rtl"]


def gen_cases(ctx):
  rng = ctx.rng
  for i in range(ctx.n):
    yield {"kind": KINDS[i % len(KINDS)], "seed": int(rng.randint(2**31 - 1)), "exec": modes.pick(rng, (0.5, 0.2, 0.3))}


def _call(st, fn, *args):
  """The representation under test runs in the case's execution mode; its reference twin always runs eagerly."""
  return modes.call(st["tf"], st.get("exec", "eager"), fn, *args)


def _pair(ctx, site, a, b, tol, what, info=None):
  a, b = np.asarray(a, dtype=np.float64), np.asarray(b, dtype=np.float64)
  ok = a.shape == b.shape and bool(np.all(np.isfinite(a))) and bool(np.all(np.isfinite(b)))
  e = float(np.abs(a - b).max()) if ok and a.size else (0.0 if ok else float("inf"))
  ctx.check(site, ok and e <= tol, "%s: the two representations differ by %.3g (tol %.3g)" % (what, e, tol),
            info=dict(info or {}, err=e), ratio=e / tol if tol > 0 else None)


def _kfl(ctx, rng, st):
  tf, tfl = st["tf"], st["tfl"]
  L, dims = int(rng.choice([2, 3, 4])), int(rng.randint(1, 5))
  units, T = int(rng.choice([1, 2, 3])), int(rng.choice([1, 2, 3]))
  clip = bool(rng.rand() < .6)
  dt = "float64" if rng.rand() < .2 else "float32"          # float64 layers must agree at float64 resolution
  dkw = {} if dt == "float32" else {"dtype": dt}
  layer = tfl.layers.KroneckerFactoredLattice(lattice_sizes=L, units=units, num_terms=T, clip_inputs=clip, **dkw)
  B = 8
  span = 1.5 if clip else 0.0
  x = rng.uniform(-span, L - 1 + span, size=(B, units, dims)).astype(np.float32).astype(dt)
  x[0] = np.round(np.clip(x[0], 0, L - 1))
  xin = x if units > 1 else x[:, 0, :]
  # documented input forms: one tensor, a list of `dims` tensors with a trailing 1, extra batch dimensions
  form = str(rng.choice(["tensor", "tensor", "list", "extra_batch", "list_extra_batch"]))
  ctx.cls("kfl:form=" + form)
  if form in ("extra_batch", "list_extra_batch"):
    xin = xin.reshape((2, B // 2) + xin.shape[1:])
  feed = [tf.constant(xin[..., d:d + 1]) for d in range(dims)] if form.startswith("list") else tf.constant(xin)
  layer(feed)
  K = rng.normal(size=layer.kernel.shape).astype(np.float32)
  S = rng.normal(size=layer.scale.shape).astype(np.float32)
  b = rng.normal(size=layer.bias.shape).astype(np.float32)
  layer.kernel.assign(K); layer.scale.assign(S); layer.bias.assign(b)
  y = _call(st, layer, feed).numpy().reshape(B, units)
  dense = okfl.dense_kernel(K, S, b)
  lat = tfl.layers.Lattice(lattice_sizes=[L] * dims, units=units, clip_inputs=clip, **dkw)
  lat(feed)
  lat.kernel.assign(dense.astype(dt))
  y2 = lat(feed).numpy().reshape(B, units)
  mag = okfl.evaluate(np.abs(K), np.abs(S), np.abs(b), x.astype(np.float64), clip=clip)
  tol = (core.REL_TOL if dt == "float32" else 1e-11) * max(1.0, float(mag.max())) * 4
  ctx.cls("kfl:dtype=" + dt)
  ctx.cls("kfl:L=%d" % L, "kfl:dims=%d" % dims, "kfl:units=%d" % units, "kfl:terms=%d" % T, "kfl:clip=%s" % clip)
  _pair(ctx, "pair/kfl=dense-lattice", y, y2, tol, "KFL vs Lattice(dense kernel)")
  ref = np.stack([ol.hypercube(dense[:, u:u + 1], [L] * dims, x[:, u, :].astype(np.float64), clip)[:, 0] for u in range(units)], axis=1)
  _pair(ctx, "pair/kfl=hypercube-oracle", y, ref, tol, "KFL vs O-hyper(dense kernel)")
  return float(y.max() - y.min()) > 0, core.arr_digest(K, S, b, x)


def _pwl_fn(ctx, rng, st):
  tf, tfl, cpc = st["tf"], st["tfl"], st["cpc"]
  units, nk = int(rng.choice([1, 2, 3])), int(rng.choice([3, 4, 5, 8]))
  mono = str(rng.choice(["none", "increasing"]))
  cmin = bool(mono == "increasing" and rng.rand() < .5)
  cmax = bool(mono == "increasing" and rng.rand() < .5)
  cyc = bool(mono == "none" and rng.rand() < .4)
  use_missing = bool(rng.rand() < .4)
  imin, irange = float(rng.choice([0.0, -5.0, 100.0])), float(rng.choice([1.0, 10.0]))
  imax = imin + irange
  omin, omax = float(rng.choice([0.0, -2.0])), None
  omax = omin + float(rng.choice([1.0, 5.0]))
  mag = float(rng.choice([0.5, 2.0, 6.0, 40.0]))          # 40: increments / gaps spanning many orders of magnitude, exp() near overflow
  derived = bool(use_missing and rng.rand() < .5)          # imputed output derived from the last output parameter
  miv = (0.0 if rng.rand() < .3 else float(np.float32(imin - 3.0))) if use_missing else None      # 0.0: a marker that is falsy
  mov = float(omin + 0.3 * (omax - omin)) if (use_missing and not derived) else None
  out_size = nk - cmin - cmax - cyc + derived
  kin = (rng.normal(size=(1, units, nk - 2)) * min(mag, 6.0)).astype(np.float32)   # gaps stay resolvable in float32 (degenerate gaps: C15 / KF-C05-a)
  kout = (rng.normal(size=(1, units, out_size)) * mag).astype(np.float32)
  B = 12
  wide = bool(units > 1 and rng.rand() < .5)
  cols = units if wide else 1
  x = rng.uniform(imin - 0.3 * irange, imax + 0.3 * irange, size=(B, cols)).astype(np.float32)
  x[0, :], x[1, :] = np.float32(imin), np.float32(imax)
  if use_missing:
    x[2, :] = np.float32(miv)
  kw = dict(keypoint_input_min=imin, keypoint_input_max=imax, keypoint_output_min=omin, keypoint_output_max=omax, units=units,
            monotonicity=mono, clamp_min=cmin, clamp_max=cmax, is_cyclic=cyc, missing_input_value=miv, missing_output_value=mov)
  y, deltas, heights = _call(st, lambda a, b_, c: cpc.pwl_calibration_fn(a, b_, c, return_derived_parameters=True, **kw),
                             tf.constant(x), tf.constant(kin), tf.constant(kout))
  y, deltas, heights = y.numpy().astype(np.float64), deltas.numpy()[0].astype(np.float64), heights.numpy()[0].astype(np.float64)
  ctx.cls("pwl_fn:mono=" + mono, "pwl_fn:clamp=%d%d" % (cmin, cmax), "pwl_fn:cyclic=%s" % cyc, "pwl_fn:missing=%s" % use_missing, "pwl_fn:units=%d" % units)
  delta = 4 * core.F32_EPS * max(abs(imin), abs(imax)) * (1 + nk / 4.0)
  cond = max(float(np.sum(np.abs(heights[u, 1:]) * np.minimum(1.0, delta / np.maximum(deltas[u], 1e-300)))) for u in range(units))
  tol = core.REL_TOL * core.scale_of([omin, omax]) + 2 * cond
  # (i) learned_interior layer: identical softmax / cumsum formulas
  kp_init = np.linspace(imin, imax, nk)
  layer = tfl.layers.PWLCalibration(input_keypoints=kp_init.tolist(), units=units, input_keypoints_type="learned_interior",
                                    impute_missing=use_missing, missing_input_value=miv, missing_output_value=mov)
  layer(tf.constant(x))
  ctx.cls("pwl_fn:derived_missing=%s" % derived)
  if derived:
    # documented: the imputed output is the sigmoid of each unit's last output parameter rescaled into the output range
    mo = omin + (omax - omin) / (1.0 + np.exp(-kout[0, :, -1].astype(np.float64)))
    layer.missing_output.assign(mo.reshape(1, units).astype(np.float32))
  logits = np.concatenate([np.zeros((units, 1), dtype=np.float32), kin[0]], axis=1)
  layer.interpolation_logits.assign(logits)
  # the "corresponding keypoints and weights" come from an independent float64 derivation (tflv/oracles/cpwl.py), not from
  # the function's own return_derived_parameters: a defect in the derivation itself must not be copied into the twin
  refs = [cpwl.derive(kin[0, u], kout[0, u], imin, imax, omin, omax, mono, cmin, cmax, cyc, derived) for u in range(units)]
  ref_heights = np.stack([np.concatenate([r[1][:1], np.diff(r[1])]) for r in refs], axis=1)       # (nk, units)
  layer.kernel.assign(ref_heights.astype(np.float32))
  y1 = layer(tf.constant(x)).numpy().astype(np.float64)
  _pair(ctx, "pair/pwl_fn=learned-layer", y, y1, tol, "pwl_calibration_fn vs PWLCalibration(learned_interior)",
        {"mono": mono, "nk": nk, "units": units})
  # and the function against the float64 reference itself, input by input (allowance as in C15: a piece is uncertain only
  # for inputs within float32 resolution of it)
  for u in range(units):
    kps_u, outs_u, mo_u = refs[u]
    hu = np.abs(np.diff(outs_u))
    lens_u = np.maximum(np.diff(kps_u), 1e-300)
    for b in range(B):
      xv = float(x[b, u if wide else 0])
      if use_missing and x[b, u if wide else 0] == np.float32(miv):
        want = mo_u if derived else mov
        tq = core.REL_TOL * core.scale_of([omin, omax])
      else:
        want = cpwl.evaluate(xv, kps_u, outs_u)
        near = (xv >= kps_u[:-1] - 4 * delta) & (xv <= kps_u[1:] + 4 * delta)
        tq = core.REL_TOL * core.scale_of([omin, omax]) + float(np.sum(hu * np.where(near, np.minimum(1.0, delta / lens_u), 0.0)))
      e = abs(y[b, u] - want) if np.isfinite(y[b, u]) else float("inf")
      ctx.check("pair/pwl_fn=float64-reference", e <= tq, "pwl_calibration_fn(%.9g) = %.9g, float64 reference %.9g (unit %d, tol %.3g)" % (xv, y[b, u], want, u, tq),
                info={"x": xv, "unit": u, "mono": mono, "clamp": [cmin, cmax], "cyclic": cyc, "kout": kout[0, u].tolist(), "kin": kin[0, u].tolist()}, ratio=e / tq)
  # (ii) fixed keypoints, when well conditioned
  if deltas.min() >= 1e-3 * irange and units == 1:
    kp = np.concatenate([[imin], imin + np.cumsum(deltas[0])])
    kp[-1] = max(kp[-1], kp[-2] + 1e-9)
    fixed = tfl.layers.PWLCalibration(input_keypoints=kp.tolist(), units=1, impute_missing=use_missing,
                                      missing_input_value=miv, missing_output_value=mov)
    fixed(tf.constant(x))
    if derived:
      fixed.missing_output.assign(mo.reshape(1, 1).astype(np.float32))
    fixed.kernel.assign(ref_heights.astype(np.float32))
    y2 = fixed(tf.constant(x)).numpy().astype(np.float64)
    _pair(ctx, "pair/pwl_fn=fixed-layer", y, y2, tol * 2, "pwl_calibration_fn vs PWLCalibration(fixed derived keypoints)")
  return float(y.max() - y.min()) > 0, core.arr_digest(kin, kout, x)


def _cdf(ctx, rng, st):
  tf, tfl, ccdf = st["tf"], st["tfl"], st["ccdf"]
  sf = int(rng.choice([1, 1, 2]))
  units, D = sf * int(rng.choice([1, 2])), sf * int(rng.choice([1, 2, 3]))
  nkp = int(rng.choice([1, 3, 5]))
  act, red = str(rng.choice(["relu6", "sigmoid"])), str(rng.choice(["mean", "none"]))
  stype = str(rng.choice(["fixed", "learned_shared", "learned_per_input"]))
  layer = tfl.layers.CDF(num_keypoints=nkp, units=units, activation=act, reduction=red, sparsity_factor=sf,
                         input_scaling_type=stype, input_scaling_init=float(rng.choice([0.5, 1.0, 7.0])))
  B = 7
  x = (rng.normal(size=(B, D)) * 3).astype(np.float32)
  layer(tf.constant(x))
  layer.kernel.assign((rng.normal(size=layer.kernel.shape) * 2).astype(np.float32))
  if stype != "fixed":
    layer.input_scaling.assign(np.abs(rng.normal(size=layer.input_scaling.shape)).astype(np.float32) * 3)
  y = layer(tf.constant(x)).numpy()
  kern = layer.kernel.numpy()
  sc = np.broadcast_to(np.asarray(layer.input_scaling), (1, D, 1, 1)) if stype != "learned_per_input" else layer.input_scaling.numpy()
  y2 = _call(st, lambda a, b_, c: ccdf.cdf_fn(a, b_, c, units=units, activation=act, reduction=red, sparsity_factor=sf),
             tf.constant(x), tf.constant(np.tile(kern, [B, 1, 1, 1])), tf.constant(np.tile(sc, [B, 1, 1, 1]).astype(np.float32))).numpy()
  ctx.cls("cdf:act=" + act, "cdf:red=" + red, "cdf:sparsity=%d" % sf, "cdf:scaling=" + stype)
  _pair(ctx, "pair/cdf_fn=CDF-layer", y, y2, 1e-5, "cdf_fn vs CDF layer", {"act": act, "red": red, "sf": sf})
  return float(y.max() - y.min()) > 0, core.arr_digest(kern, x)


def _parallel(ctx, rng, st):
  tf, tfl = st["tf"], st["tfl"]
  k = int(rng.randint(1, 5))
  layers, B = [], 9
  cols = []
  for j in range(k):
    if rng.rand() < .5:
      nk = int(rng.choice([2, 3, 5]))
      kp = np.concatenate([[0.0], np.cumsum(rng.choice([.5, 1., 2.], size=nk - 1))])
      layers.append(tfl.layers.PWLCalibration(input_keypoints=kp.tolist(), kernel_initializer="equal_heights"))
      cols.append(rng.uniform(-1, kp[-1] + 1, size=(B, 1)).astype(np.float32))
    else:
      nb = int(rng.randint(2, 6))
      layers.append(tfl.layers.CategoricalCalibration(num_buckets=nb))
      cols.append(rng.randint(0, nb, size=(B, 1)).astype(np.float32))
  single = bool(rng.rand() < .6)
  as_list = bool(rng.rand() < .4)
  pc = tfl.layers.ParallelCombination(calibration_layers=layers, single_output=single)
  x = np.concatenate(cols, axis=1)
  inp = [tf.constant(c) for c in cols] if as_list else tf.constant(x)
  y = pc(inp)
  for l in layers:
    l.kernel.assign(rng.normal(size=l.kernel.shape).astype(np.float32))
  y = _call(st, pc, inp)
  y = np.concatenate([t.numpy() for t in y], axis=1) if not single else y.numpy()
  ref = np.concatenate([l(tf.constant(c)).numpy() for l, c in zip(layers, cols)], axis=1)
  ctx.cls("parallel:k=%d" % k, "parallel:single=%s" % single, "parallel:list_input=%s" % as_list)
  _pair(ctx, "pair/parallel=columnwise", y, ref, 1e-6 * core.scale_of(ref), "ParallelCombination vs column-wise layers")
  return float(np.ptp(ref)) > 0, core.arr_digest(x, ref)


def _aggregation(ctx, rng, st):
  tf, tfl, keras = st["tf"], st["tfl"], st["keras"]
  nfeat = int(rng.randint(1, 4))
  inputs = [keras.layers.Input(shape=(1,)) for _ in range(nfeat)]
  cal = [tfl.layers.PWLCalibration(input_keypoints=[0.0, 1.0, 2.0], output_min=0.0, output_max=1.0)(t) for t in inputs]
  merged = keras.layers.Concatenate(axis=1)(cal) if nfeat > 1 else cal[0]
  out = tfl.layers.Linear(num_input_dims=nfeat)(merged)
  inner = keras.Model(inputs=inputs, outputs=out)
  for w in inner.weights:
    w.assign(rng.normal(size=w.shape).astype(np.float32))
  agg = tfl.layers.Aggregation(inner)
  B = int(rng.randint(2, 6))
  lens = [int(rng.randint(1, 6)) for _ in range(B)]
  if rng.rand() < .35:
    # examples without any element (an empty ragged row, in the middle or at the end of the batch): every example still
    # gets its own output row, and the non-empty examples are unaffected (the mean of an empty row itself is not judged)
    for b in rng.choice(B, size=int(rng.randint(1, 3)), replace=False):
      lens[int(b)] = 0
    if rng.rand() < .5:
      lens[-1] = 0
    if all(l == 0 for l in lens):
      lens[0] = 2
  rows = [[rng.uniform(-0.5, 2.5, size=l).astype(np.float32) for l in lens] for _ in range(nfeat)]
  rag = [tf.ragged.constant([r.tolist() for r in feat], dtype=tf.float32, ragged_rank=1) for feat in rows]
  y = agg(rag if nfeat > 1 else rag).numpy() if nfeat > 1 else agg(rag).numpy()
  ref = []
  for b in range(B):
    if lens[b] == 0:
      ref.append(np.nan)
      continue
    feats = [tf.constant(rows[f][b].reshape(-1, 1)) for f in range(nfeat)]
    ref.append(float(np.mean(inner(feats if nfeat > 1 else feats).numpy())))
  ref = np.array(ref).reshape(B, 1)
  ctx.cls("aggregation:features=%d" % nfeat, "aggregation:max_len=%d" % max(lens), "aggregation:min_len=%d" % min(lens))
  ok_rows = int(np.asarray(y).shape[0]) == B
  ctx.check("pair/aggregation=one-row-per-example", ok_rows, "Aggregation returned %d rows for %d examples (row lengths %s)" % (int(np.asarray(y).shape[0]), B, lens),
            info={"lens": lens})
  if not ok_rows:
    return True, core.arr_digest(np.array(lens))
  keep = np.array([l > 0 for l in lens])
  _pair(ctx, "pair/aggregation=ragged-mean", y.reshape(B, 1)[keep], ref[keep], 1e-5 * core.scale_of(ref[keep]), "Aggregation vs per-example mean over ragged elements",
        {"lens": lens})
  ref = ref[keep]
  return float(np.ptp(ref)) > 0, core.arr_digest(ref, np.array(lens))


def _rtl(ctx, rng, st):
  tf, tfl = st["tf"], st["tfl"]
  n_inc, n_unc = int(rng.randint(0, 5)), int(rng.randint(0, 5))
  if n_inc + n_unc < 2:
    n_unc += 2
  rank = int(rng.choice([2, 3]))
  nlat = int(np.ceil((n_inc + n_unc) / rank)) + int(rng.randint(0, 3))
  param = str(rng.choice(["all_vertices", "kronecker_factored"]))
  interp = str(rng.choice(["hypercube", "simplex"])) if param == "all_vertices" else "hypercube"
  L = int(rng.choice([2, 3]))
  sep, avg = bool(rng.rand() < .3), bool(rng.rand() < .4)
  kw = dict(num_lattices=nlat, lattice_rank=rank, lattice_size=L, parameterization=param, interpolation=interp,
            separate_outputs=sep, average_outputs=avg, random_seed=int(rng.randint(1000)), clip_inputs=bool(rng.rand() < .5))
  if param == "kronecker_factored":
    kw["kernel_initializer"] = "kfl_random_monotonic_initializer"
    kw["num_terms"] = int(rng.choice([1, 2]))
  layer = tfl.layers.RTL(**kw)
  B = 6
  feed = {}
  keys = ["increasing", "unconstrained"]
  if rng.rand() < .5:
    keys = keys[::-1]          # the dict may be written in either key order
  for key in keys:
    if key == "increasing" and n_inc:
      feed["increasing"] = tf.constant(rng.uniform(0, L - 1, size=(B, n_inc)).astype(np.float32))
    if key == "unconstrained" and n_unc:
      feed["unconstrained"] = tf.constant(rng.uniform(0, L - 1, size=(B, n_unc)).astype(np.float32))
  ctx.cls("rtl:dict_order=" + ",".join(feed.keys()))
  y = layer(feed)
  for lay in layer._lattice_layers.values():
    for w in lay.weights:
      w.assign(rng.normal(size=w.shape).astype(np.float32))
  y = _call(st, layer, feed)
  flat = np.concatenate([feed[k].numpy() for k in sorted(feed.keys())], axis=1).astype(np.float64)
  outs = [[], []]
  for monos, inputs_for_units in layer._rtl_structure:
    lay = layer._lattice_layers[str(monos)]
    cols = []
    for u, idxs in enumerate(inputs_for_units):
      xs = flat[:, list(idxs)]
      if param == "all_vertices":
        kern = lay.kernel.numpy().astype(np.float64)[:, u:u + 1]
        f = ol.hypercube if interp == "hypercube" else ol.simplex
        cols.append(f(kern, [L] * rank, xs, kw["clip_inputs"])[:, 0])
      else:
        K = lay.kernel.numpy().reshape(1, L, len(inputs_for_units), rank, -1)[:, :, u, :, :].reshape(1, L, rank, -1)
        cols.append(okfl.evaluate(K, lay.scale.numpy()[u:u + 1], lay.bias.numpy()[u:u + 1], xs[:, None, :], clip=kw["clip_inputs"])[:, 0])
    outs[max(monos)].append(np.stack(cols, axis=1))
  ctx.cls("rtl:param=" + param, "rtl:interp=" + interp, "rtl:separate=%s" % sep, "rtl:average=%s" % avg, "rtl:inc=%d" % n_inc, "rtl:unc=%d" % n_unc)
  if sep:
    ok = True
    got_all, ref_all = [], []
    for m, key in ((0, "unconstrained"), (1, "increasing")):
      if outs[m]:
        ref_all.append(np.concatenate(outs[m], axis=1))
        ok = ok and key in y
        if key in y:
          got_all.append(y[key].numpy())
      else:
        ok = ok and key not in y
    ctx.check("rtl/separate-output-keys", ok, "separate_outputs keys %s do not match the lattices' monotonicity labels" % list(y.keys()))
    if not ok:
      return True, None
    got, ref = np.concatenate(got_all, axis=1), np.concatenate(ref_all, axis=1)
  else:
    ref = np.concatenate(outs[0] + outs[1], axis=1)
    if avg:
      ref = ref.mean(axis=-1, keepdims=True)
    got = y.numpy()
  _pair(ctx, "pair/rtl=manual-gather", got, ref, 1e-4 * core.scale_of(ref), "RTL vs manual gather into its lattices",
        {"structure": core.to_jsonable(layer._rtl_structure)})
  return float(np.ptp(ref)) > 0, core.arr_digest(ref, flat)


def run_case(ctx, case):
  st = _ensure()
  rng = np.random.RandomState(case["seed"])
  fn = {"kfl": _kfl, "pwl_fn": _pwl_fn, "cdf": _cdf, "parallel": _parallel, "aggregation": _aggregation, "rtl": _rtl}[case["kind"]]
  st["exec"] = case.get("exec", "eager")
  ctx.cls("pair:" + case["kind"], "exec:" + st["exec"])
  nontrivial, key = fn(ctx, rng, st)
  return nontrivial, core.digest([case["kind"], st["exec"], key])
