"""Child interpreter of C17's cross-process determinism monitor: reads a JSON list of ensemble / RTL configurations from
stdin, computes the arrangements with the repository's code in *this* process (its own PYTHONHASHSEED, set by the parent)
and prints them as JSON on the last line of stdout."""
import json
import sys


def main():
  from tflv import tfenv
  tf, tfl = tfenv.setup()
  from tensorflow_lattice.python import premade_lib as pl
  out = []
  for c in json.load(sys.stdin):
    if c["what"] == "random":
      fcs = [tfl.configs.FeatureConfig(n_, pwl_calibration_input_keypoints=[0.0, 1.0], monotonicity=m) for n_, m in zip(c["names"], c["monos"])]
      mc = tfl.configs.CalibratedLatticeEnsembleConfig(feature_configs=fcs, lattices="random", num_lattices=c["nl"], lattice_rank=c["rank"],
                                                       random_seed=c["seed"], output_initialization=[0.0, 1.0])
      pl.set_random_lattice_ensemble(mc)
      out.append([list(map(str, l)) for l in mc.lattices])
    else:
      layer = tfl.layers.RTL(num_lattices=c["nl"], lattice_rank=c["rank"], random_seed=c["seed"])
      shapes = {k: (None, v) for k, v in c["shapes"].items()}
      st = layer._get_rtl_structure(shapes)
      out.append(json.loads(json.dumps(st, default=lambda o: list(o))))
  print("C17CHILD " + json.dumps(out))


if __name__ == "__main__":
  main()
