"""Construction of feasible kernels (for "feasible => unchanged" checks and
for assert_constraints tests) independent of the library's projections."""
import numpy as np
import scipy.optimize as so

from tflv import core
from tflv.oracles import lattice as ol


def _tuples(l):
  return [tuple(x) for x in (l or [])]


def lattice_rows(cfg, families=None):
  return ol.build_rows(
      cfg["sizes"], cfg.get("mono"), cfg.get("unimod"), _tuples(cfg.get("ew")),
      _tuples(cfg.get("tz")), _tuples(cfg.get("mdom")), _tuples(cfg.get("rdom")),
      _tuples(cfg.get("jmono")), [(tuple(d), s) for d, s in (cfg.get("junimod") or [])],
      families=families)


def lattice_violation(cfg, w):
  """(largest violation of strict families+bounds, of every family+bounds)."""
  sizes, units = list(cfg["sizes"]), int(w.shape[1])
  W = np.asarray(w, dtype=np.float64).reshape(sizes + [units])
  maps = ol.all_violation_maps(W, sizes, cfg.get("mono"), cfg.get("unimod"), _tuples(cfg.get("ew")),
                               _tuples(cfg.get("tz")), _tuples(cfg.get("mdom")),
                               _tuples(cfg.get("rdom")), _tuples(cfg.get("jmono")))
  strict = every = 0.0
  for key, V in maps.items():
    mx = float(V.max()) if V.size else 0.0
    every = max(every, mx)
    if key[0] in ("monotonicity", "edgeworth", "trapezoid"):
      strict = max(strict, mx)
  if cfg.get("junimod"):
    R = ol.build_rows(sizes, junimod=[(tuple(d), s) for d, s in cfg["junimod"]],
                      families={"joint_unimodality"})
    A = R.dense()
    if len(A):
      every = max(every, float((A @ W.reshape(-1, units)).max()))
  if cfg.get("omin") is not None:
    b = core.f32(cfg["omin"]) - float(W.min())
    every, strict = max(every, b), max(strict, b)
  if cfg.get("omax") is not None:
    b = float(W.max()) - core.f32(cfg["omax"])
    every, strict = max(every, b), max(strict, b)
  return strict, every


def lp_interior(A, rng, n, box=1.0, frac=0.5, randomise=True):
  """Point of {A w <= -t, |w| <= box} with t >= frac * t_max, random direction.
  Returns (w, t_used, t_max)."""
  m = A.shape[0]
  if m == 0:
    return rng.uniform(-box, box, size=n), 1.0, 1.0
  c = np.zeros(n + 1)
  c[n] = -1.0
  Aub = np.hstack([A, np.ones((m, 1))])
  bounds = [(-box, box)] * n + [(0.0, box)]
  r = so.linprog(c, A_ub=Aub, b_ub=np.zeros(m), bounds=bounds, method="highs")
  if r.status != 0:
    return np.zeros(n), 0.0, 0.0
  tmax = float(r.x[n])
  w = r.x[:n]
  if not randomise:
    return w, tmax, tmax
  tmin = frac * tmax
  c2 = np.concatenate([rng.normal(size=n), [0.0]])
  bounds2 = [(-box, box)] * n + [(tmin, box)]
  r2 = so.linprog(c2, A_ub=Aub, b_ub=np.zeros(m), bounds=bounds2, method="highs")
  if r2.status == 0:
    # mix vertex with the centre to stay off the boundary of the box as well
    lam = rng.uniform(0.3, 1.0)
    w2 = lam * r2.x[:n] + (1 - lam) * w
    return w2, min(tmin, tmax), tmax
  return w, tmax, tmax


def lattice_feasible_lp(cfg, rng):
  n, units = int(np.prod(cfg["sizes"])), cfg["units"]
  A = lattice_rows(cfg).dense()
  cols = []
  for u in range(units):
    w, _, _ = lp_interior(A, rng, n)
    cols.append(w)
  return np.stack(cols, axis=1)


def lattice_feasible_struct(cfg, rng):
  """Structured feasible kernels; every candidate is verified by the oracle
  and the constant kernel is the fall-back."""
  sizes, units = list(cfg["sizes"]), cfg["units"]
  n = int(np.prod(sizes))
  rank = len(sizes)
  grids = np.meshgrid(*[np.arange(s, dtype=np.float64) for s in sizes], indexing="ij")
  cands = []
  kind = rng.choice(["additive", "product", "linear_all", "const"])
  cond_dims = set(t[1] for t in _tuples(cfg.get("ew")) + _tuples(cfg.get("tz")))
  if kind == "additive":
    f = np.zeros(sizes)
    for d in range(rank):
      if cfg["mono"][d] and d not in cond_dims:
        g = np.cumsum(np.abs(rng.normal(size=sizes[d])))
        f = f + g[grids[d].astype(int)]
    cands.append(f)
  elif kind == "product":
    f = np.zeros(sizes)
    ts = _tuples(cfg.get("ew")) + _tuples(cfg.get("tz"))
    if ts:
      m, c, dr = ts[int(rng.randint(len(ts)))]
      gm = np.linspace(-1.0, 1.0, sizes[m])
      gc = 1.0 + np.arange(sizes[c]) if dr > 0 else 1.0 + np.arange(sizes[c])[::-1]
      f = gm[grids[m].astype(int)] * gc[grids[c].astype(int)]
    cands.append(f)
  elif kind == "linear_all":
    f = np.zeros(sizes)
    for d in range(rank):
      if cfg["mono"][d] and d not in cond_dims:
        f = f + float(rng.uniform(0.1, 2.0)) * grids[d]
    cands.append(f)
  cands.append(np.ones(sizes) * float(rng.normal()))
  for f in cands:
    w = np.stack([f.ravel() * float(s) + float(o) for s, o in
                  zip(rng.uniform(0.5, 2.0, size=units), rng.normal(size=units))], axis=1)
    c2 = dict(cfg)
    c2["omin"] = c2["omax"] = None
    _, every = lattice_violation(c2, w.astype(np.float32))
    if every <= 1e-7 * core.scale_of(w):
      return w
  return np.ones((n, units))


def map_into_bounds(w, cfg, rng):
  """Positive affine map of each column into [omin, omax] (preserves all the
  homogeneous shape constraints)."""
  omin, omax = cfg.get("omin"), cfg.get("omax")
  if omin is None and omax is None:
    return w
  w = np.array(w, dtype=np.float64)
  for u in range(w.shape[1]):
    lo, hi = float(w[:, u].min()), float(w[:, u].max())
    span = max(hi - lo, 1e-12)
    if omin is not None and omax is not None:
      width = (omax - omin) * float(rng.uniform(0.3, 0.98))
      a = min(1.0, width / span) if span > 1e-9 else 1.0
      off = omin + (omax - omin - a * (hi - lo)) * float(rng.uniform(0.05, 0.95))
      w[:, u] = (w[:, u] - lo) * a + off
    elif omin is not None:
      w[:, u] = w[:, u] - lo + omin + float(rng.uniform(0.01, 2.0))
    else:
      w[:, u] = w[:, u] - hi + omax - float(rng.uniform(0.01, 2.0))
  return w
