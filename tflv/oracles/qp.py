"""Exact Euclidean projection onto a polyhedron {w : G w <= h}, with a KKT
certificate.

SciPy's nnls (1.18) was observed to return silently wrong answers on
degenerate inputs (more rows than dimensions, boundary points), so no solver
is trusted: whatever produced the candidate, it is accepted only if the KKT
conditions hold numerically
    p = w0 - G^T lam,  lam >= 0,  G p <= h + eps,  lam.(G p - h) ~ 0
which are sufficient for optimality of a convex QP.  Solvers tried in order:
SciPy nnls, an own Lawson-Hanson active-set NNLS (NumPy float64).  If none
certifies, None is returned and the caller records the evaluation as
"oracle unavailable" (never as a violation).
"""
import numpy as np
import scipy.optimize as so


def nnls_lh(E, f, maxiter=None):
  """Lawson-Hanson NNLS: min ||E x - f||, x >= 0."""
  m, n = E.shape
  maxiter = maxiter or 30 * n + 200
  P = np.zeros(n, dtype=bool)
  x = np.zeros(n)
  w = E.T @ (f - E @ x)
  tol = 10 * np.finfo(float).eps * max(1.0, np.abs(E).max()) * max(m, n) * max(1.0, np.abs(f).max())
  it = 0
  while (~P).any() and it < maxiter:
    cand = np.where(~P, w, -np.inf)
    j = int(np.argmax(cand))
    if cand[j] <= tol:
      break
    P[j] = True
    while True:
      it += 1
      s = np.zeros(n)
      sol, *_ = np.linalg.lstsq(E[:, P], f, rcond=None)
      s[P] = sol
      if s[P].min() > 0 or it > maxiter:
        break
      mask = P & (s <= 0)
      denom = x[mask] - s[mask]
      with np.errstate(divide="ignore", invalid="ignore"):
        ratios = np.where(denom > 0, x[mask] / denom, 0.0)
      alpha = float(ratios.min()) if ratios.size else 0.0
      x = x + alpha * (s - x)
      drop = P & (x <= 1e-15)
      if not drop.any():
        drop = mask
      P[drop] = False
      x[drop] = 0.0
      if not P.any():
        s = np.zeros(n)
        break
    x = np.where(P, np.maximum(s, 0.0), 0.0)
    w = E.T @ (f - E @ x)
  return x


def kkt_ok(G, h, w0, p, lam, eps):
  if p is None or not np.all(np.isfinite(p)) or not np.all(np.isfinite(lam)):
    return False
  if lam.min() < -eps:
    return False
  if np.abs(p - (w0 - G.T @ lam)).max() > eps:
    return False
  slack = G @ p - h
  if slack.max() > eps:
    return False
  if abs(float(lam @ slack)) > eps * max(1.0, float(lam.sum())):
    return False
  return True


def project_cone(A, w0, eps_rel=1e-9):
  """Projection onto {w: A w <= 0}. Returns p or None (uncertified)."""
  if A.shape[0] == 0:
    return w0.copy()
  h = np.zeros(A.shape[0])
  eps = eps_rel * max(1.0, float(np.abs(w0).max()))
  for solver in ("scipy", "own"):
    try:
      if solver == "scipy":
        lam, _ = so.nnls(A.T, w0, maxiter=50 * A.shape[0] + 1000)
      else:
        lam = nnls_lh(A.T, w0)
    except Exception:
      continue
    p = w0 - A.T @ lam
    if kkt_ok(A, h, w0, p, lam, eps):
      return p
  return None


def project_polyhedron(G, h, w0, eps_rel=1e-9):
  """Projection onto {w: G w <= h} via Lawson-Hanson LDP + KKT certificate."""
  if G.shape[0] == 0:
    return w0.copy()
  hh = h - G @ w0
  n = G.shape[1]
  E = np.vstack([(-G).T, (-hh)[None, :]])
  f = np.zeros(n + 1)
  f[n] = 1.0
  eps = eps_rel * max(1.0, float(np.abs(w0).max()), float(np.abs(h).max()))
  for solver in ("scipy", "own"):
    try:
      if solver == "scipy":
        u, _ = so.nnls(E, f, maxiter=50 * G.shape[0] + 1000)
      else:
        u = nnls_lh(E, f)
    except Exception:
      continue
    r = E @ u - f
    if abs(r[n]) < 1e-13:
      continue
    z = -r[:n] / r[n]
    p = w0 + z
    lam = u / (-r[n])  # dual multipliers of G z <= hh  (z = -G^T lam)
    if kkt_ok(G, h, w0, p, lam, eps):
      return p
    # multipliers recovered differently scaled: try least-squares multipliers on the active set
    act = (G @ p - h) > -1e-9 * max(1.0, np.abs(h).max())
    if act.any():
      lam2 = np.zeros(G.shape[0])
      sol = nnls_lh(G[act].T, w0 - p)
      lam2[act] = sol
      if kkt_ok(G, h, w0, p, lam2, eps * 10):
        return p
  return None
