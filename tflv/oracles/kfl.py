"""Float64 reference for KroneckerFactoredLattice (no TensorFlow).
kernel: (1, L, units*dims, terms); scale: (units, terms); bias: (units,)
x: (batch, units, dims)."""
import numpy as np


def hat_weights(x, L, clip=True):
  x = np.asarray(x, dtype=np.float64)
  if clip:
    x = np.clip(x, 0.0, L - 1.0)
  k = np.arange(L, dtype=np.float64)
  return np.maximum(0.0, 1.0 - np.abs(x[..., None] - k))     # (..., L)


def evaluate(kernel, scale, bias, x, clip=True):
  K = np.asarray(kernel, dtype=np.float64)[0]                # (L, units*dims, terms)
  L, ud, T = K.shape
  B, units, dims = x.shape
  assert ud == units * dims
  Kr = K.reshape(L, units, dims, T)
  hw = hat_weights(x, L, clip)                               # (B, units, dims, L)
  dot = np.einsum("budl,ludt->budt", hw, Kr)                 # (B, units, dims, T)
  prod = np.prod(dot, axis=2)                                # (B, units, T)
  out = (np.asarray(scale, dtype=np.float64)[None] * prod).mean(axis=-1)
  return out + np.asarray(bias, dtype=np.float64).reshape(1, units)


def dense_kernel(kernel, scale, bias):
  """Lattice kernel (L^dims, units) of the same function:
  bias + mean_t scale_t * outer_d kernel[:, u, d, t]."""
  K = np.asarray(kernel, dtype=np.float64)[0]
  L, ud, T = K.shape
  units = np.asarray(scale).shape[0]
  dims = ud // units
  Kr = K.reshape(L, units, dims, T)
  cols = []
  for u in range(units):
    acc = np.zeros([L] * dims)
    for t in range(T):
      o = np.ones(())
      for d in range(dims):
        o = np.multiply.outer(o, Kr[:, u, d, t])
      acc = acc + float(np.asarray(scale)[u, t]) * o
    cols.append((acc / T + float(np.asarray(bias).reshape(-1)[u])).ravel())
  return np.stack(cols, axis=1)
