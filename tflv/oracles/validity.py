"""Reference validity rules: configurations the documentation says must be
rejected (written from the docstrings / the property statement, independent of
the library's verify_* code).  Each function returns a reason string or None."""


def _canon_mono(m, allow_decreasing):
  if m in (1, "increasing"):
    return 1
  if m in (0, "none", None):
    return 0
  if m in (-1, "decreasing"):
    return -1 if allow_decreasing else "invalid"
  return "invalid"


def _listify(x, single_is_tuple_of_ints=True):
  if x is None:
    return []
  if isinstance(x, tuple) and x and isinstance(x[0], int):
    return [x]
  return list(x)


def lattice_must_reject(cfg):
  if _bad_regularizer(cfg.get("kernel_regularizer"), ("torsion", "laplacian")):
    return "unknown kernel_regularizer name"
  sizes = list(cfg["lattice_sizes"])
  rank = len(sizes)
  if any(s < 2 for s in sizes):
    return "a lattice size < 2"
  mono = cfg.get("monotonicities")
  if mono is None:
    mono_c = [0] * rank
  elif isinstance(mono, (list, tuple)):
    if len(mono) != rank:
      return "monotonicities length differs from lattice_sizes"
    mono_c = [_canon_mono(m, False) for m in mono]
  else:
    return None  # single-value spellings: not judged
  if "invalid" in mono_c:
    return "invalid / decreasing monotonicity for a Lattice"
  uni = cfg.get("unimodalities")
  uni_c = [0] * rank
  if uni is not None:
    if len(uni) != rank:
      return "unimodalities length differs from lattice_sizes"
    for d, u in enumerate(uni):
      if u in (1, "valley"):
        uni_c[d] = 1
      elif u in (-1, "peak"):
        uni_c[d] = -1
      elif u in (0, "none", None):
        uni_c[d] = 0
      else:
        return "invalid unimodality value"
  for d in range(rank):
    if mono_c[d] and uni_c[d]:
      return "dimension %d both monotone and unimodal" % d
    if uni_c[d] and sizes[d] < 3:
      return "unimodal dimension of size < 3"
  mains, conds, dirs = set(), set(), {}
  for key in ("edgeworth_trusts", "trapezoid_trusts"):
    for t in _listify(cfg.get(key)):
      if len(t) != 3:
        return "trust constraint without 3 elements"
      m, c, d = t
      if d in (1, "positive"):
        d = 1
      elif d in (-1, "negative"):
        d = -1
      else:
        return "invalid trust direction"
      if not (0 <= m < rank and 0 <= c < rank):
        return "trust dimension out of range"
      if mono_c[m] != 1:
        return "trust on a non-monotone main feature"
      if (m, c) in dirs and dirs[(m, c)] != d:
        return "two trusts on the same pair in opposite directions"
      dirs[(m, c)] = d
      mains.add(m)
      conds.add(c)
  if mains & conds:
    return "a feature used as both main and conditional in trust constraints"
  for key in ("monotonic_dominances", "range_dominances"):
    seen = set()
    for t in _listify(cfg.get(key)):
      if len(t) != 2:
        return "dominance constraint without 2 elements"
      a, b = t
      if not (0 <= a < rank and 0 <= b < rank):
        return "dominance dimension out of range"
      if mono_c[a] != 1 or mono_c[b] != 1:
        return "dominance between non-monotone features"
      if (b, a) in seen:
        return "conflicting dominance constraints on the same pair"
      seen.add((a, b))
  for t in _listify(cfg.get("joint_monotonicities")):
    if len(t) != 2 or not all(0 <= v < rank for v in t):
      return "joint monotonicity dimension out of range"
  ju = cfg.get("joint_unimodalities")
  if ju is not None:
    if isinstance(ju, tuple) and len(ju) == 2 and isinstance(ju[1], str):
      ju = [ju]
    for dims, direction in ju:
      if not isinstance(direction, str) or direction.lower() not in ("valley", "peak"):
        return "invalid joint unimodality direction"
      if len(set(dims)) != len(dims):
        return "repeated dimension in a joint unimodality"
      for d in dims:
        if not (0 <= d < rank):
          return "joint unimodality dimension out of range"
        if sizes[d] < 3:
          return "jointly unimodal dimension of size < 3"
        if mono_c[d]:
          return "jointly unimodal dimension that is also monotone"
  omin, omax = cfg.get("output_min"), cfg.get("output_max")
  if omin is not None and omax is not None and omin > omax:
    return "output_min > output_max"
  if cfg.get("interpolation", "hypercube") not in ("hypercube", "simplex"):
    return "unknown interpolation"
  return None


def _bad_regularizer(reg, names):
  """A (name, l1, l2) regularizer spec (or a list of them) with a name outside the documented ones."""
  if reg is None:
    return False
  specs = [reg] if (isinstance(reg, tuple) and reg and isinstance(reg[0], str)) else (reg if isinstance(reg, (list, tuple)) else [])
  return any(isinstance(r, tuple) and r and isinstance(r[0], str) and r[0].lower() not in names for r in specs)


def pwl_must_reject(cfg):
  if _bad_regularizer(cfg.get("kernel_regularizer"), ("laplacian", "hessian", "wrinkle")):
    return "unknown kernel_regularizer name"
  kp = list(cfg["input_keypoints"])
  if len(kp) < 2:
    return "fewer than 2 keypoints"
  if not all(kp[i] < kp[i + 1] for i in range(len(kp) - 1)):
    return "keypoints not strictly increasing"
  omin, omax = cfg.get("output_min"), cfg.get("output_max")
  if omin is not None and omax is not None and omin > omax:
    return "output_min > output_max"
  mono = _canon_mono(cfg.get("monotonicity"), True)
  if mono == "invalid":
    return "invalid monotonicity"
  conv = cfg.get("convexity")
  if conv not in (0, 1, -1, "none", "convex", "concave", None):
    return "invalid convexity"
  conv_c = 0 if conv in (0, "none", None) else 1
  if cfg.get("is_cyclic") and (mono != 0 or conv_c):
    return "is_cyclic together with monotonicity / convexity"
  if cfg.get("input_keypoints_type", "fixed") not in ("fixed", "learned_interior"):
    return "unknown input_keypoints_type"
  return None


def linear_must_reject(cfg):
  n = cfg["num_input_dims"]
  mono = cfg.get("monotonicities")
  if isinstance(mono, (list, tuple)):
    if len(mono) != n:
      return "monotonicities length differs from num_input_dims"
    mono_c = [_canon_mono(m, True) for m in mono]
  elif mono is None or isinstance(mono, (str, int)):
    mono_c = [_canon_mono(mono, True)] * n
  if "invalid" in mono_c:
    return "invalid monotonicity"
  imin = cfg.get("input_min") or [None] * n
  imax = cfg.get("input_max") or [None] * n
  for d in range(n):
    if imin[d] is not None and imax[d] is not None and imin[d] > imax[d]:
      return "input_min > input_max"
  used = {}
  for key in ("monotonic_dominances", "range_dominances"):
    seen = set()
    for t in cfg.get(key) or []:
      if len(t) != 2:
        return "dominance constraint without 2 elements"
      a, b = t
      if not (0 <= a < n and 0 <= b < n):
        return "dominance dimension out of range"
      if key == "monotonic_dominances":
        if mono_c[a] != 1 or mono_c[b] != 1:
          return "monotonic dominance between features that are not increasing"
      else:
        if mono_c[a] == 0 or mono_c[a] != mono_c[b]:
          return "range dominance between features without a common monotonic direction"
        for d in (a, b):
          if imin[d] is None or imax[d] is None:
            return "range dominance without an input range"
          if imin[d] >= imax[d]:
            return "range dominance on an empty input range"
      if (b, a) in seen:
        return "conflicting dominance constraints on the same pair"
      seen.add((a, b))
      for d in (a, b):
        if used.get(d, key) != key:
          return "a dimension in both monotonic and range dominance"
        used[d] = key
  return None


def categorical_must_reject(cfg):
  nb = cfg["num_buckets"]
  omin, omax = cfg.get("output_min"), cfg.get("output_max")
  if omin is not None and omax is not None and omin > omax:
    return "output_min > output_max"
  for t in cfg.get("monotonicities") or []:
    if len(t) != 2:
      return "pair without 2 elements"
    i, j = t
    if not (0 <= i < nb and 0 <= j < nb):
      return "ordering pair index out of range"
  return None


def kfl_must_reject(cfg, dims):
  if cfg["lattice_sizes"] < 2:
    return "lattice size < 2"
  if cfg["units"] < 1:
    return "units < 1"
  if cfg["num_terms"] < 1:
    return "num_terms < 1"
  mono = cfg.get("monotonicities")
  if isinstance(mono, (list, tuple)):
    if len(mono) != dims:
      return "monotonicities length differs from the number of inputs"
    if any(_canon_mono(m, False) == "invalid" for m in mono):
      return "invalid / decreasing monotonicity"
  return None
