"""Float64 reference of tfl.conditional_pwl_calibration.pwl_calibration_fn, written from its docstring and the property
statement (softmax-normalised positive keypoint gaps and output increments, sigmoid-squashed free outputs, front padding
for clamps, cyclic closure, derived imputed output from the last output parameter).  Numerically stable (softmax with the
maximum subtracted, sigmoid through exp of the negative magnitude), one example / one unit at a time."""
import numpy as np


def _softmax(v):
  v = np.asarray(v, dtype=np.float64)
  e = np.exp(v - v.max())
  return e / e.sum()


def _sigmoid(v):
  v = np.asarray(v, dtype=np.float64)
  out = np.empty_like(v)
  pos = v >= 0
  out[pos] = 1.0 / (1.0 + np.exp(-v[pos]))
  ev = np.exp(v[~pos])
  out[~pos] = ev / (1.0 + ev)
  return out


def derive(kin, kout, imin, imax, omin, omax, mono, cmin, cmax, cyc, derived_missing):
  """kin: (nk-2,) or None; kout: (P,).  Returns (keypoints (nk,), keypoint outputs (nk,), missing output or None)."""
  kout = np.asarray(kout, dtype=np.float64)
  missing = None
  if derived_missing:
    missing = float(omin + _sigmoid(kout[-1:])[0] * (omax - omin))
    kout = kout[:-1]
  logits = np.concatenate([[0.0], np.asarray(kin, dtype=np.float64)]) if kin is not None else np.zeros(1)
  deltas = _softmax(logits) * (imax - imin)
  kps = imin + np.concatenate([[0.0], np.cumsum(deltas)])
  kps[-1] = imax
  if mono == "none":
    outs = _sigmoid(kout) * (omax - omin) + omin
    if cyc:
      outs = np.concatenate([outs, outs[:1]])
  else:
    inc = _softmax(np.concatenate([[0.0], kout])) * (omax - omin)      # increments, summing to the range
    if cmin:
      heights = np.concatenate([[omin], inc])
    else:
      heights = np.concatenate([[inc[0] + omin], inc[1:]])
    if not cmax:
      heights = heights[:-1]
    outs = np.cumsum(heights)
  return kps, outs, missing


def evaluate(x, kps, outs):
  """Piecewise-linear through (kps, outs), constant outside; a zero-length piece is a jump taken for x > its keypoint."""
  x = float(x)
  y = outs[0]
  for i in range(len(kps) - 1):
    a, b = kps[i], kps[i + 1]
    if b > a:
      w = min(max((x - a) / (b - a), 0.0), 1.0)
    else:
      w = 1.0 if x > a else 0.0
    y += w * (outs[i + 1] - outs[i])
  return float(y)
