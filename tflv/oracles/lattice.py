"""Float64 reference models for Lattice kernels (no TensorFlow).

Conventions (taken from the library's documentation, not from its code):
  * a kernel has shape (prod(sizes), units), vertices flattened in C order;
  * monotonicity d: w[.., k, ..] <= w[.., k+1, ..];
  * unimodality d: 1 = valley (decreasing before the centre size//2, increasing
    after), -1 = peak;
  * Edgeworth trust (m, c, dir): dir * (slope_m at c=j+1  -  slope_m at c=j) >= 0;
  * trapezoid trust (m, c, dir): dir*(w[m=0,c=j] - w[m=0,c=j+1]) >= 0 and
    dir*(w[m=last,c=j+1] - w[m=last,c=j]) >= 0;
  * monotonic dominance (dom, weak): w[i+1,j] >= mid >= w[i,j+1] with
    mid = (w[i,j] + w[i+1,j+1])/2;
  * range dominance (dom, weak): (w[last,j]-w[0,j]) >= (w[i,last]-w[i,0]);
  * joint monotonicity (a, b): w[i+1,j+1] >= (w[i+1,j]+w[i,j+1])/2 >= w[i,j];
  * joint unimodality ((dims), 'valley'|'peak'): directional derivatives away
    from the centre vertex are >= 0 (valley) / <= 0 (peak).
Every elementary inequality is a row `a` with a.w <= 0.
"""
import itertools

import numpy as np
import scipy.optimize as so


def _idx(sizes):
  return np.arange(int(np.prod(sizes))).reshape(list(sizes))


class Rows(object):
  """Sparse list of rows with tags."""

  def __init__(self, n):
    self.n = n
    self.rows = []   # list of (idx tuple, coef tuple)
    self.tags = []   # dict per row

  def add(self, pairs, **tag):
    d = {}
    for i, c in pairs:
      d[int(i)] = d.get(int(i), 0.0) + float(c)
    self.rows.append((tuple(d.keys()), tuple(d.values())))
    self.tags.append(tag)

  def dense(self, select=None):
    sel = range(len(self.rows)) if select is None else select
    A = np.zeros((len(sel), self.n))
    for r, k in enumerate(sel):
      ii, cc = self.rows[k]
      A[r, list(ii)] = cc
    return A

  def values(self, w):
    """a.w for all rows; w: (n,) float64."""
    out = np.empty(len(self.rows))
    for k, (ii, cc) in enumerate(self.rows):
      out[k] = float(np.dot(w[list(ii)], cc))
    return out

  def __len__(self):
    return len(self.rows)


def build_rows(sizes, mono=None, unimod=None, ew=(), tz=(), mdom=(), rdom=(),
               jmono=(), junimod=(), families=None):
  """All elementary inequalities a.w <= 0 of a configuration (single unit).

  Tags: family, and the fields needed to recognise Dykstra constraint groups
  and mechanism predicates (dim, k / i, j, side, group)."""
  sizes = list(sizes)
  n = int(np.prod(sizes))
  idx = _idx(sizes)
  R = Rows(n)
  rank = len(sizes)

  def want(f):
    return families is None or f in families

  for d in range(rank):
    I = np.moveaxis(idx, d, 0)
    if mono and mono[d] and want("monotonicity"):
      for k in range(sizes[d] - 1):
        for a, b in zip(I[k].ravel(), I[k + 1].ravel()):
          R.add([(a, 1), (b, -1)], family="monotonicity", dim=d, k=k, group=k % 2,
                lo=int(a), hi=int(b))
    if unimod and unimod[d] and want("unimodality"):
      for k in range(sizes[d] - 1):
        first = k < sizes[d] // 2
        inc = (unimod[d] == -1 and first) or (unimod[d] == 1 and not first)
        for a, b in zip(I[k].ravel(), I[k + 1].ravel()):
          R.add([(a, 1), (b, -1)] if inc else [(a, -1), (b, 1)],
                family="unimodality", dim=d, k=k, group=k % 2)
  if want("edgeworth"):
    for (m, c, dr) in ew or ():
      I = np.moveaxis(idx, [m, c], [0, 1])
      for i in range(sizes[m] - 1):
        for j in range(sizes[c] - 1):
          for a, b, cc, dd in zip(I[i, j].ravel(), I[i + 1, j].ravel(),
                                  I[i, j + 1].ravel(), I[i + 1, j + 1].ravel()):
            # dr*((dd-cc)-(b-a)) >= 0
            R.add([(dd, -dr), (cc, dr), (b, dr), (a, -dr)], family="edgeworth",
                  trust=(m, c, dr), i=i, j=j)
  if want("trapezoid"):
    for (m, c, dr) in tz or ():
      I = np.moveaxis(idx, [m, c], [0, 1])
      for j in range(sizes[c] - 1):
        for a, b in zip(I[0, j].ravel(), I[0, j + 1].ravel()):
          R.add([(a, -dr), (b, dr)], family="trapezoid", trust=(m, c, dr), j=j, side="low")
        for a, b in zip(I[-1, j].ravel(), I[-1, j + 1].ravel()):
          R.add([(b, -dr), (a, dr)], family="trapezoid", trust=(m, c, dr), j=j, side="high")
  if want("monotonic_dominance"):
    for (dm, wk) in mdom or ():
      I = np.moveaxis(idx, [dm, wk], [0, 1])
      for i in range(sizes[dm] - 1):
        for j in range(sizes[wk] - 1):
          for a, b, cc, dd in zip(I[i, j].ravel(), I[i + 1, j].ravel(),
                                  I[i, j + 1].ravel(), I[i + 1, j + 1].ravel()):
            R.add([(a, .5), (dd, .5), (b, -1)], family="monotonic_dominance",
                  pair=(dm, wk), i=i, j=j, tri=1)
            R.add([(cc, 1), (a, -.5), (dd, -.5)], family="monotonic_dominance",
                  pair=(dm, wk), i=i, j=j, tri=0)
  if want("range_dominance"):
    for (dm, wk) in rdom or ():
      I = np.moveaxis(idx, [dm, wk], [0, 1])
      for i in range(sizes[dm]):
        for j in range(sizes[wk]):
          for wl, wf, dl, df in zip(I[i, -1].ravel(), I[i, 0].ravel(),
                                    I[-1, j].ravel(), I[0, j].ravel()):
            R.add([(wl, 1), (wf, -1), (dl, -1), (df, 1)], family="range_dominance",
                  pair=(dm, wk), i=i, j=j)
  if want("joint_monotonicity"):
    for (d1, d2) in jmono or ():
      I = np.moveaxis(idx, [d1, d2], [0, 1])
      for i in range(sizes[d1] - 1):
        for j in range(sizes[d2] - 1):
          for a, b, cc, dd in zip(I[i, j].ravel(), I[i + 1, j].ravel(),
                                  I[i, j + 1].ravel(), I[i + 1, j + 1].ravel()):
            R.add([(b, .5), (cc, .5), (dd, -1)], family="joint_monotonicity",
                  pair=(d1, d2), i=i, j=j, tri=1)
            R.add([(a, 1), (b, -.5), (cc, -.5)], family="joint_monotonicity",
                  pair=(d1, d2), i=i, j=j, tri=0)
  if want("joint_unimodality"):
    for (dims, direction) in junimod or ():
      dims = list(dims)
      I = np.moveaxis(idx, dims, list(range(len(dims))))
      ub = [sizes[d] for d in dims]
      center = [s // 2 for s in ub]
      for vertex in itertools.product(*[range(s) for s in ub]):
        if all(v == c for v, c in zip(vertex, center)):
          continue
        for offsets in itertools.product([-1, 1], repeat=len(dims)):
          eq = []
          verts = []
          ok = True
          for d, off in enumerate(offsets):
            wgt = vertex[d] - center[d]
            if wgt == 0:
              continue
            nb = list(vertex)
            nb[d] += off
            if nb[d] < 0 or nb[d] >= ub[d]:
              ok = False
              break
            verts.append(tuple(nb))
            eq.append(wgt * off)
          if not ok or not verts:
            continue
          verts.append(tuple(vertex))
          eq.append(-sum(eq))
          sign = -1.0 if direction == "valley" else 1.0   # valley: eq.w >= 0
          cols = [I[v].ravel() for v in verts]
          for t in range(len(cols[0])):
            R.add([(cols[q][t], sign * eq[q]) for q in range(len(verts))],
                  family="joint_unimodality", dims=tuple(dims), vertex=vertex,
                  offsets=offsets)
  return R


def nnls_project(A, w0, maxiter=None):
  """Exact Euclidean projection of w0 onto the cone {w: A w <= 0}, KKT
  certified (see oracles/qp.py).  None if no solver could be certified."""
  from tflv.oracles import qp
  return qp.project_cone(A, w0)


def ldp_project(G, h, w0, maxiter=None):
  """Certified projection of w0 onto {w: G w <= h}; None if uncertified."""
  from tflv.oracles import qp
  return qp.project_polyhedron(G, h, w0)


# --------------------------------------------------------------------------
# Vectorised violation measures for (large) kernels.  W has shape sizes+[units].
def violation_maps(W, sizes, mono=None, ew=(), tz=()):
  """Returns dict key -> array of violations (positive = violated) for the
  strictly-enforced families.  Keys: ('monotonicity', d), ('edgeworth', m, c,
  dr), ('trapezoid', m, c, dr, side)."""
  out = {}
  for d, m in enumerate(mono or []):
    if m:
      out[("monotonicity", d)] = -np.diff(W, axis=d)
  for (m, c, dr) in ew or ():
    A = np.moveaxis(W, [m, c], [0, 1])
    sl = (A[1:, 1:] - A[:-1, 1:]) - (A[1:, :-1] - A[:-1, :-1])
    out[("edgeworth", m, c, dr)] = -dr * sl
  for (m, c, dr) in tz or ():
    A = np.moveaxis(W, [m, c], [0, 1])
    lo, hi = A[0], A[-1]
    out[("trapezoid", m, c, dr, "low")] = -dr * (lo[:-1] - lo[1:])
    out[("trapezoid", m, c, dr, "high")] = -dr * (hi[1:] - hi[:-1])
  return out


def all_violation_maps(W, sizes, mono=None, unimod=None, ew=(), tz=(), mdom=(),
                       rdom=(), jmono=()):
  out = violation_maps(W, sizes, mono, ew, tz)
  for d, u in enumerate(unimod or []):
    if u:
      df = np.diff(W, axis=d)          # w[k+1]-w[k]
      k = np.arange(sizes[d] - 1)
      first = k < sizes[d] // 2
      inc = first if u == -1 else ~first
      shape = [1] * W.ndim
      shape[d] = -1
      sgn = np.where(inc, 1.0, -1.0).reshape(shape)
      out[("unimodality", d)] = -sgn * df
  for (dm, wk) in mdom or ():
    A = np.moveaxis(W, [dm, wk], [0, 1])
    mid = (A[:-1, :-1] + A[1:, 1:]) / 2
    out[("monotonic_dominance", dm, wk, "dom")] = mid - A[1:, :-1]
    out[("monotonic_dominance", dm, wk, "weak")] = A[:-1, 1:] - mid
  for (dm, wk) in rdom or ():
    A = np.moveaxis(W, [dm, wk], [0, 1])
    dom_range = (A[-1] - A[0])            # indexed by j (+ rest)
    weak_range = (A[:, -1] - A[:, 0])     # indexed by i (+ rest)
    out[("range_dominance", dm, wk)] = weak_range[:, None] - dom_range[None, :]
  for (d1, d2) in jmono or ():
    A = np.moveaxis(W, [d1, d2], [0, 1])
    mid = (A[1:, :-1] + A[:-1, 1:]) / 2
    out[("joint_monotonicity", d1, d2, "upper")] = mid - A[1:, 1:]
    out[("joint_monotonicity", d1, d2, "lower")] = A[:-1, :-1] - mid
  return out


# --------------------------------------------------------------------------
# Interpolation oracles.  kernel: (prod(sizes), units) float64; x: (batch, rank)
def clip_point(x, sizes):
  hi = np.asarray(sizes, dtype=np.float64) - 1.0
  return np.minimum(np.maximum(x, 0.0), hi)


def hypercube(kernel, sizes, x, clip=True):
  """Multilinear interpolation from its definition: sum over all vertices of
  prod_d hat(x_d - k_d) * w[vertex]."""
  sizes = list(sizes)
  x = np.asarray(x, dtype=np.float64)
  if clip:
    x = clip_point(x, sizes)
  units = kernel.shape[1]
  K = np.asarray(kernel, dtype=np.float64).reshape(sizes + [units])
  out = np.empty((x.shape[0], units))
  for b in range(x.shape[0]):
    T = K
    for d in range(len(sizes)):
      k = np.arange(sizes[d])
      hat = np.maximum(0.0, 1.0 - np.abs(x[b, d] - k))
      T = np.tensordot(hat, T, axes=(0, 0))
    out[b] = T
  return out


def hypercube_weights(sizes, xb, clip=True):
  """Interpolation weights over all vertices for one point (flattened C order)."""
  sizes = list(sizes)
  xb = np.asarray(xb, dtype=np.float64)
  if clip:
    xb = clip_point(xb, sizes)
  w = np.ones(())
  for d in range(len(sizes)):
    hat = np.maximum(0.0, 1.0 - np.abs(xb[d] - np.arange(sizes[d])))
    w = np.multiply.outer(w, hat)
  return w.ravel()


def simplex_weights(sizes, xb, clip=True):
  """Sorted-simplex interpolation weights of one point over all vertices."""
  sizes = list(sizes)
  xb = np.asarray(xb, dtype=np.float64)
  if clip:
    xb = clip_point(xb, sizes)
  rank = len(sizes)
  lower = np.minimum(np.floor(xb), np.asarray(sizes) - 2).astype(int)
  lower = np.maximum(lower, 0)
  frac = xb - lower
  order = np.argsort(-frac, kind="stable")
  fs = np.concatenate([frac[order], [0.0]])
  strides = np.cumprod([1] + sizes[::-1][:-1])[::-1]
  w = np.zeros(int(np.prod(sizes)))
  v = lower.copy()
  w[int(np.dot(v, strides))] += 1.0 - fs[0]
  for k in range(rank):
    v[order[k]] += 1
    wk = fs[k] - fs[k + 1]
    if wk != 0.0:
      w[int(np.dot(v, strides))] += wk
    elif v[order[k]] >= sizes[order[k]]:
      # weight zero on a vertex outside the lattice (frac == 0 at the top edge)
      pass
  return w


def simplex(kernel, sizes, x, clip=True):
  K = np.asarray(kernel, dtype=np.float64)
  x = np.asarray(x, dtype=np.float64)
  out = np.empty((x.shape[0], K.shape[1]))
  for b in range(x.shape[0]):
    out[b] = simplex_weights(sizes, x[b], clip) @ K
  return out


# --------------------------------------------------------------------------
# Regularizers (documented formulas)
def laplacian(kernel, sizes, l1, l2):
  sizes = list(sizes)
  units = kernel.shape[1]
  K = np.asarray(kernel, dtype=np.float64).reshape(sizes + [units])
  rank = len(sizes)
  l1 = [l1] * rank if np.isscalar(l1) else list(l1)
  l2 = [l2] * rank if np.isscalar(l2) else list(l2)
  tot = 0.0
  for d in range(rank):
    df = np.diff(K, axis=d)
    tot += l1[d] * np.abs(df).sum() + l2[d] * (df ** 2).sum()
  return tot


def torsion(kernel, sizes, l1, l2):
  sizes = list(sizes)
  units = kernel.shape[1]
  K = np.asarray(kernel, dtype=np.float64).reshape(sizes + [units])
  rank = len(sizes)
  l1 = [l1] * rank if np.isscalar(l1) else list(l1)
  l2 = [l2] * rank if np.isscalar(l2) else list(l2)
  tot = 0.0
  for a in range(rank):
    for b in range(a + 1, rank):
      tw = np.diff(np.diff(K, axis=a), axis=b)
      tot += l1[a] * l1[b] * np.abs(tw).sum() + l2[a] * l2[b] * (tw ** 2).sum()
  return tot
