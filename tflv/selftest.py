"""./check --selftest : nothing to build; verifies the environment and
cross-checks the oracles against each other and against closed forms."""
import sys
import numpy as np


def main():
  from tflv import tfenv
  tf, tfl = tfenv.setup(0)
  from tflv.oracles import lattice as ol
  from tflv.oracles import feasible as feas
  rng = np.random.RandomState(0)
  n_ok = 0
  # O-rows counts = combinatorial formula
  sizes = [3, 2, 4]
  R = ol.build_rows(sizes, mono=[1, 0, 1])
  expect = (3 - 1) * 2 * 4 + (4 - 1) * 3 * 2
  assert len(R) == expect, (len(R), expect)
  R = ol.build_rows(sizes, ew=[(0, 2, 1)])
  assert len(R) == 2 * 3 * 2
  R = ol.build_rows(sizes, tz=[(0, 2, -1)])
  assert len(R) == 2 * 3 * 2
  # O-proj: feasible => identity; output feasible; idempotent
  for _ in range(20):
    cfg = dict(sizes=[3, 3], units=1, mono=[1, 1], ew=[], tz=[], mdom=[[0, 1]], rdom=[], jmono=[], junimod=[], unimod=[0, 0])
    A = feas.lattice_rows(cfg).dense()
    w0 = rng.normal(size=9)
    p = ol.nnls_project(A, w0)
    assert (A @ p).max() <= 1e-9
    assert np.abs(ol.nnls_project(A, p) - p).max() <= 1e-9
    # optimality: (w0-p) in the normal cone -> no feasible point closer
    w, t, tmax = feas.lp_interior(A, rng, 9)
    assert (A @ w).max() <= 1e-9
    assert np.linalg.norm(w0 - p) <= np.linalg.norm(w0 - w) + 1e-9
    n_ok += 1
  # interpolation oracles agree on vertices and axis-parallel edges
  sizes = [2, 3, 2]
  K = rng.normal(size=(12, 2))
  for _ in range(50):
    v = np.array([rng.randint(s) for s in sizes], dtype=float)
    h = ol.hypercube(K, sizes, v[None])[0]
    s = ol.simplex(K, sizes, v[None])[0]
    idx = int(np.ravel_multi_index(v.astype(int), sizes))
    assert np.allclose(h, K[idx]) and np.allclose(s, K[idx])
    e = v.copy()
    d = rng.randint(3)
    e[d] = rng.uniform(0, sizes[d] - 1)
    assert np.allclose(ol.hypercube(K, sizes, e[None]), ol.simplex(K, sizes, e[None]))
    x = np.array([rng.uniform(-1, s) for s in sizes])
    assert abs(ol.hypercube_weights(sizes, x).sum() - 1) < 1e-12
    assert abs(ol.simplex_weights(sizes, x).sum() - 1) < 1e-12
    n_ok += 1
  # LDP oracle vs brute-force on a box
  G = np.vstack([np.eye(3), -np.eye(3)])
  h = np.array([1, 1, 1, 0, 0, 0.0])
  for _ in range(20):
    w0 = rng.normal(size=3) * 3
    p = ol.ldp_project(G, h, w0)
    assert np.allclose(p, np.clip(w0, 0, 1), atol=1e-9), (p, w0)
    n_ok += 1
  print("selftest ok: tensorflow %s, tensorflow_lattice from %s, %d oracle cross-checks" % (
      tf.__version__, tfl.__file__, n_ok))
  return 0


if __name__ == "__main__":
  sys.exit(main())
