"""Child process: runs one shard of one check (or the witness shard) and
writes its result as JSON.  One subprocess per shard, never a Pool."""
import argparse
import faulthandler
import importlib
import json
import sys
import time

from tflv import core


def drive(ctx, mod, case):
  ctx.begin(case)
  r = None
  try:
    r = mod.run_case(ctx, case)
  except Exception as e:  # an exception escaping a case is always reported
    ctx.exception("harness/exception", e)
  nontrivial, key = r if r else (True, None)
  ctx.end(nontrivial, key)


def main(argv=None):
  faulthandler.enable()
  ap = argparse.ArgumentParser()
  ap.add_argument("prop")
  ap.add_argument("--tier", default="quick")
  ap.add_argument("--seed", type=int, default=0)
  ap.add_argument("--shard", type=int, default=0)
  ap.add_argument("--nshards", type=int, default=1)
  ap.add_argument("--n", type=int, default=10)
  ap.add_argument("--deadline", type=float, default=600.0)
  ap.add_argument("--out", required=True)
  ap.add_argument("--upto", type=int, default=None,
                  help="replay of a history: run this shard's generated cases 0..upto in one process and stop")
  ap.add_argument("--cases", default=None,
                  help="JSON file with a list of {key,status,case}: witness/replay mode")
  a = ap.parse_args(argv)

  from tflv import tfenv
  tfenv.setup(core.seed_for(a.prop, a.seed, a.shard, "tf"))
  mod = importlib.import_module("tflv.checks." + a.prop.lower())
  ctx = core.Ctx(a.prop, a.tier, a.seed, a.shard, a.nshards, a.n, a.deadline)
  meta = {"rule": getattr(mod, "RULE", ""),
          "min_events": getattr(mod, "MIN_EVENTS", {}).get(a.tier, {}),
          "assumptions": getattr(mod, "ASSUMPTIONS", [])}
  witness = None
  if a.cases:
    witness = []
    for entry in json.load(open(a.cases)):
      before = len(ctx.violations)
      total_before = ctx.violations_total
      drive(ctx, mod, entry["case"])
      new = ctx.violations[before:]
      witness.append({"key": entry.get("key"), "status": entry.get("status"),
                      "violated": ctx.violations_total > total_before,
                      "findings": sorted(set(str(v["finding"]) for v in new)),
                      "msgs": [v["site"] + ": " + v["msg"] for v in new][:5],
                      "viols": new})
  else:
    if hasattr(mod, "setup"):
      mod.setup(ctx)
    if hasattr(mod, "run_shard"):
      mod.run_shard(ctx)
    else:
      for k, case in enumerate(mod.gen_cases(ctx)):
        drive(ctx, mod, case)
        if a.upto is not None and k >= a.upto:
          break
        if ctx.expired() and a.upto is None:
          break
  res = ctx.result(meta)
  res["witness"] = witness
  with open(a.out, "w") as f:
    json.dump(core.to_jsonable(res), f)
  return 0


if __name__ == "__main__":
  sys.exit(main())
