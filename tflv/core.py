"""Core of the monitoring framework: per-shard context (event log, counters,
verdict collection), tolerance policy, digests and JSON helpers.

Nothing in here imports TensorFlow.
"""
import collections
import hashlib
import json
import time
import traceback
import zlib

import numpy as np

# --------------------------------------------------------------------------
# Tolerance policy (DESIGN.md section 3).  One place, both tiers.
REL_TOL = 1e-5          # float32 layers vs float64 oracles: tol = REL_TOL * scale
F32_EPS = float(np.finfo(np.float32).eps)


def scale_of(*arrays, **kw):
  """Largest magnitude involved, floored at 1 (floor=... overrides: scale-equivariant code judged on micro inputs)."""
  m = float(kw.get("floor", 1.0))
  for a in arrays:
    if a is None:
      continue
    a = np.asarray(a, dtype=np.float64)
    if a.size:
      v = float(np.max(np.abs(a)))
      if np.isfinite(v):
        m = max(m, v)
  return m


def tol_of(*arrays, rel=REL_TOL):
  return rel * scale_of(*arrays)


def f32(x):
  """The value a float32 op compares against when handed python float x."""
  return float(np.float32(x))


# --------------------------------------------------------------------------
# JSON helpers: cases must be exactly replayable.
def to_jsonable(o):
  if isinstance(o, dict):
    return {str(k): to_jsonable(v) for k, v in o.items()}
  if isinstance(o, (list, tuple)):
    return [to_jsonable(v) for v in o]
  if isinstance(o, np.ndarray):
    return to_jsonable(o.tolist())
  if isinstance(o, (np.floating,)):
    return to_jsonable(float(o))
  if isinstance(o, (np.integer,)):
    return int(o)
  if isinstance(o, (np.bool_,)):
    return bool(o)
  if isinstance(o, float):
    if o != o:
      return "NaN"
    if o in (float("inf"), float("-inf")):
      return "Infinity" if o > 0 else "-Infinity"
    return o
  if isinstance(o, (set, frozenset)):
    return sorted(to_jsonable(v) for v in o)
  if isinstance(o, (str, int, bool)) or o is None:
    return o
  return repr(o)


def digest(o, n=12):
  s = json.dumps(to_jsonable(o), sort_keys=True, separators=(",", ":"))
  return hashlib.sha1(s.encode()).hexdigest()[:n]


def arr_digest(*arrays, n=12):
  h = hashlib.sha1()
  for a in arrays:
    a = np.ascontiguousarray(np.asarray(a))
    h.update(str(a.shape).encode())
    h.update(str(a.dtype).encode())
    h.update(a.tobytes())
  return h.hexdigest()[:n]


def seed_for(prop, seed, shard, salt=""):
  return zlib.crc32(("%s/%d/%d/%s" % (prop, seed, shard, salt)).encode()) & 0x7FFFFFFF


def brief(o, maxlen=12):
  """Shortens arrays in a case for display in evidence samples."""
  if isinstance(o, dict):
    return {k: brief(v, maxlen) for k, v in o.items()}
  if isinstance(o, np.ndarray):
    o = o.tolist()
  if isinstance(o, (list, tuple)):
    flat = o
    if len(flat) > maxlen:
      return [brief(v, maxlen) for v in flat[:maxlen]] + ["...(%d)" % len(flat)]
    return [brief(v, maxlen) for v in flat]
  if isinstance(o, float):
    return float("%.6g" % o) if o == o and abs(o) != float("inf") else repr(o)
  return to_jsonable(o)


# --------------------------------------------------------------------------
class Ctx(object):
  """Per-shard monitoring context.

  A check drives cases through begin()/end(); oracles report through check()
  (counts an evaluation at a monitor site, records a violation if not ok).
  Nothing raises into monitored code: violations are collected and decided by
  the parent at the end of the run.
  """

  MAX_VIOL_KEPT = 40

  def __init__(self, prop, tier, seed, shard, nshards, n, soft_deadline_s,
               params=None):
    self.prop, self.tier, self.seed = prop, tier, seed
    self.shard, self.nshards, self.n = shard, nshards, n
    self.params = params or {}
    self.rng = np.random.RandomState(seed_for(prop, seed, shard))
    self.t0 = time.time()
    self.deadline = self.t0 + soft_deadline_s
    self.events = collections.Counter()
    self.classes = collections.Counter()
    self.notes = collections.Counter()
    self.known_hits = collections.Counter()
    self.evaluations = 0
    self.nontrivial = set()
    self.trivial = 0
    self.samples = []
    self.violations = []
    self.violations_total = 0
    self.closest = [0.0, None]
    self.cur = None
    self.cur_failed = False
    self.truncated = False

  # -- budget --------------------------------------------------------------
  def expired(self):
    if time.time() > self.deadline:
      self.truncated = True
      return True
    return False

  def sub_rng(self, salt):
    return np.random.RandomState(seed_for(self.prop, self.seed, self.shard, str(salt)))

  # -- case bracket ----------------------------------------------------------
  def begin(self, case):
    self.cur = case
    self.cur_failed = False
    self.case_index = getattr(self, "case_index", -1) + 1

  def end(self, nontrivial=True, key=None, sample=True):
    """Closes the current case. key identifies distinctness (default: digest
    of the whole case)."""
    self.evaluations += 1
    if nontrivial:
      self.nontrivial.add(key if key is not None else digest(self.cur))
    else:
      self.trivial += 1
    if sample and nontrivial and len(self.samples) < 3 and self.cur is not None:
      self.samples.append(brief(self.cur))
    self.cur = None

  # -- reporting -------------------------------------------------------------
  def ev(self, site, n=1):
    self.events[site] += n

  def cls(self, *labels):
    for l in labels:
      self.classes[str(l)] += 1

  def note(self, label, n=1):
    self.notes[label] += n

  def near(self, ratio, desc):
    """ratio = observed error / tolerance for a *held* evaluation."""
    if ratio is not None and np.isfinite(ratio) and ratio > self.closest[0]:
      self.closest = [float(ratio), desc]

  def check(self, site, ok, msg="", info=None, finding=None, ratio=None):
    """One oracle evaluation at monitor `site`."""
    self.events[site] += 1
    if ok:
      if ratio is not None:
        self.near(ratio, site)
      return True
    self.fail(site, msg, info, finding, count=False)
    return False

  def fail(self, site, msg, info=None, finding=None, count=True):
    if count:
      self.events[site] += 1
    self.cur_failed = True
    if finding:
      self.known_hits[finding] += 1
    self.violations_total += 1
    if len(self.violations) < self.MAX_VIOL_KEPT or (
        finding is None and sum(1 for v in self.violations if v["finding"] is None) < self.MAX_VIOL_KEPT):
      self.violations.append({
          "site": site, "msg": msg, "info": to_jsonable(info),
          "finding": finding, "case": to_jsonable(self.cur),
          "shard": self.shard, "index": getattr(self, "case_index", None),
      })

  def exception(self, site, exc):
    self.fail(site, "exception %s: %s" % (type(exc).__name__, str(exc)[:400]),
              info={"traceback": traceback.format_exc()[-3000:]})

  # -- serialisation ---------------------------------------------------------
  def result(self, meta):
    return {
        "shard": self.shard, "meta": meta,
        "evaluations": self.evaluations, "trivial": self.trivial,
        "nontrivial": sorted(self.nontrivial),
        "events": dict(self.events), "classes": dict(self.classes),
        "notes": dict(self.notes), "known_hits": dict(self.known_hits),
        "samples": self.samples, "violations": self.violations,
        "violations_total": self.violations_total,
        "closest": self.closest, "truncated": self.truncated,
        "wall_s": time.time() - self.t0,
    }
