"""Execution modes for the monitored calls.

Keras applies weight constraints and calls layers inside tf.function graphs
during Model.fit, with an unknown batch dimension; the unit tests and a naive
harness call everything eagerly with static shapes.  Code that branches on a
Python value of a tensor, uses a static shape where only the dynamic one is
known, or builds a Python loop that a graph turns into a different op sequence
behaves differently between the two - so a share of every workload runs the
same monitored call

  eager      - plain call on EagerTensors (default; what old witnesses use)
  graph      - inside tf.function, static shapes
  graph_dyn  - inside tf.function whose input signature leaves the batch
               dimension unknown (what Model.fit / SavedModel serving trace)

The oracle that judges the result is identical in every mode.
"""
import numpy as np

MODES = ("eager", "graph", "graph_dyn")


def pick(rng, weights=(0.5, 0.25, 0.25), allow=MODES):
  w = np.asarray([weights[MODES.index(m)] for m in allow], dtype=np.float64)
  return str(allow[int(rng.choice(len(allow), p=w / w.sum()))])


def call(tf, mode, fn, *args, **kw):
  """Runs fn(*args) under `mode`; args are (nested structures of) tensors.
  dyn=[bool, ...] restricts the unknown batch dimension of graph_dyn to the flagged arguments (parameters shared across
  the batch keep their static leading dimension, as they would in a model)."""
  dyn = kw.get("dyn")
  if mode in (None, "eager"):
    return fn(*args)
  if mode == "graph":
    return tf.function(fn)(*args)
  if mode == "graph_dyn":
    def spec(t):
      t = tf.convert_to_tensor(t)
      shape = t.shape.as_list()
      if shape:
        shape[0] = None
      return tf.TensorSpec(shape, t.dtype)
    def static(t):
      t = tf.convert_to_tensor(t)
      return tf.TensorSpec(t.shape, t.dtype)
    sig = [tf.nest.map_structure(spec if (dyn is None or dyn[i]) else static, a) for i, a in enumerate(args)]
    return tf.function(fn, input_signature=sig)(*args)
  raise ValueError("unknown execution mode %r" % (mode,))
