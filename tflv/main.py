"""Parent process of a check: shards the budget over subprocesses, merges their
event logs, replays known-finding / fixed witnesses, classifies violations,
writes evidence and replay files and prints the verdict.

Exit codes: 0 held, 1 violated (VIOLATION line), 2 inconclusive.
"""
import argparse
import collections
import json
import os
import shutil
import subprocess
import sys
import tempfile
import time

from tflv import core
from tflv import registry

HERE = os.path.dirname(os.path.dirname(os.path.abspath(__file__)))


def load_findings(prop):
  path = os.path.join(HERE, "known_findings.json")
  if not os.path.exists(path):
    return []
  data = json.load(open(path))
  return [f for f in data.get("findings", []) if f.get("property") == prop]


def spawn(prop, tier, seed, shard, nshards, n, deadline, out, cases=None, upto=None):
  cmd = [sys.executable, "-B", "-m", "tflv.shard", prop, "--tier", tier,
         "--seed", str(seed), "--shard", str(shard), "--nshards", str(nshards),
         "--n", str(n), "--deadline", str(deadline), "--out", out]
  if cases:
    cmd += ["--cases", cases]
  if upto is not None:
    cmd += ["--upto", str(upto)]
  log = open(out + ".log", "w")
  return subprocess.Popen(cmd, stdout=log, stderr=subprocess.STDOUT, cwd=HERE)


def run_pool(jobs, specs, hard_timeout):
  """specs: list of (label, factory) where factory() -> Popen. Returns
  {label: (returncode|None-if-timeout)}."""
  pending = list(specs)
  running = {}
  done = {}
  while pending or running:
    while pending and len(running) < jobs:
      label, fac = pending.pop(0)
      running[label] = (fac(), time.time())
    time.sleep(0.2)
    for label, (p, t0) in list(running.items()):
      rc = p.poll()
      if rc is not None:
        done[label] = rc
        del running[label]
      elif time.time() - t0 > hard_timeout:
        p.kill()
        p.wait()
        done[label] = None
        del running[label]
  return done


def main(argv=None):
  ap = argparse.ArgumentParser()
  ap.add_argument("prop", nargs="?")
  ap.add_argument("--tier", default=None)
  ap.add_argument("--replay", default=None)
  ap.add_argument("--selftest", action="store_true")
  ap.add_argument("--shards", type=int, default=None)
  ap.add_argument("--jobs", type=int, default=None)
  ap.add_argument("--n", type=int, default=None, help="cases per shard override")
  ap.add_argument("--keep", action="store_true")
  a = ap.parse_args(argv)

  if a.selftest:
    from tflv import selftest
    return selftest.main()
  if not a.prop:
    ap.error("property id required")
  prop = a.prop.upper()
  if prop not in registry.CHECKS:
    print("unknown property %s" % prop)
    return 2
  tier = a.tier or os.environ.get("VERIF_TIER") or "quick"
  seed = int(os.environ.get("VERIF_SEED", "0") or 0)
  reg = registry.CHECKS[prop]
  budget = dict(reg[tier])
  nshards = a.shards or budget["shards"]
  n = a.n or budget["n"]
  deadline = budget.get("deadline", 900 if tier == "quick" else 3600)
  jobs = a.jobs or int(os.environ.get("VERIF_JOBS", "0") or 0) or min(16, os.cpu_count() or 4)
  t0 = time.time()
  work = tempfile.mkdtemp(prefix="tflv-%s-" % prop)
  try:
    return _run(prop, tier, seed, nshards, n, deadline, jobs, work, a, t0)
  finally:
    if not a.keep:
      shutil.rmtree(work, ignore_errors=True)


def _run(prop, tier, seed, nshards, n, deadline, jobs, work, a, t0):
  findings = load_findings(prop)
  known = {f["key"]: f for f in findings if f.get("status") == "known"}

  # ---- replay mode ---------------------------------------------------------
  if a.replay:
    rep = json.load(open(a.replay))
    cases = [{"key": "replay", "status": "replay", "case": rep["case"] if "case" in rep else rep}]
    cf = os.path.join(work, "cases.json")
    json.dump(cases, open(cf, "w"))
    out = os.path.join(work, "replay.json")
    p = spawn(prop, tier, seed, 0, 1, 1, deadline, out, cases=cf)
    p.wait()
    if not os.path.exists(out):
      print(open(out + ".log").read()[-4000:])
      print("INCONCLUSIVE property=%s reason=replay-process-failed" % prop)
      return 2
    res = json.load(open(out))
    org = rep.get("origin")
    if not res["violations"] and org and org.get("index") is not None:
      # the case alone is clean: the violation needed the history of its process (state left behind by earlier cases).
      # Re-run that shard's deterministic case sequence 0..index in one fresh process.
      print("replay: the case alone held; re-running its history (shard %s/%s, cases 0..%s)" % (org["shard"], org["nshards"], org["index"]))
      out2 = os.path.join(work, "replay_history.json")
      p = spawn(prop, org.get("tier", tier), org.get("seed", seed), org["shard"], org["nshards"], org["n"], deadline, out2, upto=org["index"])
      p.wait()
      if not os.path.exists(out2):
        print(open(out2 + ".log").read()[-4000:])
        print("INCONCLUSIVE property=%s reason=replay-process-failed" % prop)
        return 2
      res = json.load(open(out2))
    for v in res["violations"]:
      print("  witness: %s: %s finding=%s" % (v["site"], v["msg"], v["finding"]))
      if v.get("info"):
        print("    info: %s" % json.dumps(v["info"])[:1500])
    unlisted = [v for v in res["violations"] if v["finding"] not in known]
    if unlisted:
      print("VIOLATION property=%s replay=%s" % (prop, a.replay))
      return 1
    for k in sorted(set(v["finding"] for v in res["violations"])):
      print("KNOWN-FINDING: property=%s %s: %s" % (prop, k, known[k]["what"]))
    print("replay: property=%s held on this case (events=%s)" % (prop, res["events"]))
    return 0

  # ---- normal mode ---------------------------------------------------------
  specs = []
  outs = {}
  for s in range(nshards):
    out = os.path.join(work, "shard%03d.json" % s)
    outs[s] = out
    specs.append((s, (lambda s=s, out=out: spawn(prop, tier, seed, s, nshards, n, deadline, out))))
  wit_entries = [{"key": f["key"], "status": f["status"], "case": f["witness"]}
                 for f in findings if f.get("witness") is not None]
  if wit_entries:
    cf = os.path.join(work, "witness_cases.json")
    json.dump(wit_entries, open(cf, "w"))
    out = os.path.join(work, "witness.json")
    outs["witness"] = out
    specs.insert(0, ("witness", (lambda out=out, cf=cf: spawn(prop, tier, seed, 9999, nshards, 0, deadline, out, cases=cf))))
  # W-repotests (thorough tier): the repository's own test modules under the quiescent-point monitor plugin
  if tier == "thorough" and not os.environ.get("VERIF_NO_REPOTESTS"):
    repo = os.environ.get("VERIF_REPO", "/repo")
    for module in registry.REPOTESTS.get(prop, []):
      out = os.path.join(work, "repotests_%s.json" % module.replace(".py", ""))
      label = "repotests:" + module
      outs[label] = out

      def fac(out=out, module=module):
        env = dict(os.environ, TFLV_PROP=prop, TFLV_OUT=out)
        log = open(out + ".log", "w")
        p = subprocess.Popen([sys.executable, "-B", "-m", "pytest", "-q", "-p", "no:cacheprovider", "-p", "no:xdist", "-p", "tflv.repotests_plugin",
                              os.path.join("tensorflow_lattice", "python", module)], cwd=repo, env=env, stdout=log, stderr=subprocess.STDOUT)

        class _P(object):        # test failures are irrelevant: only the monitor's result file counts
          def poll(self_inner):
            rc = p.poll()
            return None if rc is None else 0
          def kill(self_inner):
            p.kill()
          def wait(self_inner):
            p.wait()
        return _P()
      specs.append((label, fac))
  done = run_pool(jobs, specs, hard_timeout=deadline * 1.5 + 120)

  merged = {
      "evaluations": 0, "trivial": 0, "nontrivial": set(),
      "events": collections.Counter(), "classes": collections.Counter(),
      "notes": collections.Counter(), "known_hits": collections.Counter(),
      "samples": [], "violations": [], "violations_total": 0,
      "closest": [0.0, None], "truncated": 0,
  }
  lost = []
  meta = {}
  witness_res = None
  for label, out in outs.items():
    rc = done.get(label)
    if rc != 0 or not os.path.exists(out):
      tail = ""
      try:
        tail = open(out + ".log").read()[-1500:]
      except Exception:
        pass
      lost.append({"shard": label, "rc": rc, "log_tail": tail})
      continue
    r = json.load(open(out))
    meta = r["meta"] or meta
    if label == "witness":
      witness_res = r
      merged["events"].update({"witness/" + k: v for k, v in r["events"].items()})
      continue
    merged["evaluations"] += r["evaluations"]
    merged["trivial"] += r["trivial"]
    merged["nontrivial"].update(r["nontrivial"])
    for k in ("events", "classes", "notes", "known_hits"):
      merged[k].update(r[k])
    if len(merged["samples"]) < 5:
      merged["samples"].extend(r["samples"][: 5 - len(merged["samples"])])
    merged["violations"].extend(r["violations"])
    merged["violations_total"] += r["violations_total"]
    if r["closest"][0] > merged["closest"][0]:
      merged["closest"] = r["closest"]
    merged["truncated"] += 1 if r["truncated"] else 0

  # ---- classify --------------------------------------------------------------
  real = [v for v in merged["violations"] if v["finding"] not in known]
  known_lines = []
  wit_report = []
  if witness_res is not None:
    for w in witness_res["witness"]:
      viols = w.pop("viols", [])
      wit_report.append(w)
      if w["status"] == "known":
        if any(v["finding"] == w["key"] for v in viols):
          known_lines.append("KNOWN-FINDING: property=%s %s: %s" % (prop, w["key"], known[w["key"]]["what"]))
        elif not viols:
          w["note"] = "stored witness no longer fails on this tree"
      # anything a stored witness triggers that no *known* mechanism explains
      # is a real violation (this is how a `fixed` entry reports a regression)
      for v in viols:
        if v["finding"] not in known:
          real.append(v)
  # hits of known findings during exploration also produce the line (once)
  for k in merged["known_hits"]:
    if k in known:
      line = "KNOWN-FINDING: property=%s %s: %s" % (prop, k, known[k]["what"])
      if line not in known_lines:
        known_lines.append(line)

  # ---- replay files ----------------------------------------------------------
  replay_paths = []
  if real:
    rdir = os.path.join(HERE, "replays", prop)
    os.makedirs(rdir, exist_ok=True)
    seen = set()
    for v in real[:10]:
      d = core.digest(v["case"])
      if d in seen:
        continue
      seen.add(d)
      path = os.path.join(rdir, "%s.json" % d)
      json.dump({"property": prop, "seed": seed, "tier": tier, "site": v["site"],
                 "msg": v["msg"], "info": v["info"], "case": v["case"],
                 "origin": {"seed": seed, "tier": tier, "shard": v.get("shard"), "nshards": nshards, "n": n, "index": v.get("index")}},
                open(path, "w"), indent=1)
      replay_paths.append(os.path.relpath(path, HERE))

  # ---- inconclusive? ---------------------------------------------------------
  reasons = []
  min_events = meta.get("min_events", {}) if meta else {}
  if not meta:
    reasons.append("no-shard-finished")
  for site, m in min_events.items():
    if merged["events"].get(site, 0) < m:
      reasons.append("monitor %s observed %d < %d events" % (site, merged["events"].get(site, 0), m))
  if len(merged["nontrivial"]) < 2:
    reasons.append("fewer than 2 distinct non-trivial cases")

  wall = time.time() - t0
  verdict = "violated" if real else ("inconclusive" if reasons else "held")
  evidence = {
      "property_id": prop, "tier": tier, "seed": seed, "level": "exploration",
      "coverage": {
          "evaluations": int(merged["evaluations"]),
          "distinct_nontrivial": len(merged["nontrivial"]),
          "rule": meta.get("rule", "") if meta else "",
          "samples": merged["samples"] or [{"note": "no sample recorded"}],
          "trivial_cases": int(merged["trivial"]),
          "oracle_evaluations_per_monitor_site": dict(sorted(merged["events"].items())),
          "oracle_evaluations_total": int(sum(merged["events"].values())),
          "class_histogram": dict(sorted(merged["classes"].items())),
          "notes": dict(sorted(merged["notes"].items())),
          "closest_call": {"error_over_tolerance": merged["closest"][0], "where": merged["closest"][1]},
          "known_finding_hits": dict(merged["known_hits"]),
          "witness_replays": wit_report,
          "shards": {"planned": len(outs), "lost": lost, "truncated_by_soft_deadline": merged["truncated"]},
          "min_events_required": min_events,
          "verdict": verdict, "inconclusive_reasons": reasons,
          "violation_witnesses": [{"site": v["site"], "msg": v["msg"], "info": v["info"]} for v in real[:10]],
          "replay_files": replay_paths,
          "violations_recorded_total_including_known": int(merged["violations_total"]),
      },
      "assumptions": (meta.get("assumptions", []) if meta else []),
      "wall_s": round(wall, 2),
      "violations": len(real),
  }
  # VERIF_EVIDENCE_DIR: developer override (trials against patched scratch trees must not overwrite the evidence of /repo)
  edir = os.environ.get("VERIF_EVIDENCE_DIR") or os.path.join(HERE, "evidence")
  os.makedirs(edir, exist_ok=True)
  with open(os.path.join(edir, "%s.json" % prop), "w") as f:
    json.dump(core.to_jsonable(evidence), f, indent=1)

  print("%s tier=%s seed=%d: %d cases (%d distinct non-trivial), %d oracle evaluations over %d monitor sites, %.0fs, shards lost=%d" % (
      prop, tier, seed, merged["evaluations"], len(merged["nontrivial"]),
      sum(merged["events"].values()), len(merged["events"]), wall, len(lost)))
  for l in lost:
    print("  lost shard %s rc=%s: %s" % (l["shard"], l["rc"], l["log_tail"][-600:].replace("\n", " | ")))
  for line in known_lines:
    print(line)
  if real:
    for v in real[:5]:
      print("  witness: %s: %s%s" % (v["site"], v["msg"][:300], (" [classified %s, not a listed known finding]" % v["finding"]) if v["finding"] else ""))
    print("VIOLATION property=%s replay=%s" % (prop, replay_paths[0]))
    return 1
  if reasons:
    print("INCONCLUSIVE property=%s reason=%s" % (prop, "; ".join(reasons)))
    return 2
  print("HELD property=%s" % prop)
  return 0


if __name__ == "__main__":
  sys.exit(main())
