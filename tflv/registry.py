"""Budgets per check and tier (TensorFlow-free, read by the parent process).
n = cases per shard; deadline = soft per-shard deadline in seconds (generous:
the case count is the real budget, the deadline only guards a loaded machine)."""

def _b(qs, qn, ts, tn, qd=900, td=3600):
  return {"quick": {"shards": qs, "n": qn, "deadline": qd},
          "thorough": {"shards": ts, "n": tn, "deadline": td}}

CHECKS = {
    "C01": _b(8, 120, 32, 1500),
}
