"""Budgets per check and tier (TensorFlow-free, read by the parent process).

Each check has a side-car file tflv/checks/cXX.json:
  {"budgets": {"quick": {"shards": S, "n": N, "deadline": sec}, "thorough": {...}},
   "manifest": {"text": ..., "note": ..., "technique": ...}}
n = cases per shard; deadline = soft per-shard deadline (generous: the case
count is the real budget, the deadline only guards a loaded machine)."""
import glob
import json
import os

_DIR = os.path.join(os.path.dirname(os.path.abspath(__file__)), "checks")
CHECKS = {}
META = {}
REPOTESTS = {}
for _f in sorted(glob.glob(os.path.join(_DIR, "c[0-9][0-9].json"))):
  _d = json.load(open(_f))
  _id = os.path.basename(_f)[:-5].upper()
  CHECKS[_id] = _d["budgets"]
  META[_id] = _d.get("manifest", {})
  REPOTESTS[_id] = _d.get("repotests", [])
