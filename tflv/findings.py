"""Known-finding classifier: mechanism predicates (DESIGN.md section 4.2).

A violation is attributed to a known finding only when the predicate, evaluated
on the configuration and on what the oracle/hook observed, holds.  Predicates
talk about mechanisms (which rows fail, what the hook saw), never about case
hashes or random values.  known_findings.json decides whether a key is
`known` (suppressed, reported as KNOWN-FINDING) or `fixed` (suppresses
nothing)."""


def _tuples(l):
  return [tuple(x) for x in (l or [])]


def classify_c01(cfg, kind, key, info):
  """KF-C01-a: trapezoid trust whose conditional dimension is itself monotone,
  with >=1 Edgeworth trust present: the trapezoid finalisation shifts a whole
  edge layer by the max violation and breaks monotonicity along the conditional
  dimension on the layers main in {0, last}."""
  if kind != "row" or key[0] != "monotonicity":
    return None
  ew, tz = _tuples(cfg.get("ew")), _tuples(cfg.get("tz"))
  if not ew or not tz:
    return None
  d = key[1]
  mains = [(m, cfg["sizes"][m]) for (m, c, _) in tz if c == d and cfg["mono"][c]]
  if not mains:
    return None
  pos = info.get("positions")
  if not pos or info.get("n_positions", 0) > len(pos):
    return None
  for p in pos:
    # p indexes the diff array: same coordinates as the kernel except along d
    if not any(p[m] in (0, size - 1) for (m, size) in mains):
      return None
  return "KF-C01-a"
