"""Known-finding classifier: mechanism predicates (DESIGN.md section 4.2).

A violation is attributed to a known finding only when the predicate, evaluated
on the configuration and on what the oracle/hook observed, holds.  Predicates
talk about mechanisms (which rows fail, what the hook saw), never about case
hashes or random values.  known_findings.json decides whether a key is
`known` (suppressed, reported as KNOWN-FINDING) or `fixed` (suppresses
nothing)."""


def _tuples(l):
  return [tuple(x) for x in (l or [])]


def classify_c01(cfg, kind, key, info):
  """KF-C01-a: trapezoid trust whose conditional dimension is itself monotone,
  with >=1 Edgeworth trust present: the trapezoid finalisation shifts a whole
  edge layer by the max violation and breaks monotonicity along the conditional
  dimension on the layers main in {0, last}."""
  if kind != "row" or key[0] != "monotonicity":
    return None
  ew, tz = _tuples(cfg.get("ew")), _tuples(cfg.get("tz"))
  if not ew or not tz:
    return None
  d = key[1]
  mains = [(m, cfg["sizes"][m]) for (m, c, _) in tz if c == d and cfg["mono"][c]]
  if not mains:
    return None
  pos = info.get("positions")
  if not pos or info.get("n_positions", 0) > len(pos):
    return None
  for p in pos:
    # p indexes the diff array: same coordinates as the kernel except along d
    if not any(p[m] in (0, size - 1) for (m, size) in mains):
      return None
  return "KF-C01-a"


def classify_c04(cfg, fail, w_in, w_out, fin):
  """KF-C04-a: monotonicity AND convexity AND a bound: _finalize_constraints
  only rescales the heights (never moves the bias, and skips the rescale when
  output_max - bias <= 1e-3), so outputs leave the bounds.  Recognised through
  the hook on _finalize_constraints: in the increasing-normalised frame the
  entering bias is below the lower bound (lower failure) or above
  upper - 1e-3 (upper failure), and the returned bias equals the entering one.
  KF-C04-b: zero projection iterations with a clamp and no convexity: the loop
  never runs and the finalisation downgrades CLAMPED to BOUND."""
  import numpy as np
  mono, conv = cfg["mono"], cfg["conv"]
  kind, u = fail["kind"], fail["unit"]
  if kind in ("clamp_min", "clamp_max"):
    if cfg["iters"] == 0 and conv == 0 and mono != 0:
      return "KF-C04-b"
    return None
  if kind in ("lower", "upper") and mono != 0 and conv != 0 and fin is not None:
    bias_in = float(np.asarray(fin["bias_in"]).reshape(1, -1)[0, u])
    bias_out = float(np.asarray(w_out, dtype=np.float64)[0, u])
    scale = max(1.0, abs(bias_in), abs(bias_out))
    if abs(bias_in - bias_out) > 1e-6 * scale:
      return None
    omin, omax = cfg.get("omin"), cfg.get("omax")
    if mono == 1:
      b, lo, hi = bias_in, omin, omax
      lo_fail = kind == "lower"
    else:
      b = -bias_in
      lo = -omax if omax is not None else None
      hi = -omin if omin is not None else None
      lo_fail = kind == "upper"
    if lo_fail:
      return "KF-C04-a" if (lo is not None and b < lo) else None
    return "KF-C04-a" if (hi is not None and b > hi - 1e-3 - 1e-6 * scale) else None
  return None


def classify_c05(x32, degenerate):
  """KF-C05-a: softmax-derived (learned) keypoints: a segment whose length is
  below the float32 resolution of its keypoint coordinate (kp + length == kp in
  float32, or length == 0).  For an input float32-equal to that keypoint
  coordinate (x - kp)/length is unresolvable: NaN (0/0) or the segment's height
  is dropped.  `degenerate` = (left keypoint coordinates, mask) exactly as the
  layer computed them in float32."""
  import numpy as np
  k32, mask = degenerate
  x32 = np.float32(x32)
  for i in range(len(mask)):
    if mask[i] and x32 == np.float32(k32[i]):
      return "KF-C05-a"
  return None


def classify_c03(step, ftype, calibrators, tol, hooks=None):
  """KF-C03-a: right after construction (step 0: no optimizer update and no
  constraint application yet) a CategoricalCalibration with ordering pairs starts
  from RandomUniform and ignores the pairs.
  KF-C03-b: consequence of KF-C04-a inside models: in the same state some PWL
  calibrator configured with monotonicity AND convexity has keypoint outputs
  outside its declared range (the calibrator-range invariant hook fired)."""
  if step == 0 and ftype == "categorical":
    return "KF-C03-a"
  # KF-C03-c: right after construction a Linear layer built with its default
  # random_uniform initializer holds weights whose sign contradicts its
  # monotonicities (hook: wrong-signed weight present at step 0).
  if step == 0 and ftype == "numeric" and hooks and hooks.get("linear_wrong_sign"):
    return "KF-C03-c"
  for c in calibrators or []:
    if c["mono"] != 0 and c["conv"] != 0 and c["out_of_range"] > tol:
      return "KF-C03-b"
  return None


def classify_c10_categorical_bounds(omin, omax, init):
  """KF-C10-a: CategoricalCalibration derives its initial range from the bounds
  only when BOTH are given; with exactly one bound the default 'uniform'
  (RandomUniform(-0.05, 0.05)) / 'constant' initializer ignores it, so a fresh
  layer can start outside its one-sided bound and fail its own
  assert_constraints()."""
  if (omin is None) != (omax is None) and init in ("uniform", "constant"):
    return "KF-C10-a"
  return None


def classify_c16(what, cfg, phase, exc):
  """KF-C16-a: cyclic ordering pairs (categorical monotonicities / Linear
  dominances) are accepted by constructor and build; the cycle is detected only
  inside the projection (ValueError 'Circular monotonicity constraints').
  KF-C16-b: PWL clamp_min/clamp_max with monotonicity 'none' is accepted; every
  projection then raises ValueError('Clamping is not implemented for non
  monotonic functions.').
  KF-C16-c: PWL is_cyclic with kernel_initializer='equal_slopes': the
  initializer reshapes all keypoints into the (one row shorter) cyclic kernel
  and build fails with TypeError instead of a ValueError."""
  msg = str(exc)
  if isinstance(exc, ValueError) and "Circular monotonicity constraints" in msg and phase == "run":
    return "KF-C16-a"
  if what == "premade" and isinstance(exc, ValueError) and "Clamping is not implemented for non monotonic functions" in msg and phase == "run":
    return "KF-C16-b"          # the same accepted-then-raises PWL configuration, built by a premade model from a FeatureConfig
  if what == "PWLCalibration":
    mono = cfg.get("monotonicity")
    if (isinstance(exc, ValueError) and "Clamping is not implemented for non monotonic functions" in msg and phase == "run"
        and mono in ("none", 0) and (cfg.get("clamp_min") or cfg.get("clamp_max"))):
      return "KF-C16-b"
    if (phase == "build" and isinstance(exc, TypeError) and cfg.get("is_cyclic") and cfg.get("kernel_initializer") == "equal_slopes"
        and "shape" in msg):
      return "KF-C16-c"
  return None
