"""pytest plugin (thorough tier, W-repotests): runs one of the repository's own
test modules with a quiescent-point monitor installed.  After every
keras Model.fit / train_on_batch that the tests perform, every tfl layer found
in the model is judged with the oracle of the property being checked (trained
states "from the initializer", which the adversarial generators do not
resemble).  Test outcomes are ignored; only monitor verdicts count.

Activated with:  pytest -p tflv.repotests_plugin   and the environment
  TFLV_PROP=<Cxx>  TFLV_OUT=<result.json>
"""
import json
import os

import numpy as np

from tflv import core

_S = {}


def _layers(model):
  out = []
  seen = set()

  def walk(l):
    if id(l) in seen:
      return
    seen.add(id(l))
    out.append(l)
    for sub in getattr(l, "layers", []) or []:
      walk(sub)
    for sub in getattr(l, "calibration_layers", []) or []:
      walk(sub)
    lat = getattr(l, "_lattice_layers", None)
    if isinstance(lat, dict):
      for sub in lat.values():
        walk(sub)
    inner = getattr(l, "model", None)
    if inner is not None and hasattr(inner, "layers"):
      walk(inner)
  walk(model)
  return out


def _judge_model(model, how):
  ctx, prop = _S["ctx"], _S["prop"]
  from tensorflow_lattice.python import (lattice_layer, pwl_calibration_layer, linear_layer, categorical_calibration_layer, utils,
                                         pwl_calibration_lib)
  for l in _layers(model):
    try:
      if not getattr(l, "built", False):
        continue
      if prop == "C01" and isinstance(l, lattice_layer.Lattice) and l.monotonic_at_every_step:
        from tflv.checks import c01
        K = l.kernel.numpy()
        mono = utils.canonicalize_monotonicities(l.monotonicities, allow_decreasing=False) or [0] * len(l.lattice_sizes)
        cfg = {"sizes": list(l.lattice_sizes), "units": int(K.shape[1]), "mono": [int(m) for m in mono],
               "ew": [list(t) for t in (utils.canonicalize_trust(l.edgeworth_trusts) or [])],
               "tz": [list(t) for t in (utils.canonicalize_trust(l.trapezoid_trusts) or [])],
               "omin": l.output_min, "omax": l.output_max}
        ctx.begin({"kind": "repotests", "layer": l.name, "cfg": cfg, "w": K.tolist(), "how": how})
        c01.judge(ctx, "repotests/Lattice.trained-state", cfg, K, K, check_bounds="tol")
        ctx.end(True, core.digest([cfg, core.arr_digest(K)]), sample=True)
      elif prop == "C04" and isinstance(l, pwl_calibration_layer.PWLCalibration) and l.input_keypoints_type == "fixed":
        from tflv.checks import c04
        K = l.kernel.numpy()
        lengths = np.diff(np.asarray(l.input_keypoints, dtype=np.float64)).tolist()
        cfg = {"mono": utils.canonicalize_monotonicity(l.monotonicity), "conv": utils.canonicalize_convexity(l.convexity),
               "omin": l.output_min, "omax": l.output_max, "clamp_min": bool(l.clamp_min), "clamp_max": bool(l.clamp_max),
               "cyclic": bool(l.is_cyclic), "units": int(K.shape[1]), "lengths": lengths[:K.shape[0] - 1], "kp0": 0.0,
               "iters": l.num_projection_iterations}
        ctx.begin({"kind": "repotests", "layer": l.name, "cfg": cfg, "w": K.tolist(), "how": how})
        # a trained kernel may sit on the projection's residual: judge the constraint's own output
        out = l.kernel.constraint(l.kernel).numpy() if l.kernel.constraint is not None else K
        c04.judge(ctx, "repotests/PWLCalibration.trained-state+constraint", cfg, K, out, None)
        ctx.end(True, core.digest([cfg, core.arr_digest(K)]), sample=True)
      elif prop == "C02" and isinstance(l, lattice_layer.Lattice):
        from tflv.oracles import lattice as ol
        import tensorflow as tf
        K = l.kernel.numpy()
        sizes, units = list(l.lattice_sizes), int(K.shape[1])
        rng = np.random.RandomState(int(core.arr_digest(K), 16) % (2**31))
        hi = np.array(sizes, dtype=np.float64) - 1
        span = 1.0 if l.clip_inputs else 0.0
        x = rng.uniform(-span, hi + span, size=(12, units, len(sizes))).astype(np.float32)
        x[0] = np.round(np.clip(x[0], 0, hi))
        y = np.asarray(l(tf.constant(x if units > 1 else x[:, 0, :]))).reshape(12, units)
        f = ol.hypercube if l.interpolation == "hypercube" else ol.simplex
        ref = np.stack([f(K[:, u:u + 1].astype(np.float64), sizes, x[:, u, :].astype(np.float64), l.clip_inputs)[:, 0] for u in range(units)], axis=1)
        tol = core.REL_TOL * core.scale_of(K) * max(1.0, np.sqrt(K.shape[0]) / 8.0)
        ctx.begin({"kind": "repotests", "layer": l.name, "sizes": sizes, "w": K.tolist(), "x": x.tolist(), "how": how})
        e = float(np.abs(y - ref).max())
        ctx.check("repotests/Lattice.trained-kernel/oracle-equal", e <= tol, "trained Lattice (%s) differs from the interpolation oracle by %.3g (tol %.3g)" % (l.interpolation, e, tol), ratio=e / tol)
        ctx.end(True, core.digest([sizes, core.arr_digest(K, x)]), sample=False)
      elif prop == "C05" and isinstance(l, pwl_calibration_layer.PWLCalibration) and l.input_keypoints_type == "fixed" and not l.impute_missing:
        import tensorflow as tf
        K = l.kernel.numpy().astype(np.float64)
        kp = np.asarray(l.input_keypoints, dtype=np.float32).astype(np.float64)
        outs = np.cumsum(K, axis=0)
        if l.is_cyclic:
          outs = np.concatenate([outs, outs[:1]], axis=0)
        rng = np.random.RandomState(int(core.arr_digest(K), 16) % (2**31))
        x = rng.uniform(kp[0] - 1, kp[-1] + 1, size=(10, 1)).astype(np.float32)
        x[0, 0], x[1, 0] = kp[0], kp[-1]
        y = l(tf.constant(x))
        if isinstance(y, list):
          y = tf.concat(y, axis=1)
        y = np.asarray(y).astype(np.float64)
        delta = 4 * core.F32_EPS * max(abs(kp[0]), abs(kp[-1]))
        ctx.begin({"kind": "repotests", "layer": l.name, "kp": kp.tolist(), "w": K.tolist(), "how": how})
        for u in range(K.shape[1]):
          ref = np.interp(x[:, 0].astype(np.float64), kp, outs[:, u])
          tol = core.REL_TOL * core.scale_of(outs) + float(np.sum(np.abs(np.diff(outs[:, u])) * np.minimum(1.0, delta / np.diff(kp))))
          e = float(np.abs(y[:, u] - ref).max())
          ctx.check("repotests/PWLCalibration.trained-kernel/oracle-equal", e <= tol, "trained PWLCalibration differs from np.interp by %.3g (tol %.3g)" % (e, tol), ratio=e / tol)
        ctx.end(True, core.digest([kp.tolist(), core.arr_digest(K)]), sample=False)
      elif prop == "C07" and type(l).__name__ == "KroneckerFactoredLattice":
        import itertools
        import tensorflow as tf
        from tensorflow_lattice.python import utils as _u
        L, units = int(l.lattice_sizes), int(l.units)
        dims = int(l.kernel.shape[2]) // units
        if dims <= 4:
          g = np.linspace(0, L - 1, 2 * (L - 1) + 1) if dims < 4 else np.linspace(0, L - 1, L)
          pts = np.array(list(itertools.product(g, repeat=dims)), dtype=np.float32)
          X = pts if units == 1 else np.repeat(pts[:, None, :], units, axis=1)
          Y = np.asarray(l(tf.constant(X))).astype(np.float64).reshape([len(g)] * dims + [units])
          tol = core.REL_TOL * core.scale_of(Y)
          mono = _u.canonicalize_monotonicities(l.monotonicities, allow_decreasing=False) or []
          ctx.begin({"kind": "repotests", "layer": l.name, "L": L, "dims": dims, "how": how})
          worst = max([float((-np.diff(Y, axis=d)).max()) for d, m in enumerate(mono) if m] + [0.0])
          ctx.check("repotests/KFL.trained-state/monotone-on-grid", worst <= tol, "trained KFL decreases by %.3g along an increasing input" % worst, ratio=worst / tol)
          if l.output_min is not None or l.output_max is not None:
            v = max((l.output_min - Y.min()) if l.output_min is not None else -1e9, (Y.max() - l.output_max) if l.output_max is not None else -1e9)
            ctx.check("repotests/KFL.trained-state/bounded-on-grid", v <= tol, "trained KFL leaves its bounds by %.3g" % v)
          ctx.end(True, core.digest([L, dims, core.arr_digest(l.kernel.numpy(), l.scale.numpy())]), sample=False)
      elif prop == "C06" and isinstance(l, (linear_layer.Linear, categorical_calibration_layer.CategoricalCalibration)):
        K = l.kernel.numpy().astype(np.float64)
        ctx.begin({"kind": "repotests", "layer": l.name, "w": K.tolist(), "how": how})
        tol = core.REL_TOL * core.scale_of(K)
        if isinstance(l, linear_layer.Linear):
          mono = utils.canonicalize_monotonicities(l.monotonicities) or []
          bad = max([float(-K[d].min()) if m == 1 else (float(K[d].max()) if m == -1 else 0.0) for d, m in enumerate(mono)] + [0.0])
          ctx.check("repotests/Linear.trained-state/sign", bad <= 0.0, "trained Linear kernel has a weight of the wrong sign by %.3g" % bad)
          for (a, b) in l.monotonic_dominances or []:
            v = float((K[b] - K[a]).max())
            ctx.check("repotests/Linear.trained-state/dominance", v <= tol, "trained Linear kernel violates monotonic dominance (%d over %d) by %.3g" % (a, b, v))
        else:
          v = max([float((K[i] - K[j]).max()) for i, j in (l.monotonicities or [])] + [0.0])
          ctx.check("repotests/CategoricalCalibration.trained-state/pairs", v <= tol, "trained categorical kernel violates an ordering pair by %.3g" % v)
          ok = (l.output_min is None or K.min() >= core.f32(l.output_min)) and (l.output_max is None or K.max() <= core.f32(l.output_max))
          ctx.check("repotests/CategoricalCalibration.trained-state/bounds", bool(ok), "trained categorical kernel leaves its bounds")
        ctx.end(True, core.digest([l.name, core.arr_digest(K)]), sample=False)
    except Exception as e:  # monitor bug: report, never disturb the test
      ctx.begin({"kind": "repotests", "layer": getattr(l, "name", "?")})
      ctx.exception("repotests/monitor-exception", e)
      ctx.end(False)


def pytest_configure(config):
  prop = os.environ.get("TFLV_PROP")
  if not prop:
    return
  os.environ.setdefault("TF_CPP_MIN_LOG_LEVEL", "3")
  import tf_keras as keras
  ctx = core.Ctx(prop, "thorough", int(os.environ.get("VERIF_SEED", "0") or 0), 7777, 1, 0, 1e9)
  _S.update(ctx=ctx, prop=prop)
  for name in ("fit", "train_on_batch"):
    orig = getattr(keras.Model, name)

    def make(orig, name):
      def wrapper(self, *a, **k):
        out = orig(self, *a, **k)
        try:
          _judge_model(self, "after Model.%s in the repository's own test" % name)
        except Exception:
          pass
        return out
      return wrapper
    setattr(keras.Model, name, make(orig, name))


def pytest_unconfigure(config):
  if "ctx" not in _S or not os.environ.get("TFLV_OUT"):
    return
  ctx = _S["ctx"]
  res = ctx.result({"rule": "", "min_events": {}, "assumptions": []})
  res["witness"] = None
  with open(os.environ["TFLV_OUT"], "w") as f:
    json.dump(core.to_jsonable(res), f)
