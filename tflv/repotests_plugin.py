"""pytest plugin (thorough tier, W-repotests): runs one of the repository's own
test modules with a quiescent-point monitor installed.  After every
keras Model.fit / train_on_batch that the tests perform, every tfl layer found
in the model is judged with the oracle of the property being checked (trained
states "from the initializer", which the adversarial generators do not
resemble).  Test outcomes are ignored; only monitor verdicts count.

Activated with:  pytest -p tflv.repotests_plugin   and the environment
  TFLV_PROP=<Cxx>  TFLV_OUT=<result.json>
"""
import json
import os

import numpy as np

from tflv import core

_S = {}


def _layers(model):
  out = []
  seen = set()

  def walk(l):
    if id(l) in seen:
      return
    seen.add(id(l))
    out.append(l)
    for sub in getattr(l, "layers", []) or []:
      walk(sub)
    for sub in getattr(l, "calibration_layers", []) or []:
      walk(sub)
    lat = getattr(l, "_lattice_layers", None)
    if isinstance(lat, dict):
      for sub in lat.values():
        walk(sub)
    inner = getattr(l, "model", None)
    if inner is not None and hasattr(inner, "layers"):
      walk(inner)
  walk(model)
  return out


def _judge_model(model, how):
  ctx, prop = _S["ctx"], _S["prop"]
  from tensorflow_lattice.python import (lattice_layer, pwl_calibration_layer, linear_layer, categorical_calibration_layer, utils,
                                         pwl_calibration_lib)
  for l in _layers(model):
    try:
      if not getattr(l, "built", False):
        continue
      if prop == "C01" and isinstance(l, lattice_layer.Lattice) and l.monotonic_at_every_step:
        from tflv.checks import c01
        K = l.kernel.numpy()
        mono = utils.canonicalize_monotonicities(l.monotonicities, allow_decreasing=False) or [0] * len(l.lattice_sizes)
        cfg = {"sizes": list(l.lattice_sizes), "units": int(K.shape[1]), "mono": [int(m) for m in mono],
               "ew": [list(t) for t in (utils.canonicalize_trust(l.edgeworth_trusts) or [])],
               "tz": [list(t) for t in (utils.canonicalize_trust(l.trapezoid_trusts) or [])],
               "omin": l.output_min, "omax": l.output_max}
        ctx.begin({"kind": "repotests", "layer": l.name, "cfg": cfg, "w": K.tolist(), "how": how})
        c01.judge(ctx, "repotests/Lattice.trained-state", cfg, K, K, check_bounds="tol")
        ctx.end(True, core.digest([cfg, core.arr_digest(K)]), sample=True)
      elif prop == "C04" and isinstance(l, pwl_calibration_layer.PWLCalibration) and l.input_keypoints_type == "fixed":
        from tflv.checks import c04
        K = l.kernel.numpy()
        lengths = np.diff(np.asarray(l.input_keypoints, dtype=np.float64)).tolist()
        cfg = {"mono": utils.canonicalize_monotonicity(l.monotonicity), "conv": utils.canonicalize_convexity(l.convexity),
               "omin": l.output_min, "omax": l.output_max, "clamp_min": bool(l.clamp_min), "clamp_max": bool(l.clamp_max),
               "cyclic": bool(l.is_cyclic), "units": int(K.shape[1]), "lengths": lengths[:K.shape[0] - 1], "kp0": 0.0,
               "iters": l.num_projection_iterations}
        ctx.begin({"kind": "repotests", "layer": l.name, "cfg": cfg, "w": K.tolist(), "how": how})
        # a trained kernel may sit on the projection's residual: judge the constraint's own output
        out = l.kernel.constraint(l.kernel).numpy() if l.kernel.constraint is not None else K
        c04.judge(ctx, "repotests/PWLCalibration.trained-state+constraint", cfg, K, out, None)
        ctx.end(True, core.digest([cfg, core.arr_digest(K)]), sample=True)
      elif prop == "C06" and isinstance(l, (linear_layer.Linear, categorical_calibration_layer.CategoricalCalibration)):
        K = l.kernel.numpy().astype(np.float64)
        ctx.begin({"kind": "repotests", "layer": l.name, "w": K.tolist(), "how": how})
        tol = core.REL_TOL * core.scale_of(K)
        if isinstance(l, linear_layer.Linear):
          mono = utils.canonicalize_monotonicities(l.monotonicities) or []
          bad = max([float(-K[d].min()) if m == 1 else (float(K[d].max()) if m == -1 else 0.0) for d, m in enumerate(mono)] + [0.0])
          ctx.check("repotests/Linear.trained-state/sign", bad <= 0.0, "trained Linear kernel has a weight of the wrong sign by %.3g" % bad)
          for (a, b) in l.monotonic_dominances or []:
            v = float((K[b] - K[a]).max())
            ctx.check("repotests/Linear.trained-state/dominance", v <= tol, "trained Linear kernel violates monotonic dominance (%d over %d) by %.3g" % (a, b, v))
        else:
          v = max([float((K[i] - K[j]).max()) for i, j in (l.monotonicities or [])] + [0.0])
          ctx.check("repotests/CategoricalCalibration.trained-state/pairs", v <= tol, "trained categorical kernel violates an ordering pair by %.3g" % v)
          ok = (l.output_min is None or K.min() >= core.f32(l.output_min)) and (l.output_max is None or K.max() <= core.f32(l.output_max))
          ctx.check("repotests/CategoricalCalibration.trained-state/bounds", bool(ok), "trained categorical kernel leaves its bounds")
        ctx.end(True, core.digest([l.name, core.arr_digest(K)]), sample=False)
    except Exception as e:  # monitor bug: report, never disturb the test
      ctx.begin({"kind": "repotests", "layer": getattr(l, "name", "?")})
      ctx.exception("repotests/monitor-exception", e)
      ctx.end(False)


def pytest_configure(config):
  prop = os.environ.get("TFLV_PROP")
  if not prop:
    return
  os.environ.setdefault("TF_CPP_MIN_LOG_LEVEL", "3")
  import tf_keras as keras
  ctx = core.Ctx(prop, "thorough", int(os.environ.get("VERIF_SEED", "0") or 0), 7777, 1, 0, 1e9)
  _S.update(ctx=ctx, prop=prop)
  for name in ("fit", "train_on_batch"):
    orig = getattr(keras.Model, name)

    def make(orig, name):
      def wrapper(self, *a, **k):
        out = orig(self, *a, **k)
        try:
          _judge_model(self, "after Model.%s in the repository's own test" % name)
        except Exception:
          pass
        return out
      return wrapper
    setattr(keras.Model, name, make(orig, name))


def pytest_unconfigure(config):
  if "ctx" not in _S or not os.environ.get("TFLV_OUT"):
    return
  ctx = _S["ctx"]
  res = ctx.result({"rule": "", "min_events": {}, "assumptions": []})
  res["witness"] = None
  with open(os.environ["TFLV_OUT"], "w") as f:
    json.dump(core.to_jsonable(res), f)
