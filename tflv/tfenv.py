"""TensorFlow / repository import for shard processes."""
import os
import sys

_state = {}


def setup(seed=0):
  if _state:
    return _state["tf"], _state["tfl"]
  os.environ.setdefault("TF_CPP_MIN_LOG_LEVEL", "3")
  os.environ.setdefault("CUDA_VISIBLE_DEVICES", "")
  import tensorflow as tf
  try:
    tf.config.threading.set_intra_op_parallelism_threads(1)
    tf.config.threading.set_inter_op_parallelism_threads(2)
  except RuntimeError:
    pass
  import tensorflow_lattice as tfl
  repo = os.path.realpath(os.environ.get("VERIF_REPO", "/repo"))
  where = os.path.realpath(tfl.__file__)
  if not where.startswith(repo + os.sep):
    sys.stderr.write("FATAL: tensorflow_lattice imported from %s, not from %s\n" % (where, repo))
    sys.exit(3)
  try:
    import tf_keras
    tf_keras.utils.set_random_seed(int(seed) % (2**31))
  except Exception:  # pragma: no cover
    tf.random.set_seed(int(seed) % (2**31))
  import logging
  logging.getLogger("tensorflow").setLevel(logging.ERROR)
  try:
    from absl import logging as absl_logging
    absl_logging.set_verbosity(absl_logging.ERROR)
  except Exception:
    pass
  _state["tf"], _state["tfl"] = tf, tfl
  return tf, tfl
