import os, sys, itertools, time, collections
os.environ['TF_CPP_MIN_LOG_LEVEL']='3'
import numpy as np
import tensorflow as tf
import tensorflow_lattice as tfl
from tensorflow_lattice.python import pwl_calibration_layer as pl, pwl_calibration_lib as plib
B=plib.BoundConstraintsType
rec={}
orig=plib._finalize_constraints
def hook(bias,heights,**kw):
    out=orig(bias=bias,heights=heights,**kw)
    rec['in_bias']=np.array(bias); rec['in_heights']=np.array(heights); rec['out']=np.array(out)
    return out
plib._finalize_constraints=hook
rs=np.random.RandomState(int(sys.argv[1]) if len(sys.argv)>1 else 0)
N=int(sys.argv[2]) if len(sys.argv)>2 else 600
match=0; nomatch=[]; evals=0
for i in range(N):
    nk=int(rs.choice([2,3,4,5,8])); units=int(rs.choice([1,2,3]))
    mono=int(rs.choice([-1,1])); conv=int(rs.choice([-1,1]))
    b=rs.choice(['min','max','both']); omin=omax=None
    if b in('min','both'): omin=float(rs.choice([-1.,0.,.5]))
    if b in('max','both'): omax=(omin if omin is not None else 0.)+float(rs.choice([0.,.5,1.,3.]))
    cmin=bool(rs.rand()<.3) and omin is not None; cmax=bool(rs.rand()<.3) and omax is not None
    kp=np.cumsum(rs.choice([0.01,0.5,1.,1.,7.],size=nk)).astype(np.float32); lengths=kp[1:]-kp[:-1]
    iters=int(rs.choice([0,1,2,8,30]))
    _,_,cmn,cmx=plib.convert_all_constraints(omin,omax,cmin,cmax)
    c=pl.PWLCalibrationConstraints(monotonicity=mono,convexity=conv,lengths=tf.constant(lengths),output_min=omin,output_max=omax,output_min_constraints=cmn,output_max_constraints=cmx,num_projection_iterations=iters)
    for k in range(3):
        kind=rs.choice(['n','big','farbias','wrongsign','tiny'])
        w=rs.normal(size=(nk,units))
        if kind=='big': w*=1e3
        if kind=='farbias': w[0]+=rs.choice([-50,50])
        if kind=='wrongsign': w[1:]=-abs(w[1:])*mono
        if kind=='tiny': w*=1e-4
        w=w.astype(np.float32); rec.clear()
        p=c(tf.constant(w)).numpy().astype(np.float64); evals+=1
        out=np.cumsum(p,axis=0); scale=max(1.,np.abs(w).max(),np.abs(out).max()); tol=1e-5*scale
        for u in range(units):
            lo_v = omin is not None and omin-out[:,u].min()>tol
            hi_v = omax is not None and out[:,u].max()-omax>tol
            if not (lo_v or hi_v): continue
            if 'in_bias' not in rec: nomatch.append(('nohook',mono,conv,omin,omax,iters)); continue
            bin_=float(rec['in_bias'][0,u]); bout=float(p[0,u])
            same=abs(bin_-bout)<=1e-6*scale
            # increasing-normalised frame
            if mono==1: b_=bin_; lo=omin; hi=omax
            else: b_=-bin_; lo=(-omax if omax is not None else None); hi=(-omin if omin is not None else None)
            lo_fail = (lo_v if mono==1 else hi_v); hi_fail=(hi_v if mono==1 else lo_v)
            ok=True
            if lo_fail and not (lo is not None and b_<lo-tol*0 and same): ok=False
            if hi_fail and not (hi is not None and b_>hi-1e-3-1e-6 and same): ok=False
            if ok: match+=1
            else: nomatch.append((mono,conv,omin,omax,cmin,cmax,iters,str(kind),'bias_in',bin_,'bias_out',bout,'outmin',out[:,u].min(),'outmax',out[:,u].max(),lo_fail,hi_fail))
print('evals',evals,'match',match,'nomatch',len(nomatch))
for x in nomatch[:10]: print(x)
