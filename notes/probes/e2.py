import os
os.environ['TF_CPP_MIN_LOG_LEVEL']='3'
import numpy as np
import tensorflow as tf
import tensorflow_lattice as tfl
from tensorflow_lattice.python import *
from tensorflow_lattice.python import lattice_lib, lattice_layer, pwl_calibration_layer as pl, pwl_calibration_lib as plib, linear_layer, categorical_calibration_layer as cl, kronecker_factored_lattice_layer as kl, conditional_pwl_calibration as cp

def t(name, f):
    try:
        r=f(); print(name, '->', r)
    except Exception as e:
        print(name, 'EXC', type(e).__name__, str(e)[:200].replace('\n',' '))

# C12 categorical
def c12():
    layer = tfl.layers.CategoricalCalibration(num_buckets=3, monotonicities=[(0,1),(1,2)])
    layer(tf.constant([[0]]))
    layer.kernel.assign([[0.0],[5.0],[1.0]])   # (1,2) violated by 4, (0,1) satisfied
    layer.assert_constraints()
    return 'accepted violated weights'
t('C12 cat', c12)

# C11 LinearConstraints
def c11a():
    c = linear_layer.LinearConstraints(monotonicities=[1,1], range_dominances=[(0,1)], input_min=[0.,0.], input_max=[1.,2.])
    return linear_layer.LinearConstraints.from_config(c.get_config()).get_config()
t('C11 LinearConstraints', c11a)

def c11b():
    l = tfl.layers.PWLCalibration(input_keypoints=[0.,1.,2.], impute_missing=True, missing_input_value=-1., missing_output_value=7.)
    l2 = tfl.layers.PWLCalibration.from_config(l.get_config())
    return l2.missing_output_value
t('C11 PWL missing_output_value', c11b)

def c15():
    return cp.pwl_calibration_fn(tf.constant([[0.3]]), None, tf.constant([[0.2, -0.4]]))
t('C15 None kp', c15)

def c07():
    l = tfl.layers.KroneckerFactoredLattice(lattice_sizes=2, output_min=0., output_max=1., num_terms=2)
    x = tf.constant([[0.,0.],[1.,1.],[0.,1.]])
    l(x)
    l.kernel.assign(l.kernel*0+5.0)
    l.kernel.assign(l.kernel.constraint(l.kernel))
    l.scale.assign(l.scale.constraint(l.scale))
    return l(x).numpy().ravel()
t('C07 KFL bounds no mono', c07)

def c04():
    c = pl.PWLCalibrationConstraints(monotonicity=1, convexity=1, lengths=tf.constant([1.,1.,1.]), output_min=None, output_max=1.0,
          output_min_constraints=plib.BoundConstraintsType.NONE, output_max_constraints=plib.BoundConstraintsType.BOUND)
    w = c(tf.constant([[5.],[1.],[1.],[1.]]))
    return np.cumsum(w.numpy().ravel())
t('C04 mono+convex+max bias far', c04)

def c16():
    c = pl.PWLCalibrationConstraints(monotonicity=0, convexity=0, output_min=0.0, output_max=1.0,
          output_min_constraints=plib.BoundConstraintsType.CLAMPED, output_max_constraints=plib.BoundConstraintsType.BOUND)
    return c(tf.constant([[5.],[1.],[1.],[1.]])).numpy().ravel()
t('C16 clamp w/o mono', c16)
def c16b():
    l = tfl.layers.PWLCalibration(input_keypoints=[0.,1.,2.], output_min=0., clamp_min=True)
    l(tf.constant([[0.5]]))
    return l.kernel.constraint(l.kernel).numpy().ravel()
t('C16 layer clamp w/o mono', c16b)

def c16c():
    l = tfl.layers.Lattice(lattice_sizes=(2,2), units=2, monotonicities=[1,1])
    l(tf.zeros([1,2,2]))
    return l.kernel.constraint(l.kernel).numpy().shape
t('C16 tuple lattice_sizes units2', c16c)
def c16d():
    l = tfl.layers.Lattice(lattice_sizes=(2,3), interpolation='simplex')
    return l(tf.constant([[0.3,1.2]])).numpy()
t('C16 tuple lattice_sizes simplex', c16d)
def c16e():
    r = lattice_layer.LaplacianRegularizer(lattice_sizes=[2,2], l1=(0.1,0.2))
    return float(r(tf.constant([[0.,1.],[1.,2.],[2.,3.],[3.,5.]])))
t('C16 tuple l1 units2', c16e)
def c16f():
    c = linear_layer.LinearConstraints(monotonicities=[1,1], range_dominances=[(0,1)], input_min=[0.,0.], input_max=[0.,2.])
    return c(tf.constant([[1.],[2.]])).numpy().ravel()
t('C16 linear zero range', c16f)
