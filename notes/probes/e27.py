import os, sys, collections, tempfile, shutil
os.environ['TF_CPP_MIN_LOG_LEVEL']='3'
import numpy as np
import tensorflow as tf
import tf_keras as keras
import tensorflow_lattice as tfl
KP=[0.,1.,2.,3.]
fcs=[tfl.configs.FeatureConfig('a',lattice_size=3,monotonicity='increasing',pwl_calibration_input_keypoints=KP,default_value=-1.,regularizer_configs=[tfl.configs.RegularizerConfig('calib_hessian',l2=1e-3)]),
     tfl.configs.FeatureConfig('b',lattice_size=2,num_buckets=3,monotonicity=[(0,1)]),
     tfl.configs.FeatureConfig('c',lattice_size=2,pwl_calibration_input_keypoints=KP,reflects_trust_in=[tfl.configs.TrustConfig('a','edgeworth',1)])]
def models():
    yield 'lattice',tfl.premade.CalibratedLattice(tfl.configs.CalibratedLatticeConfig(feature_configs=fcs,output_min=0.,output_max=1.,output_initialization=[0.,1.],regularizer_configs=[tfl.configs.RegularizerConfig('torsion',l2=1e-3)]))
    yield 'linear',tfl.premade.CalibratedLinear(tfl.configs.CalibratedLinearConfig(feature_configs=fcs[:2],output_calibration=True,output_initialization=[0.,.5,1.]))
    yield 'rtl',tfl.premade.CalibratedLatticeEnsemble(tfl.configs.CalibratedLatticeEnsembleConfig(feature_configs=[tfl.configs.FeatureConfig(n,pwl_calibration_input_keypoints=KP,monotonicity=m) for n,m in [('a',1),('b',0),('c',1)]],lattices='rtl_layer',num_lattices=3,lattice_rank=2,output_initialization=[0.,1.],random_seed=5))
    inp=keras.Input((3,)); 
    pc=tfl.layers.ParallelCombination([tfl.layers.PWLCalibration(KP,output_min=0,output_max=1,monotonicity=1),tfl.layers.PWLCalibration(KP,output_min=0,output_max=1),tfl.layers.CategoricalCalibration(3,output_min=0,output_max=1)])
    out=tfl.layers.Lattice([2,2,2],monotonicities=[1,0,0],kernel_regularizer=('laplacian',0.,1e-3))(pc(inp))
    yield 'functional',keras.Model(inp,out)
rs=np.random.RandomState(0)
for name,m in models():
    if name=='functional': X=np.stack([rs.uniform(0,3,8),rs.uniform(0,3,8),rs.randint(0,3,8)],axis=1).astype(np.float32)
    elif name=='lattice': X=[rs.uniform(0,3,(8,1)).astype(np.float32),rs.randint(0,3,(8,1)).astype(np.int32),rs.uniform(0,3,(8,1)).astype(np.float32)]
    elif name=='linear': X=[rs.uniform(0,3,(8,1)).astype(np.float32),rs.randint(0,3,(8,1)).astype(np.int32)]
    else: X=[rs.uniform(0,3,(8,1)).astype(np.float32) for _ in range(3)]
    m.compile(loss='mse',optimizer=keras.optimizers.Adam(.1)); m.fit(X,rs.normal(size=(8,1)).astype(np.float32),epochs=1,verbose=0)
    y=m.predict(X,verbose=0)
    d=tempfile.mkdtemp()
    for fmt,path in [('keras',d+'/m.keras'),('h5',d+'/m.h5'),('tf',d+'/sm')]:
        try:
            m.save(path) if fmt!='tf' else m.save(path,save_format='tf')
            m2=keras.models.load_model(path,custom_objects=tfl.premade.get_custom_objects())
            e=np.abs(m2.predict(X,verbose=0)-y).max()
            print(name,fmt,'ok err',e)
        except Exception as ex:
            print(name,fmt,'EXC',type(ex).__name__,str(ex)[:150].replace('\n',' '))
    try:
        m.save_weights(d+'/w.h5'); 
        m3=type(m).from_config(m.get_config(),custom_objects=tfl.premade.get_custom_objects()) if name!='functional' else keras.Model.from_config(m.get_config(),custom_objects=tfl.premade.get_custom_objects())
        m3.load_weights(d+'/w.h5'); print(name,'weights-h5 ok err',np.abs(m3.predict(X,verbose=0)-y).max())
    except Exception as ex:
        print(name,'weights EXC',type(ex).__name__,str(ex)[:150].replace('\n',' '))
    shutil.rmtree(d)
