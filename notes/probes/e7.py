import os, sys, itertools, time, collections
os.environ['TF_CPP_MIN_LOG_LEVEL']='3'
import numpy as np
import tensorflow as tf
import tensorflow_lattice as tfl
from tensorflow_lattice.python import linear_layer, categorical_calibration_layer as cl, linear_lib
seed=int(sys.argv[1]) if len(sys.argv)>1 else 0
rs=np.random.RandomState(seed)
def rand_dag(rs, n, m):
    perm=rs.permutation(n); pairs=set()
    for _ in range(m):
        a,b=sorted(rs.choice(n,2,replace=False)); pairs.add((int(perm[a]),int(perm[b])))
    return sorted(pairs)
bad=[];cnt=collections.Counter()
# categorical
for it in range(300):
    n=int(rs.choice([2,3,4,6,8])); units=int(rs.choice([1,2,3]))
    pairs=rand_dag(rs,n,int(rs.randint(1,2*n)))
    b=rs.choice(['none','min','max','both']); omin=omax=None
    if b in('min','both'): omin=float(rs.choice([-1,0,.5]))
    if b in('max','both'): omax=(omin or 0.)+float(rs.choice([0,.5,2]))
    try: c=cl.CategoricalCalibrationConstraints(output_min=omin,output_max=omax,monotonicities=[list(p) if rs.rand()<.5 else p for p in pairs])
    except ValueError as e: cnt['rej']+=1; continue
    w=rs.normal(size=(n,units)).astype(np.float32)*float(rs.choice([1,100,1e-3]))
    if rs.rand()<.3: w=np.round(w)
    try: p=c(tf.constant(w)).numpy()
    except Exception as e: cnt['EXC '+type(e).__name__+str(e)[:60]]+=1; continue
    cnt['cat']+=1
    sc=max(1,np.abs(w).max())
    for i,j in pairs:
        v=(p[i]-p[j]).max()
        if v>1e-6*sc: bad.append(('cat-order',v,pairs,w.ravel()[:6]))
    if omin is not None and (omin-p.min())>0: bad.append(('cat-min',))
    if omax is not None and (p.max()-omax)>0: bad.append(('cat-max',))
    # feasible unchanged
    q=c(tf.constant(p)).numpy()
    if np.abs(q-p).max()>1e-5*sc: bad.append(('cat-idem',np.abs(q-p).max(),pairs))
# linear
for it in range(400):
    n=int(rs.choice([1,2,3,5,7])); units=int(rs.choice([1,2,3]))
    mono=[int(rs.choice([-1,0,1,1])) for _ in range(n)]
    inc=[i for i in range(n) if mono[i]==1]
    md=None; rd=None; imin=imax=None
    used=set()
    if len(inc)>=2 and rs.rand()<.6:
        sub=list(rs.permutation(inc)); k=rs.randint(2,len(sub)+1); sub=sub[:k]
        md=[]
        for _ in range(rs.randint(1,k+1)):
            a,b=sorted(rs.choice(k,2,replace=False)); t=(int(sub[a]),int(sub[b]))
            if t not in md: md.append(t)
        used=set(x for t in md for x in t)
    for sgn in (1,-1):
        cand=[i for i in range(n) if mono[i]==sgn and i not in used]
        if len(cand)>=2 and rs.rand()<.6 and rd is None:
            sub=list(rs.permutation(cand)); k=len(sub)
            rd=[]
            for _ in range(rs.randint(1,k+1)):
                a,b=sorted(rs.choice(k,2,replace=False)); t=(int(sub[a]),int(sub[b]))
                if t not in rd: rd.append(t)
            imin=[float(rs.choice([-1.,0.,2.])) for _ in range(n)]
            imax=[imin[i]+float(rs.choice([.5,1.,10.])) for i in range(n)]
    norm=rs.choice([None,None,1,2])
    norm = None if norm is None else int(norm)
    try: c=linear_layer.LinearConstraints(monotonicities=mono,monotonic_dominances=md,range_dominances=rd,input_min=imin,input_max=imax,normalization_order=norm)
    except ValueError as e: cnt['rej '+str(e)[:50]]+=1; continue
    w=rs.normal(size=(n,units)).astype(np.float32)*float(rs.choice([1,100,1e-3]))
    if rs.rand()<.2: w=np.round(w)
    if rs.rand()<.1: w=w*0
    try: p=c(tf.constant(w)).numpy().astype(np.float64)
    except Exception as e: cnt['EXC '+type(e).__name__+str(e)[:60]]+=1; continue
    cnt['lin']+=1
    sc=max(1e-30,np.abs(p).max())
    for i,m in enumerate(mono):
        if m and (-m*p[i]).max()>0: bad.append(('lin-sign',i,mono,p[i]))
    for d,wk in md or []:
        v=(p[wk]-p[d]).max()
        if v>1e-5*sc: bad.append(('lin-mdom',v,md,mono))
    for d,wk in rd or []:
        sd=abs(imax[d]-imin[d]); sw=abs(imax[wk]-imin[wk])
        v=(abs(p[wk])*sw-abs(p[d])*sd).max()
        if v>1e-5*sc*max(sd,sw): bad.append(('lin-rdom',v,rd,mono,imin,imax))
    if norm:
        nr=np.linalg.norm(p,ord=norm,axis=0)
        for u in range(units):
            if abs(nr[u]-1)>1e-5 and np.abs(p[:,u]).max()>1e-6: bad.append(('lin-norm',nr[u],p[:,u], w[:,u]))
    q=c(tf.constant(p.astype(np.float32))).numpy()
    if np.abs(q-p).max()>1e-5*max(1,sc): bad.append(('lin-idem',np.abs(q-p).max()))
print(cnt); print(len(bad)); print(collections.Counter(b[0] for b in bad))
for b in bad[:10]: print(b)
