import os, sys
os.environ['TF_CPP_MIN_LOG_LEVEL']='3'
import numpy as np
import tensorflow as tf
import tensorflow_lattice as tfl
from tensorflow_lattice.python import conditional_pwl_calibration as cpc
x=tf.constant([[0.2],[0.7]])
for shape in [(1,1,3),(2,1,3),(1,2,3),(2,3),(1,3)]:
    try:
        y=cpc.pwl_calibration_fn(x,tf.zeros((1,1,1)),tf.constant(np.random.RandomState(0).normal(size=shape).astype(np.float32)),units=2)
        print(shape,'ok',y.numpy().shape)
    except Exception as e: print(shape,'EXC',type(e).__name__,str(e).strip().split('\n')[-1][:150])
for shape in [(1,1,1),(2,1,1),(1,2,1),(2,1),(1,1)]:
    try:
        y=cpc.pwl_calibration_fn(x,tf.zeros(shape),tf.zeros((1,2,3)),units=2)
        print('kin',shape,'ok',y.numpy().shape)
    except Exception as e: print('kin',shape,'EXC',type(e).__name__,str(e).strip().split('\n')[-1][:150])
