import os, sys, itertools, time, collections
os.environ['TF_CPP_MIN_LOG_LEVEL']='3'
import numpy as np
import tensorflow as tf
import tf_keras as keras
import tensorflow_lattice as tfl
print(tfl.__file__)
rs=np.random.RandomState(0)
cnt=collections.Counter(); bad=collections.Counter(); ex={}
KP=[0.,1.,2.]
def fc(i,t,ls,extra):
    if t=='cat': return tfl.configs.FeatureConfig('f%d'%i,lattice_size=ls,num_buckets=3,monotonicity=extra.get('catmono',[(0,1)]))
    return tfl.configs.FeatureConfig('f%d'%i,lattice_size=ls,monotonicity=t,pwl_calibration_input_keypoints=extra.get('kp',KP),unimodality=extra.get('uni','none'),
        reflects_trust_in=extra.get('trust'),dominates=extra.get('dom'),pwl_calibration_convexity=extra.get('conv',0),pwl_calibration_clamp_min=extra.get('cmin',False),
        pwl_calibration_input_keypoints_type=extra.get('kt','fixed'),default_value=extra.get('dv'))
T=0
for it in range(400):
    nf=int(rs.randint(1,4))
    kinds=[str(rs.choice(['increasing','decreasing','none',1,-1,0,'cat','bogus'],p=[.2,.15,.2,.1,.05,.1,.15,.05])) for _ in range(nf)]
    kinds=[int(k) if k in('1','-1','0') else k for k in kinds]
    feats=[]
    for i,t in enumerate(kinds):
        extra={}
        r=rs.rand()
        if r<.1: extra['uni']=str(rs.choice(['valley','peak']))
        if rs.rand()<.15 and nf>1: extra['trust']=[tfl.configs.TrustConfig('f%d'%int(rs.randint(nf)),str(rs.choice(['edgeworth','trapezoid','zzz'])),int(rs.choice([-1,1])))]
        if rs.rand()<.1 and nf>1: extra['dom']=[tfl.configs.DominanceConfig('f%d'%int(rs.randint(nf)))]
        if rs.rand()<.1: extra['conv']=int(rs.choice([-1,1]))
        if rs.rand()<.1: extra['cmin']=True
        if rs.rand()<.1: extra['kt']='learned_interior'
        if rs.rand()<.1: extra['kp']=[0.,0.,1.] if rs.rand()<.5 else 'quantiles'
        if rs.rand()<.1: extra['dv']=-1.
        if rs.rand()<.1: extra['catmono']=[(0,1),(1,0)] if rs.rand()<.5 else [(0,7)]
        feats.append(fc(i,t,int(rs.choice([1,2,3])),extra))
    omin=float(rs.choice([0.,1.])) if rs.rand()<.5 else None; omax=float(rs.choice([0.,1.,2.])) if rs.rand()<.5 else None
    oc=bool(rs.rand()<.3); oi=[0.,1.] if rs.rand()<.8 else 'quantiles'
    kind=str(rs.choice(['linear','lattice','kfl','ens','rtl','rtlkfl','ens-random']))
    names=[f.name for f in feats]
    def mk():
        common=dict(feature_configs=feats,output_min=omin,output_max=omax,output_calibration=oc,output_initialization=oi)
        if kind=='linear': return tfl.premade.CalibratedLinear(tfl.configs.CalibratedLinearConfig(use_bias=bool(rs.rand()<.5),**common))
        if kind in('lattice','kfl'): return tfl.premade.CalibratedLattice(tfl.configs.CalibratedLatticeConfig(parameterization='kronecker_factored' if kind=='kfl' else 'all_vertices',interpolation=str(rs.choice(['hypercube','simplex'])),**common))
        lat={'ens':[names[:2] or names, names[-2:] or names],'rtl':'rtl_layer','rtlkfl':'rtl_layer','ens-random':'random'}[kind]
        return tfl.premade.CalibratedLatticeEnsemble(tfl.configs.CalibratedLatticeEnsembleConfig(lattices=lat,num_lattices=int(rs.choice([1,2,3])),lattice_rank=int(rs.choice([1,2])),parameterization='kronecker_factored' if kind=='rtlkfl' else 'all_vertices',use_linear_combination=bool(rs.rand()<.3),use_bias=bool(rs.rand()<.2),**common))
    cfgd=(kind,kinds,omin,omax,oc,[ (f.unimodality, bool(f.reflects_trust_in), bool(f.dominates), f.pwl_calibration_convexity, f.lattice_size, f.pwl_calibration_input_keypoints if not f.num_buckets else f.monotonicity) for f in feats])
    try: m=mk()
    except ValueError as e: cnt['rej']+=1; continue
    except Exception as e:
        k=('construct',type(e).__name__,str(e)[:70].replace('\n',' ')); bad[k]+=1; ex.setdefault(k,cfgd); continue
    cnt['accepted']+=1
    try:
        X=[(rs.randint(0,3,(6,1)).astype(np.int32) if f.num_buckets else rs.uniform(-1,3,(6,1)).astype(np.float32)) for f in feats]
        for v in m.trainable_variables: v.assign(rs.normal(size=v.shape).astype(np.float32)*2)
        for v in m.trainable_variables:
            if v.constraint is not None: v.assign(v.constraint(v))
        y=m.predict(X,verbose=0)
        if not np.isfinite(y).all(): bad[('nonfinite',)]+=1; ex.setdefault(('nonfinite',),cfgd)
    except Exception as e:
        k=('accepted-then',type(e).__name__,str(e)[:70].replace('\n',' ')); bad[k]+=1; ex.setdefault(k,cfgd)
print(cnt)
for k,v in sorted(bad.items(),key=str): print(v,k,'\n     ',ex[k])
