import os, sys, itertools, time, collections
os.environ['TF_CPP_MIN_LOG_LEVEL']='3'
import numpy as np
import tensorflow as tf
import tf_keras as keras
import tensorflow_lattice as tfl
from tensorflow_lattice.python import linear_layer as lin, categorical_calibration_layer as cl, kronecker_factored_lattice_lib as kfl, kronecker_factored_lattice_layer as kll, conditional_cdf
print(tfl.__file__)
rs=np.random.RandomState(0)
W=collections.defaultdict(float); cnt=collections.Counter(); bad=[]
# C09 linear / categorical per column
for it in range(100):
    n=int(rs.choice([2,3,5])); mono=[int(rs.choice([0,1,1,-1])) for _ in range(n)]
    inc=[i for i in range(n) if mono[i]==1]
    md=[(inc[0],inc[1])] if len(inc)>=2 and rs.rand()<.6 else None
    norm=int(rs.choice([0,1,2])) or None
    c=lin.LinearConstraints(mono,monotonic_dominances=md,normalization_order=norm)
    K=(rs.normal(size=(n,3))*np.array([1,10,.1])).astype(np.float32)
    full=c(tf.constant(K)).numpy()
    for u in range(3): W['lin-col']=max(W['lin-col'],np.abs(c(tf.constant(K[:,u:u+1])).numpy()[:,0]-full[:,u]).max()/max(1e-30,np.abs(full[:,u]).max()))
    nb=4; pairs=[(0,1),(1,3),(0,2)]
    cc=cl.CategoricalCalibrationConstraints(0.,1.,pairs); K=(rs.normal(size=(nb,3))*np.array([1,10,.1])).astype(np.float32)
    full=cc(tf.constant(K)).numpy()
    for u in range(3): W['cat-col']=max(W['cat-col'],np.abs(cc(tf.constant(K[:,u:u+1])).numpy()[:,0]-full[:,u]).max())
# KFL: per-unit constraint independence, init, assert injection, grads
for it in range(60):
    ls=int(rs.choice([2,3,4])); dims=int(rs.randint(1,4)); units=int(rs.choice([2,3])); terms=int(rs.choice([1,2,3]))
    mono=[int(rs.rand()<.6) for _ in range(dims)]
    b=rs.choice(['none','min','max','both']); omin=omax=None
    if b in('min','both'): omin=float(rs.choice([-1.,0.]))
    if b in('max','both'): omax=(omin if omin is not None else 0.)+float(rs.choice([1.,2.]))
    l=tfl.layers.KroneckerFactoredLattice(ls,units=units,num_terms=terms,monotonicities=mono,output_min=omin,output_max=omax)
    g=np.linspace(0,ls-1,2*(ls-1)+1); pts=np.array(list(itertools.product(g,repeat=dims)),dtype=np.float32); X=np.repeat(pts[:,None,:],units,axis=1)
    y=l(tf.constant(X)).numpy().reshape([len(g)]*dims+[units])
    # C10 init
    try: l.assert_constraints()
    except Exception as e: bad.append(('kfl-init-assert',mono,omin,omax,str(e)[:80]))
    for d,m in enumerate(mono):
        if m and (-np.diff(y,axis=d)).max()>1e-5: bad.append(('kfl-init-mono',mono,omin,omax))
    if omin is not None and y.min()<omin-1e-5: bad.append(('kfl-init-min',y.min(),omin))
    if omax is not None and y.max()>omax+1e-5: bad.append(('kfl-init-max',y.max(),omax))
    cnt['kfl-init']+=1
    # C09: unit independence of kernel constraint: perturb unit 0 kernel, others unchanged
    if l.kernel.constraint is not None:
        K=rs.normal(size=l.kernel.shape).astype(np.float32)*2; S=rs.normal(size=l.scale.shape).astype(np.float32)
        l.scale.assign(S); P1=l.kernel.constraint(tf.constant(K)).numpy()
        K2=K.copy().reshape(1,ls,units,dims,terms); K2[:,:,0]*=7.3; K2=K2.reshape(K.shape)
        P2=l.kernel.constraint(tf.constant(K2)).numpy()
        d=np.abs(P1.reshape(1,ls,units,dims,terms)[:,:,1:]-P2.reshape(1,ls,units,dims,terms)[:,:,1:]).max(); W['kfl-unit-indep']=max(W['kfl-unit-indep'],d)
    # C12 injection (only when monotone dims & positive scale)
    if any(mono):
        l.kernel.assign(l.kernel.constraint(l.kernel)); 
        if l.scale.constraint is not None: l.scale.assign(l.scale.constraint(l.scale))
        try: l.assert_constraints(1e-4); ok=True
        except Exception as e: ok=False; bad.append(('kfl-assert-feasible',mono,omin,omax,str(e)[:60]))
        Kc=l.kernel.numpy().reshape(1,ls,units,dims,terms).copy(); d=mono.index(1); u=int(rs.randint(units)); t=int(rs.randint(terms))
        sgn=np.sign(l.scale.numpy()[u,t]) or 1
        col=Kc[0,:,u,d,t].copy()
        # violate: make keypoint 1 lower than keypoint 0 in direction
        col2=col.copy(); col2[1]=col2[0]-sgn*0.05 if sgn>0 else col2[0]+0.05
        Kc[0,:,u,d,t]=np.maximum(col2,0) if (omin is not None or omax is not None) else col2
        if abs(Kc[0,1,u,d,t]-col[1])>1e-6 and l.scale.numpy()[u,t]!=0 and (sgn*(Kc[0,1,u,d,t]-Kc[0,0,u,d,t])<-1e-3):
            l.kernel.assign(Kc.reshape(l.kernel.shape))
            try: l.assert_constraints(1e-4); bad.append(('kfl-assert-accepts-violation',mono,u,d,t))
            except tf.errors.InvalidArgumentError: cnt['kfl-inject-detected']+=1
    # C19 grads vs reference with reduce_prod
    K=rs.normal(size=l.kernel.shape).astype(np.float32); K[rs.rand(*K.shape)<.15]=0
    l.kernel.assign(K); xs=tf.constant(rs.uniform(0,ls-1,size=(4,units,dims)).astype(np.float32)); xs=tf.concat([xs[:2],tf.round(xs[2:])],axis=0)
    with tf.GradientTape(persistent=True) as tp:
        tp.watch(xs); o=tf.reduce_sum(l(xs)*tf.constant(rs.normal(size=(4,units)).astype(np.float32)))
    gk=tp.gradient(o,l.kernel).numpy(); gs=tp.gradient(o,l.scale).numpy()
    orig=kfl.custom_reduce_prod; kfl.custom_reduce_prod=lambda t,axis: tf.reduce_prod(t,axis=axis)
    # need same random multiplier: recompute both with fixed multiplier
    mult=tf.constant(rs.normal(size=(4,units)).astype(np.float32))
    def grads():
        with tf.GradientTape(persistent=True) as tp2:
            tp2.watch(xs); o2=tf.reduce_sum(l(xs)*mult)
        return tp2.gradient(o2,l.kernel).numpy(),tp2.gradient(o2,l.scale).numpy(),tp2.gradient(o2,xs).numpy()
    r=grads(); kfl.custom_reduce_prod=orig; c_=grads()
    for a,b_ in zip(r,c_): W['kfl-grad']=max(W['kfl-grad'],np.abs(a-b_).max()/max(1,np.abs(a).max()))
# C15 CDF
for it in range(150):
    idim=int(rs.choice([1,2,4])); units=int(rs.choice([1,2,4])); sf=int(rs.choice([s for s in [1,2,4] if idim%s==0 and units%s==0])); nk=int(rs.choice([1,3,5]))
    act=str(rs.choice(['relu6','sigmoid'])); red=str(rs.choice(['mean','none','geometric_mean']))
    loc=(rs.normal(size=(1,idim,nk,units//sf))*float(rs.choice([1.,100.,1e4]))).astype(np.float32)
    sc=np.abs(rs.normal(size=(1,idim,1,1))*float(rs.choice([0.,1.,1e3]))).astype(np.float32)
    base=(rs.normal(size=(1,idim))*float(rs.choice([1.,100.]))).astype(np.float32)
    for d in range(idim):
        xs=np.repeat(base,9,axis=0); xs[:,d]=np.sort(rs.normal(size=9)*float(rs.choice([1.,1e3,1e5])))
        y=conditional_cdf.cdf_fn(tf.constant(xs),tf.constant(np.repeat(loc,9,axis=0)),tf.constant(np.repeat(sc,9,axis=0)),units=units,activation=act,reduction=red,sparsity_factor=sf).numpy()
        cnt['cdf']+=1
        if not np.isfinite(y).all(): bad.append(('cdf-nonfinite',act,red)); continue
        lo=0 if red!='geometric_mean' else 0; hi=1+1e-6
        if y.min()<-1e-6 or y.max()>hi: bad.append(('cdf-range',y.min(),y.max(),act,red))
        if (np.diff(y,axis=0)<-1e-6).any(): bad.append(('cdf-mono',act,red,float(np.diff(y,axis=0).min())))
print(dict(W)); print(cnt); print(len(bad),collections.Counter(b[0] for b in bad))
seen=set()
for b in bad:
    if b[0] in seen: continue
    seen.add(b[0]); print(b)
