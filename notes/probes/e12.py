import os, sys, time, collections, itertools
os.environ['TF_CPP_MIN_LOG_LEVEL']='3'
import numpy as np
import tensorflow as tf
import tf_keras as keras
import tensorflow_lattice as tfl
from tensorflow_lattice.python import rtl_layer, premade_lib
rs=np.random.RandomState(int(sys.argv[1]) if len(sys.argv)>1 else 0)
cnt=collections.Counter(); bad=[]
for it in range(300):
    nu=int(rs.randint(0,6)); ni=int(rs.randint(0,6))
    if nu+ni==0: continue
    # groups
    def groups(n):
        g=[]; 
        while n>0:
            k=int(rs.randint(1,n+1)); g.append(k); n-=k
        return g
    shape={}
    if nu: shape['unconstrained']=[(None,k) for k in groups(nu)] if rs.rand()<.6 else (None,nu)
    if ni: shape['increasing']=[(None,k) for k in groups(ni)] if rs.rand()<.6 else (None,ni)
    rank=int(rs.randint(1,5)); nl=int(rs.randint(1,8)); seed=int(rs.randint(0,1000))
    layer=rtl_layer.RTL(num_lattices=nl,lattice_rank=rank,random_seed=seed)
    try: st=layer._get_rtl_structure(shape)
    except ValueError as e:
        cnt['rej']+=1
        if nl*rank>=nu+ni: bad.append(('rejected-but-enough',shape,rank,nl))
        continue
    st2=rtl_layer.RTL(num_lattices=nl,lattice_rank=rank,random_seed=seed)._get_rtl_structure(shape)
    if st!=st2: bad.append(('nondet',))
    cnt['ok']+=1
    # inputs sorted keys: 'increasing' < 'unconstrained' => increasing indices first
    n_inc=ni; total=nu+ni
    use=collections.Counter(); nlat=0
    for monos,lats in st:
        for lat in lats:
            nlat+=1
            if len(lat)!=rank: bad.append(('rank',lat,rank))
            for m,i in zip(monos,lat):
                use[i]+=1
                is_inc = i<n_inc
                if is_inc and m!=1: bad.append(('inc-wired-to-nonmono',shape,monos,lat))
                if (not is_inc) and m!=0: bad.append(('unc-wired-to-mono',shape,monos,lat))
    if nlat!=nl: bad.append(('nlat',nlat,nl))
    if set(use)!=set(range(total)): bad.append(('unused',shape,rank,nl,sorted(use)))
    if max(use.values())-min(use.values())>1: bad.append(('usage',shape,dict(use)))
print(cnt,len(bad),collections.Counter(b[0] for b in bad)); 
for b in bad[:5]: print(b)
# random ensemble
bad=[]
for it in range(300):
    nf=int(rs.randint(2,9)); rank=int(rs.randint(1,nf+1)); nl=int(rs.randint(2,7)); seed=int(rs.randint(0,100))
    names=['f%d'%i for i in range(nf)]
    def mk():
        mc=tfl.configs.CalibratedLatticeEnsembleConfig(feature_configs=[tfl.configs.FeatureConfig(n) for n in names],lattices='random',num_lattices=nl,lattice_rank=rank,random_seed=seed)
        premade_lib.set_random_lattice_ensemble(mc); return mc.lattices
    try: L=mk()
    except Exception as e:
        cnt['rnd-exc '+type(e).__name__+str(e)[:50]]+=1
        if nl*rank>=nf: bad.append(('exc-but-enough',nf,rank,nl,str(e)[:80]))
        continue
    L2=mk()
    if [list(map(str,l)) for l in L]!=[list(map(str,l)) for l in L2]: bad.append(('nondet',))
    cnt['rnd']+=1
    if len(L)!=nl or any(len(l)!=rank for l in L): bad.append(('shape',L))
    if any(len(set(l))!=len(l) for l in L): bad.append(('repeat',L))
    if set(x for l in L for x in l)!=set(names): bad.append(('unused',nf,rank,nl,L))
print(cnt,len(bad),collections.Counter(b[0] for b in bad))
for b in bad[:5]: print(b)
