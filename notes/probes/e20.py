import os, sys, time, collections, itertools
os.environ['TF_CPP_MIN_LOG_LEVEL']='3'
import numpy as np
import tensorflow as tf
import tf_keras as keras
import tensorflow_lattice as tfl
rs=np.random.RandomState(0)
KP=[0.,1.,2.,3.]
worst=collections.defaultdict(float)
for trial in range(12):
    conv=int(rs.choice([-1,1]))
    fcs=[tfl.configs.FeatureConfig('a',lattice_size=2,monotonicity='increasing',pwl_calibration_convexity=conv,pwl_calibration_input_keypoints=KP),
         tfl.configs.FeatureConfig('b',lattice_size=2,monotonicity='decreasing',pwl_calibration_convexity=-conv,pwl_calibration_input_keypoints=KP)]
    kind=['lattice','linear'][trial%2]
    if kind=='lattice': m=tfl.premade.CalibratedLattice(tfl.configs.CalibratedLatticeConfig(feature_configs=fcs,output_min=0.,output_max=1.,output_initialization=[0.,1.]))
    else: m=tfl.premade.CalibratedLinear(tfl.configs.CalibratedLinearConfig(feature_configs=fcs,output_min=0.,output_max=1.,output_initialization=[0.,1.]))
    lr=float(rs.choice([1.,10.,100.]))
    m.compile(loss='mse',optimizer=keras.optimizers.SGD(lr))
    n=64
    Xt=[rs.uniform(-1,4,(n,1)).astype(np.float32) for _ in range(2)]
    yt=((-Xt[0]+Xt[1])*3+rs.normal(size=(n,1))*5).astype(np.float32)
    g=np.linspace(-1,4,11).astype(np.float32)
    A,B=np.meshgrid(g,g,indexing='ij')
    for ep in range(3):
        m.fit(Xt,yt,epochs=1,batch_size=8,verbose=0)
        y=m.predict([A.reshape(-1,1),B.reshape(-1,1)],verbose=0).reshape(A.shape)
        worst[(kind,'inc')]=max(worst[(kind,'inc')],(-np.diff(y,axis=0)).max()); worst[(kind,'dec')]=max(worst[(kind,'dec')],np.diff(y,axis=1).max())
        worst[(kind,'min')]=max(worst[(kind,'min')],0-y.min()); worst[(kind,'max')]=max(worst[(kind,'max')],y.max()-1)
        for lay in m.layers:
            if isinstance(lay,tfl.layers.PWLCalibration):
                o=lay.keypoints_outputs().numpy()
                worst[(kind,'calib-out-of-range')]=max(worst[(kind,'calib-out-of-range')], lay.output_min-o.min(), o.max()-lay.output_max)
for k,v in worst.items(): print(k,v)
