import os, sys, itertools, time, collections
os.environ['TF_CPP_MIN_LOG_LEVEL']='3'
import numpy as np, scipy.optimize as so
import tensorflow as tf
import tensorflow_lattice as tfl
from tensorflow_lattice.python import lattice_lib

def rows(sizes, mono=None, unimod=None, ew=(), tz=(), mdom=(), rdom=(), jmono=()):
    """Return A with rows a such that a.w <= 0 is required."""
    n=int(np.prod(sizes)); idx=np.arange(n).reshape(sizes); A=[]
    def row(pairs):
        r=np.zeros(n)
        for i,c in pairs: r[i]+=c
        A.append(r)
    rank=len(sizes)
    for d in range(rank):
        I=np.moveaxis(idx,d,0)
        if mono and mono[d]:
            for k in range(sizes[d]-1):
                for a,b in zip(I[k].ravel(),I[k+1].ravel()): row([(a,1),(b,-1)])  # w[a]-w[b]<=0
        if unimod and unimod[d]:
            for k in range(sizes[d]-1):
                first = k < sizes[d]//2
                inc = (unimod[d]==-1 and first) or (unimod[d]==1 and not first)
                for a,b in zip(I[k].ravel(),I[k+1].ravel()):
                    row([(a,1),(b,-1)] if inc else [(a,-1),(b,1)])
    for m,c,dr in ew:
        I=np.moveaxis(idx,[m,c],[0,1])
        for i in range(sizes[m]-1):
            for j in range(sizes[c]-1):
                for a,b,cc,d2 in zip(I[i,j].ravel(),I[i+1,j].ravel(),I[i,j+1].ravel(),I[i+1,j+1].ravel()):
                    # dr*((d2-cc)-(b-a)) >=0
                    row([(d2,-dr),(cc,dr),(b,dr),(a,-dr)])
    for m,c,dr in tz:
        I=np.moveaxis(idx,[m,c],[0,1])
        for j in range(sizes[c]-1):
            for a,b in zip(I[0,j].ravel(),I[0,j+1].ravel()): row([(a,-dr),(b,dr)])   # dr*(lo[j]-lo[j+1])>=0
            for a,b in zip(I[-1,j].ravel(),I[-1,j+1].ravel()): row([(b,-dr),(a,dr)])
    for dm,wk in mdom:
        I=np.moveaxis(idx,[dm,wk],[0,1])
        for i in range(sizes[dm]-1):
            for j in range(sizes[wk]-1):
                for a,b,cc,d2 in zip(I[i,j].ravel(),I[i+1,j].ravel(),I[i,j+1].ravel(),I[i+1,j+1].ravel()):
                    row([(a,.5),(d2,.5),(b,-1)]); row([(cc,1),(a,-.5),(d2,-.5)])
    for d1,d2_ in jmono:
        I=np.moveaxis(idx,[d1,d2_],[0,1])
        for i in range(sizes[d1]-1):
            for j in range(sizes[d2_]-1):
                for a,b,cc,d2 in zip(I[i,j].ravel(),I[i+1,j].ravel(),I[i,j+1].ravel(),I[i+1,j+1].ravel()):
                    row([(b,.5),(cc,.5),(d2,-1)]); row([(a,1),(b,-.5),(cc,-.5)])
    return np.array(A)

def proj(A,w0):
    lam,_=so.nnls(A.T,w0, maxiter=10000)
    return w0-A.T@lam

rs=np.random.RandomState(int(sys.argv[1]) if len(sys.argv)>1 else 0)
cases=[
 dict(sizes=[3,3],mono=[1,1]),
 dict(sizes=[2,3,2],mono=[1,0,1],ew=[(0,1,1)]),
 dict(sizes=[3,3],mono=[1,0],tz=[(0,1,-1)]),
 dict(sizes=[3,4],mono=[0,0],unimod=[1,-1]),
 dict(sizes=[3,3],mono=[1,1],mdom=[(0,1)]),
 dict(sizes=[3,2,2],mono=[0,0,0],jmono=[(0,1)]),
 dict(sizes=[2,2,3],mono=[1,1,0],ew=[(0,2,-1)],tz=[(1,2,1)],jmono=[(0,1)]),
]
for c in cases:
    sizes=c['sizes']; n=int(np.prod(sizes))
    A=rows(sizes,c.get('mono'),c.get('unimod'),c.get('ew',()),c.get('tz',()),c.get('mdom',()),(),c.get('jmono',()))
    for units in (1,2):
        w0=rs.normal(size=(n,units)).astype(np.float32)
        for iters in (1,10,100,1000):
            p=lattice_lib.project_by_dykstra(tf.constant(w0),sizes,monotonicities=c.get('mono'),unimodalities=c.get('unimod'),edgeworth_trusts=c.get('ew'),trapezoid_trusts=c.get('tz'),monotonic_dominances=c.get('mdom'),joint_monotonicities=c.get('jmono'),num_iterations=iters).numpy().astype(np.float64)
            ref=np.stack([proj(A,w0[:,u].astype(np.float64)) for u in range(units)],axis=1)
            print(c, units, iters, 'maxviol %.2e'%max(0,(A@p).max()), 'dist_to_ref %.2e'%np.abs(p-ref).max())
