import os, sys, time, collections, itertools
os.environ['TF_CPP_MIN_LOG_LEVEL']='3'
import numpy as np
import tensorflow as tf
import tf_keras as keras
import tensorflow_lattice as tfl
from tensorflow_lattice.python import kronecker_factored_lattice_lib as kfl, lattice_lib, conditional_cdf, conditional_pwl_calibration as cpc
rs=np.random.RandomState(0)
worst=0
for it in range(60):
    dims=int(rs.randint(1,5)); ls=int(rs.choice([2,3,4])); units=int(rs.choice([1,2,3])); terms=int(rs.choice([1,2,3]))
    kernel=rs.normal(size=(1,ls,units*dims,terms)).astype(np.float32)
    scale=rs.normal(size=(units,terms)).astype(np.float32); bias=rs.normal(size=(units,)).astype(np.float32)
    B=5
    x=rs.uniform(-.5,ls-.5,size=(B,dims) if units==1 else (B,units,dims)).astype(np.float32)
    y=kfl.evaluate_with_hypercube_interpolation(tf.constant(x),scale,bias,kernel,units,terms,ls,True).numpy().reshape(B,units)
    K=kernel.reshape(ls,units,dims,terms).astype(np.float64)
    dense=np.zeros((ls**dims,units))
    for u in range(units):
        acc=np.zeros([ls]*dims)
        for t in range(terms):
            o=np.ones([ls]*dims)
            for d in range(dims):
                shp=[1]*dims; shp[d]=ls
                o=o*K[:,u,d,t].reshape(shp)
            acc+=scale[u,t]*o
        dense[:,u]=(acc/terms+bias[u]).ravel()
    y2=lattice_lib.evaluate_with_hypercube_interpolation(tf.constant(x),tf.constant(dense.astype(np.float32)),units,[ls]*dims,True).numpy().reshape(B,units)
    worst=max(worst,np.abs(y-y2).max()/max(1,np.abs(y).max()))
print('KFL vs dense',worst)
# CDF
worst=0
for it in range(40):
    idim=int(rs.choice([1,2,4])); units=int(rs.choice([1,2,4])); sf=int(rs.choice([s for s in [1,2,4] if idim%s==0 and units%s==0])); nk=int(rs.choice([1,3,5]))
    act=str(rs.choice(['relu6','sigmoid'])); red=str(rs.choice(['mean','none']))
    st=str(rs.choice(['fixed','learned_shared','learned_per_input']))
    l=tfl.layers.CDF(nk,units=units,activation=act,reduction=red,sparsity_factor=sf,input_scaling_type=st,input_scaling_init=float(rs.choice([.5,1.,7.])))
    x=rs.normal(size=(6,idim)).astype(np.float32)*3
    y=l(tf.constant(x)).numpy()
    kern=l.kernel.numpy(); sc=np.broadcast_to(np.array(l.input_scaling), (1,idim,1,1)) if st!='learned_per_input' else l.input_scaling.numpy()
    y2=conditional_cdf.cdf_fn(tf.constant(x),tf.constant(np.tile(kern,[6,1,1,1])),tf.constant(np.tile(sc,[6,1,1,1]).astype(np.float32)),units=units,activation=act,reduction=red,sparsity_factor=sf).numpy()
    worst=max(worst,np.abs(y-y2).max())
    if y.min()<-1e-6 or y.max()>1+1e-6: print('range',y.min(),y.max())
print('CDF vs fn',worst)
