import os, sys
os.environ['TF_CPP_MIN_LOG_LEVEL']='3'
import numpy as np
import tensorflow as tf
import tensorflow_lattice as tfl
from tensorflow_lattice.python import conditional_pwl_calibration as cpc
x=tf.constant([[0.0],[0.5],[1.0],[-1.],[2.]])
for mag in [10.,50.,100.,200.,1e4,1e30]:
    kin=tf.constant([[0.,mag]]); 
    for kout in ([[0.3,-0.2,0.8,0.1]], [[mag,-mag,mag,0.]]):
        y=cpc.pwl_calibration_fn(x,kin,tf.constant(kout)).numpy().ravel()
        y2=cpc.pwl_calibration_fn(x,tf.constant([[mag,0.]]),tf.constant(kout),monotonicity='increasing').numpy().ravel()
        print(mag, y, y2)
# layer with learned interior
l=tfl.layers.PWLCalibration([0.,1.,2.,3.],input_keypoints_type='learned_interior',monotonicity=1,output_min=0.,output_max=1.)
xx=tf.constant([[0.],[1.],[3.],[1.5],[-1.],[4.]])
l(xx)
for mag in [50.,100.,200.]:
    l.interpolation_logits.assign([[0.,mag,0.]])
    print('layer',mag,l(xx).numpy().ravel(), l.keypoints_inputs().numpy().ravel())
