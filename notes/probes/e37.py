import os, sys
os.environ['TF_CPP_MIN_LOG_LEVEL']='3'
import numpy as np
import tensorflow as tf
import tensorflow_lattice as tfl
from tensorflow_lattice.python import conditional_pwl_calibration as cpc
np.set_printoptions(precision=9, linewidth=200)
rs=np.random.RandomState(1)
found=0
for it in range(4000):
    nk=int(rs.choice([3,4,6])); mag=float(rs.choice([30.,1e4]))
    kin=(rs.normal(size=(1,1,nk-2))*30).astype(np.float32); kout=(rs.normal(size=(1,1,nk))*mag).astype(np.float32)
    x=np.sort(rs.uniform(-1,2,size=(9,1)),axis=0).astype(np.float32); x[0]=0; x[-1]=1
    x=np.sort(x,axis=0)
    y,dl,ko=cpc.pwl_calibration_fn(tf.constant(x),tf.constant(kin),tf.constant(kout),monotonicity='increasing',return_derived_parameters=True)
    y=y.numpy().ravel()
    if np.isnan(y).any(): continue
    d=np.diff(y)
    if (d<-1e-5).any():
        found+=1
        i=int(np.argmin(d))
        print('x',x.ravel()); print('y',y); print('lengths',dl.numpy().ravel()); print('heights',ko.numpy().ravel()); print('at',x.ravel()[i],x.ravel()[i+1])
        if found>=3: break
print('found',found)
