import os, sys, time, collections, itertools
os.environ['TF_CPP_MIN_LOG_LEVEL']='3'
import numpy as np
import tensorflow as tf
import tensorflow_lattice as tfl
from tensorflow_lattice.python import lattice_layer as ll, pwl_calibration_layer as pl, pwl_calibration_lib as plib, linear_layer as lin, categorical_calibration_layer as cl, kronecker_factored_lattice_lib as kfl
rs=np.random.RandomState(0)
sys.path.insert(0,'/tmp/scratch')
import importlib
e4=None
w=collections.defaultdict(float)
# lattice: reuse config generator from e4 by exec
src=open('/tmp/scratch/e4.py').read().split("seed = int(sys.argv[1])")[0]
exec(src)
for it in range(200):
    cfg=rand_config(rs)
    units=int(rs.choice([2,3]))
    c=ll.LatticeConstraints(lattice_sizes=cfg['sizes'],monotonicities=cfg['mono'],edgeworth_trusts=cfg['ew'] or None,trapezoid_trusts=cfg['tz'] or None,output_min=cfg['omin'],output_max=cfg['omax'],num_projection_iterations=cfg['iters'])
    n=int(np.prod(cfg['sizes']))
    _,k=rand_kernel(rs,n,units)
    # make units differ in scale
    k=k*np.array([1,10,0.1][:units],dtype=np.float32)
    full=c(tf.constant(k)).numpy()
    for u in range(units):
        single=c(tf.constant(k[:,u:u+1])).numpy()
        e=np.abs(single[:,0]-full[:,u]).max()/max(1,np.abs(full[:,u]).max())
        if e>1e-5: print('LATTICE unit dep',cfg,u,e)
        w['lattice']=max(w['lattice'],e)
B=plib.BoundConstraintsType
for it in range(200):
    nk=int(rs.choice([2,3,5])); units=3
    mono=int(rs.choice([-1,0,1])); conv=int(rs.choice([-1,0,1]))
    omin=float(rs.choice([-1,0])) if rs.rand()<.6 else None; omax=(omin or 0)+1. if rs.rand()<.6 else None
    cm=bool(mono and omin is not None and rs.rand()<.4); cx=bool(mono and omax is not None and rs.rand()<.4)
    _,_,a,b=plib.convert_all_constraints(omin,omax,cm,cx)
    c=pl.PWLCalibrationConstraints(mono,conv,tf.constant(rs.choice([.5,1,2],size=nk-1).astype(np.float32)),omin,omax,a,b,int(rs.choice([0,1,8])))
    k=(rs.normal(size=(nk,units))*np.array([1,20,.05])).astype(np.float32)
    full=c(tf.constant(k)).numpy()
    for u in range(units):
        single=c(tf.constant(k[:,u:u+1])).numpy()
        e=np.abs(single[:,0]-full[:,u]).max()/max(1,np.abs(full[:,u]).max()); w['pwl']=max(w['pwl'],e)
        if e>1e-5: print('PWL unit dep',mono,conv,omin,omax,cm,cx,e)
print(dict(w))
