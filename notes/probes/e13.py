import os, sys, time, collections, itertools
os.environ['TF_CPP_MIN_LOG_LEVEL']='3'
import numpy as np
import tensorflow as tf
import tf_keras as keras
import tensorflow_lattice as tfl
from tensorflow_lattice.python import premade_lib
rs=np.random.RandomState(int(sys.argv[1]) if len(sys.argv)>1 else 0)
cnt=collections.Counter(); bad=[]
t0=time.time()
for it in range(40):
    nf=int(rs.randint(3,8)); rank=int(rs.randint(2,min(nf,5))); nl=int(rs.randint(2,7)); seed=int(rs.randint(0,100))
    names=['f%d'%i for i in range(nf)]
    fcs=[tfl.configs.FeatureConfig(n, pwl_calibration_input_keypoints=[0.,1.], monotonicity=int(rs.choice([0,1]))) for n in names]
    mc=tfl.configs.CalibratedLatticeEnsembleConfig(feature_configs=fcs,lattices='crystals',num_lattices=nl,lattice_rank=rank,random_seed=seed,output_initialization=[0.,1.])
    pc=premade_lib.construct_prefitting_model_config(mc)
    # pair cover check
    pairs=set(itertools.combinations(names,2))
    covered=set()
    for l in pc.lattices:
        if len(l)>rank: bad.append(('cover-rank',l,rank))
        for a,b in itertools.combinations(sorted(l),2): covered.add((a,b))
    if {tuple(sorted(p)) for p in pairs}-covered: bad.append(('cover-missing',nf,rank))
    pm=tfl.premade.CalibratedLatticeEnsemble(pc)
    mode=rs.choice(['random','constant','one-constant','big'])
    for i,l in enumerate(pc.lattices):
        lay=pm.get_layer('tfl_lattice_%d'%i)
        w=rs.normal(size=lay.kernel.shape).astype(np.float32)
        if mode=='constant' or (mode=='one-constant' and i==0): w=w*0+0.3
        if mode=='big': w*=1e6
        lay.kernel.assign(w)
    try:
        premade_lib.set_crystals_lattice_ensemble(mc,pc,pm)
    except Exception as e:
        cnt[(str(mode),'EXC',type(e).__name__,str(e)[:60])]+=1; continue
    cnt[(str(mode),'ok')]+=1
    L=mc.lattices
    if len(L)!=nl or any(len(l)!=rank for l in L): bad.append(('shape',L,nl,rank))
    if set(x for l in L for x in l)!=set(names): bad.append(('unused',nf,rank,nl,L))
    if any(len(set(l))!=len(l) for l in L): cnt['repeat-in-lattice']+=1
print(time.time()-t0)
for k,v in cnt.items(): print(v,k)
print(len(bad),collections.Counter(b[0] for b in bad))
for b in bad[:5]: print(b)
