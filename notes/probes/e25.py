import os, sys, collections, traceback
os.environ['TF_CPP_MIN_LOG_LEVEL']='3'
import numpy as np
from tensorflow_lattice.python import premade_lib
v=np.round(np.random.RandomState(0).normal(size=10),1)
try:
    print(premade_lib.compute_keypoints(v,3,keypoints='uniform',clip_max=1.0,weights=np.ones(10)))
except Exception: traceback.print_exc()
try:
    print(premade_lib.compute_keypoints(v,3,keypoints='quantiles',weights=np.ones(10)))
except Exception: traceback.print_exc()
