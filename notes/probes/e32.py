import os, sys, time, collections
os.environ['TF_CPP_MIN_LOG_LEVEL']='3'
import numpy as np
import tensorflow as tf
import tf_keras as keras
import tensorflow_lattice as tfl
from tensorflow_lattice.python import lattice_layer, pwl_calibration_layer
cnt=collections.Counter()
def wrap(cls,name):
    orig=cls.__call__
    def w(self,x):
        out=orig(self,x)
        cnt[(name,'eager' if hasattr(x,'numpy') and tf.executing_eagerly() else 'symbolic')]+=1
        return out
    cls.__call__=w
wrap(lattice_layer.LatticeConstraints,'lattice'); wrap(pwl_calibration_layer.PWLCalibrationConstraints,'pwl')
KP=[0.,1.,2.,3.]
fcs=[tfl.configs.FeatureConfig('a',lattice_size=2,monotonicity='increasing',pwl_calibration_input_keypoints=KP),tfl.configs.FeatureConfig('b',lattice_size=2,pwl_calibration_input_keypoints=KP)]
rs=np.random.RandomState(0)
X=[rs.uniform(0,3,(32,1)).astype(np.float32) for _ in range(2)]; y=rs.normal(size=(32,1)).astype(np.float32)
for eager in (True,False):
  for opt in ('new','legacy'):
    cnt.clear()
    m=tfl.premade.CalibratedLattice(tfl.configs.CalibratedLatticeConfig(feature_configs=fcs,output_min=0.,output_max=1.,output_initialization=[0.,1.]))
    o=keras.optimizers.SGD(.1) if opt=='new' else keras.optimizers.legacy.SGD(.1)
    m.compile(loss='mse',optimizer=o,run_eagerly=eager)
    t0=time.time()
    class CB(keras.callbacks.Callback):
        def on_train_batch_end(self,batch,logs=None): cnt['batch_end']+=1
    m.fit(X,y,epochs=1,batch_size=8,verbose=0,callbacks=[CB()])
    print('eager',eager,opt,dict(cnt),'%.2fs'%(time.time()-t0))
