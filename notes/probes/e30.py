import os, sys, itertools, time, collections
os.environ['TF_CPP_MIN_LOG_LEVEL']='3'
import numpy as np, scipy.optimize as so
import tensorflow as tf
import tensorflow_lattice as tfl
from tensorflow_lattice.python import lattice_lib as L
def proj(A,w0):
    if len(A)==0: return w0
    lam,_=so.nnls(A.T,w0,maxiter=20000); return w0-A.T@lam
rs=np.random.RandomState(0)
worst=collections.defaultdict(float); cnt=collections.Counter()
def rows_pairs(sizes, pairs):  # pairs list of (idx_lo, idx_hi): w[lo]-w[hi]<=0
    n=int(np.prod(sizes)); A=[]
    for a,b in pairs:
        r=np.zeros(n); r[a]+=1; r[b]-=1; A.append(r)
    return np.array(A)
for it in range(150):
    rank=int(rs.randint(2,4)); sizes=[int(rs.choice([2,3,4,5])) for _ in range(rank)]
    n=int(np.prod(sizes)); idx=np.arange(n).reshape(sizes)
    w=rs.normal(size=sizes).astype(np.float32)
    # monotonicity/unimodality group
    d=int(rs.randint(rank)); g=int(rs.choice([0,1]))
    if g+1<sizes[d]:
        for uni in [0,1,-1]:
            mono=[0]*rank; un=[0]*rank
            if uni==0: mono[d]=1
            else:
                if sizes[d]<3: continue
                un[d]=uni
            out=L._project_partial_monotonicity(tf.constant(w),sizes,mono,un,d,g).numpy().astype(np.float64).ravel()
            I=np.moveaxis(idx,d,0); A=[]
            for k in range(g,sizes[d]-1,2):
                first=k<sizes[d]//2
                inc = True if uni==0 else ((uni==-1 and first) or (uni==1 and not first))
                for a,b in zip(I[k].ravel(),I[k+1].ravel()):
                    r=np.zeros(n); 
                    if inc: r[a]=1; r[b]=-1
                    else: r[a]=-1; r[b]=1
                    A.append(r)
            ref=proj(np.array(A),w.astype(np.float64).ravel())
            worst['mono/uni']=max(worst['mono/uni'],np.abs(out-ref).max()); cnt['mono/uni']+=1
    # edgeworth
    m,c=rs.choice(rank,2,replace=False); m=int(m); c=int(c); dr=int(rs.choice([-1,1])); cg=(int(rs.choice([0,1])),int(rs.choice([0,1])))
    if cg[0]<sizes[m]-1 and cg[1]<sizes[c]-1:
        out=L._project_partial_edgeworth(tf.constant(w),sizes,(m,c,dr),cg).numpy().astype(np.float64).ravel()
        I=np.moveaxis(idx,[m,c],[0,1]); A=[]
        J = I if dr>0 else I[:, ::-1]
        for i in range(cg[0],sizes[m]-1,2):
            for j in range(cg[1],sizes[c]-1,2):
                for a,b,cc,dd in zip(J[i,j].ravel(),J[i+1,j].ravel(),J[i,j+1].ravel(),J[i+1,j+1].ravel()):
                    r=np.zeros(n); r[b]+=1; r[a]-=1; r[dd]-=1; r[cc]+=1; A.append(r)   # (b-a)-(dd-cc)<=0
        ref=proj(np.array(A),w.astype(np.float64).ravel())
        worst['edge']=max(worst['edge'],np.abs(out-ref).max()); cnt['edge']+=1
    # trapezoid
    g=int(rs.choice([0,1]))
    if g<sizes[c]-1:
        out=L._project_partial_trapezoid(tf.constant(w),sizes,(m,c,dr),g).numpy().astype(np.float64).ravel()
        I=np.moveaxis(idx,[m,c],[0,1]); J=I if dr>0 else I[:, ::-1]; A=[]
        for j in range(g,sizes[c]-1,2):
            for a,b in zip(J[0,j].ravel(),J[0,j+1].ravel()): r=np.zeros(n); r[b]=1; r[a]=-1; A.append(r)  # lo[j+1]-lo[j]<=0
            for a,b in zip(J[-1,j].ravel(),J[-1,j+1].ravel()): r=np.zeros(n); r[a]=1; r[b]=-1; A.append(r)
        ref=proj(np.array(A),w.astype(np.float64).ravel())
        worst['trap']=max(worst['trap'],np.abs(out-ref).max()); cnt['trap']+=1
    # monotonic dominance & joint monotonicity
    cg3=(int(rs.choice([0,1])),int(rs.choice([0,1])),int(rs.choice([0,1])))
    if cg3[0]<sizes[m]-1 and cg3[1]<sizes[c]-1:
        for name,fn in [('mdom',L._project_partial_monotonic_dominance),('jmono',L._project_partial_joint_monotonicity)]:
            out=fn(tf.constant(w),sizes,(m,c),cg3).numpy().astype(np.float64).ravel()
            I=np.moveaxis(idx,[m,c],[0,1]); A=[]
            for i in range(cg3[0],sizes[m]-1,2):
                for j in range(cg3[1],sizes[c]-1,2):
                    for a,b,cc,dd in zip(I[i,j].ravel(),I[i+1,j].ravel(),I[i,j+1].ravel(),I[i+1,j+1].ravel()):
                        r=np.zeros(n)
                        if name=='mdom':
                            if cg3[2]==1: r[a]+=.5; r[dd]+=.5; r[b]-=1      # mid - w[i+1][j] <=0
                            else: r[cc]+=1; r[a]-=.5; r[dd]-=.5              # w[i][j+1]-mid<=0
                        else:
                            if cg3[2]==1: r[b]+=.5; r[cc]+=.5; r[dd]-=1      # mid - w[i+1][j+1] <=0
                            else: r[a]+=1; r[b]-=.5; r[cc]-=.5               # w[i][j]-mid<=0
                        A.append(r)
            ref=proj(np.array(A),w.astype(np.float64).ravel())
            worst[name]=max(worst[name],np.abs(out-ref).max()); cnt[name]+=1
print(dict(worst)); print(cnt)
