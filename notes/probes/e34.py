import os, sys, inspect
os.environ['TF_CPP_MIN_LOG_LEVEL']='3'
import numpy as np
import tensorflow as tf
import tf_keras as keras
import tensorflow_lattice as tfl
src=open('/tmp/scratch/e14.py').read()
start=src.index('objs = {'); end=src.index('with keras.utils.custom_object_scope')
from tensorflow_lattice.python import (lattice_layer as ll, pwl_calibration_layer as pl, pwl_calibration_lib as plib, linear_layer as lin, categorical_calibration_layer as cl,
  kronecker_factored_lattice_layer as kl, cdf_layer, rtl_layer, parallel_combination_layer as pc, aggregation_layer, configs, premade)
exec(src[start:end])
for name,mk in objs.items():
    o=mk()
    params=[p for p in inspect.signature(type(o).__init__).parameters if p not in('self','kwargs')]
    missing=[p for p in params if not hasattr(o,p)]
    print(name, 'params',len(params),'not-stored-as-attr:',missing)
