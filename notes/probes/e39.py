import os, sys, itertools, time, collections
os.environ['TF_CPP_MIN_LOG_LEVEL']='3'
import numpy as np, scipy.optimize as so
import tensorflow as tf
import tensorflow_lattice as tfl
from tensorflow_lattice.python import lattice_lib, lattice_layer
exec(open('/tmp/scratch/e8.py').read().split("rs=np.random.RandomState")[0])
def rows_rdom(sizes, rdom):
    n=int(np.prod(sizes)); idx=np.arange(n).reshape(sizes); A=[]
    for dm,wk in rdom:
        I=np.moveaxis(idx,[dm,wk],[0,1])
        D,Wk=sizes[dm],sizes[wk]
        for i in range(D):
            for j in range(Wk):
                for a,b,c,d in zip(I[i,Wk-1].ravel(),I[i,0].ravel(),I[D-1,j].ravel(),I[0,j].ravel()):
                    r=np.zeros(n); r[a]+=1; r[b]-=1; r[c]-=1; r[d]+=1; A.append(r)   # (w[i][W-1]-w[i][0])-(w[D-1][j]-w[0][j])<=0
    return np.array(A)
rs=np.random.RandomState(int(sys.argv[1]) if len(sys.argv)>1 else 0)
res=[]
t0=time.time()
for it in range(int(sys.argv[2]) if len(sys.argv)>2 else 60):
    rank=int(rs.randint(1,4)); sizes=[int(rs.choice([2,3,4])) for _ in range(rank)]
    while np.prod(sizes)>64: sizes[int(rs.randint(rank))]=2
    units=int(rs.choice([1,2]))
    mono=[int(rs.rand()<.6) for _ in range(rank)]; uni=[0]*rank
    for d in range(rank):
        if not mono[d] and sizes[d]>=3 and rs.rand()<.3: uni[d]=int(rs.choice([-1,1]))
    ew=[];tz=[];md=[];rd=[];jm=[]
    mains=[d for d in range(rank) if mono[d]]
    if rank>=2:
        if mains and rs.rand()<.5:
            m=int(rs.choice(mains)); c=int(rs.choice([d for d in range(rank) if d!=m]))
            if rs.rand()<.6: ew.append((m,c,int(rs.choice([-1,1]))))
            if rs.rand()<.6: tz.append((m,c,ew[0][2] if ew else int(rs.choice([-1,1]))))
        if len(mains)>=2 and rs.rand()<.4:
            a,b=rs.choice(mains,2,replace=False); 
            if rs.rand()<.5: md.append((int(a),int(b)))
            else: rd.append((int(a),int(b)))
        if rs.rand()<.3:
            a,b=rs.choice(rank,2,replace=False); jm.append((int(a),int(b)))
    # main and cond disjointness
    mainset={t[0] for t in ew+tz}; condset={t[1] for t in ew+tz}
    if mainset&condset: continue
    try:
        lattice_lib.verify_hyperparameters(lattice_sizes=sizes,monotonicities=mono,unimodalities=uni,edgeworth_trusts=ew,trapezoid_trusts=tz,monotonic_dominances=md,range_dominances=rd,joint_monotonicities=jm)
    except ValueError: continue
    A=rows(sizes,mono,uni,ew,tz,md,(),jm)
    if rd:
        Ar=rows_rdom(sizes,rd); A=np.vstack([A,Ar]) if len(A) else Ar
    if len(A)==0: continue
    n=int(np.prod(sizes)); w0=(rs.normal(size=(n,units))*float(rs.choice([1.,100.]))).astype(np.float32)
    scale=max(1.,np.abs(w0).max())
    env=[]
    for N in (1,10,100,1000):
        p=lattice_lib.project_by_dykstra(tf.constant(w0),sizes,monotonicities=mono,unimodalities=uni,edgeworth_trusts=ew or None,trapezoid_trusts=tz or None,monotonic_dominances=md or None,range_dominances=rd or None,joint_monotonicities=jm or None,num_iterations=N).numpy().astype(np.float64)
        env.append(max(0,(A@p).max())/scale)
    ref=np.stack([w0[:,u]-A.T@so.nnls(A.T,w0[:,u].astype(np.float64),maxiter=50000)[0] for u in range(units)],axis=1)
    dist=np.abs(p-ref).max()/scale
    # strict layer constraint with N=200 (only mono/ew/tz finalize) 
    c=lattice_layer.LatticeConstraints(sizes,monotonicities=mono,unimodalities=uni,edgeworth_trusts=ew or None,trapezoid_trusts=tz or None,monotonic_dominances=md or None,range_dominances=rd or None,joint_monotonicities=jm or None,num_projection_iterations=200)
    q=c(tf.constant(w0)).numpy().astype(np.float64); dist_strict=np.abs(q-ref).max()/scale
    res.append((env,dist,dist_strict,dict(sizes=sizes,units=units,mono=mono,uni=uni,ew=ew,tz=tz,md=md,rd=rd,jm=jm)))
print('n',len(res),'time',time.time()-t0)
print('worst viol@1000', max(r[0][3] for r in res)); print('worst viol@100', max(r[0][2] for r in res))
print('worst dist (no rdom)', max(r[1] for r in res if not r[3]['rd'])); print('worst dist (rdom)', max([r[1] for r in res if r[3]['rd']] or [0]))
print('worst dist strict (no rdom, no mono-cond-trap+ew)', max(r[2] for r in res if not r[3]['rd']))
nonmono=[r for r in res if not (r[0][1]<=2*r[0][0]+1e-6 and r[0][2]<=2*r[0][1]+1e-6 and r[0][3]<=2*r[0][2]+1e-6)]
print('envelope non-monotone',len(nonmono))
for r in sorted(res,key=lambda r:-r[0][3])[:4]: print(r[0],r[1],r[2],r[3])
for r in sorted(res,key=lambda r:-r[2])[:3]: print('strict',r[2],r[3])
