import os, sys, time, collections, itertools
os.environ['TF_CPP_MIN_LOG_LEVEL']='3'
import numpy as np
import tensorflow as tf
import tf_keras as keras
import tensorflow_lattice as tfl
print(tfl.__file__)
seed=int(sys.argv[1]) if len(sys.argv)>1 else 0
N=int(sys.argv[2]) if len(sys.argv)>2 else 30
rs=np.random.RandomState(seed)
cnt=collections.Counter(); bad=[]
KP=[0.,1.,2.,3.]
def rand_model():
    nf=int(rs.randint(2,5)); ls=int(rs.choice([2,2,3]))
    kind=str(rs.choice(['linear','lattice','lattice_kfl','ens','ens_kfl','rtl','rtl_kfl']))
    same_ls = kind in ('lattice_kfl','ens_kfl','rtl','rtl_kfl')
    fcs=[]; desc=[]
    for i in range(nf):
        t=rs.choice(['inc','dec','none','cat','catnone'])
        lsi = ls if same_ls else int(rs.choice([2,3]))
        dv = -1.0 if rs.rand()<.3 else None
        if t in('cat','catnone'):
            nb=3
            fcs.append(tfl.configs.FeatureConfig('f%d'%i,lattice_size=lsi,num_buckets=nb,monotonicity=[(0,1),(0,2)] if t=='cat' else 'none'))
            dv=None
        else:
            fcs.append(tfl.configs.FeatureConfig('f%d'%i,lattice_size=lsi,monotonicity={'inc':'increasing','dec':'decreasing','none':'none'}[t],
               pwl_calibration_input_keypoints=KP,default_value=dv,
               pwl_calibration_always_monotonic=bool(rs.rand()<.2),
               pwl_calibration_clamp_min=bool(t!='none' and rs.rand()<.2),pwl_calibration_clamp_max=bool(t!='none' and rs.rand()<.2),
               pwl_calibration_input_keypoints_type=str(rs.choice(['fixed','fixed','learned_interior']))))
        desc.append((str(t),dv))
    b=rs.choice(['none','both','both','min','max']); omin=omax=None
    if b in('min','both'): omin=float(rs.choice([-1.,0.]))
    if b in('max','both'): omax=(omin if omin is not None else 0.)+float(rs.choice([1.,2.]))
    oc=bool(rs.rand()<.3)
    oi=[omin if omin is not None else -1., omax if omax is not None else 2.]
    common=dict(feature_configs=fcs,output_min=omin,output_max=omax,output_calibration=oc,output_initialization=oi if not oc else list(np.linspace(oi[0],oi[1],4)))
    names=[f.name for f in fcs]
    if kind=='linear':
        m=tfl.premade.CalibratedLinear(tfl.configs.CalibratedLinearConfig(use_bias=bool(omin is None and omax is None and not oc and rs.rand()<.5),**common))
    elif kind in('lattice','lattice_kfl'):
        m=tfl.premade.CalibratedLattice(tfl.configs.CalibratedLatticeConfig(parameterization='kronecker_factored' if 'kfl' in kind else 'all_vertices',interpolation=str(rs.choice(['hypercube','simplex'])),**common))
    else:
        if kind.startswith('rtl'):
            lat='rtl_layer'
        else:
            lat=[list(rs.choice(names,size=min(2,nf),replace=False)) for _ in range(3)]
            for n_ in names:
                if not any(n_ in l for l in lat): lat.append([n_, names[0] if names[0]!=n_ else names[1]])
            lat=[[str(x) for x in l] for l in lat]
        m=tfl.premade.CalibratedLatticeEnsemble(tfl.configs.CalibratedLatticeEnsembleConfig(lattices=lat,num_lattices=3,lattice_rank=2,parameterization='kronecker_factored' if 'kfl' in kind else 'all_vertices',
            separate_calibrators=bool(rs.rand()<.5),use_linear_combination=bool(rs.rand()<.4),random_seed=int(rs.randint(100)),**common))
    return kind,desc,omin,omax,oc,m
def grids(desc):
    axes=[]
    for t,dv in desc:
        if t in('cat','catnone'): axes.append(np.array([0,1,2]))
        else: axes.append(np.array([-1.5,0.,.5,1.,1.7,3.,4.5]))
    return axes
def check(m,desc,omin,omax,tag,info):
    axes=grids(desc)
    G=np.meshgrid(*axes,indexing='ij')
    X=[g.reshape(-1,1).astype(np.int32 if desc[i][0] in('cat','catnone') else np.float32) for i,g in enumerate(G)]
    y=m.predict(X,verbose=0,batch_size=8192).reshape(G[0].shape).astype(np.float64)
    tol=1e-5*max(1,np.abs(y).max())
    nontrivial = (y.max()-y.min())>1e-3
    cnt['check']+=1; cnt['nontrivial']+=int(nontrivial)
    for i,(t,dv) in enumerate(desc):
        D=np.diff(y,axis=i)
        if t=='inc' and (-D).max()>tol: bad.append(('inc',tag,info,(-D).max()))
        if t=='dec' and D.max()>tol: bad.append(('dec',tag,info,D.max()))
        if t=='cat':
            yy=np.moveaxis(y,i,0)
            v=max((yy[0]-yy[1]).max(),(yy[0]-yy[2]).max())
            if v>tol: bad.append(('cat',tag,info,v))
    # missing values
    Xm=[x.copy() for x in X]
    for i,(t,dv) in enumerate(desc):
        if dv is not None: Xm[i][::3]=dv
    ym=m.predict(Xm,verbose=0,batch_size=8192)
    for yy in (y,ym):
        if omin is not None and omin-yy.min()>tol: bad.append(('min',tag,info,yy.min()))
        if omax is not None and yy.max()-omax>tol: bad.append(('max',tag,info,yy.max()))
    if not np.isfinite(ym).all() or not np.isfinite(y).all(): bad.append(('nan',tag,info))
t0=time.time()
for it in range(N):
    try:
        kind,desc,omin,omax,oc,m=rand_model()
    except Exception as e:
        cnt['build-exc '+type(e).__name__+' '+str(e)[:70]]+=1; continue
    info=(kind,tuple(d[0] for d in desc),omin,omax,oc)
    check(m,desc,omin,omax,'init',info)
    opt=str(rs.choice(['sgd','adam','adagrad','legacy_sgd']))
    lr=float(rs.choice([.01,.1,1.,10.]))
    o={'sgd':lambda:keras.optimizers.SGD(lr),'adam':lambda:keras.optimizers.Adam(lr),'adagrad':lambda:keras.optimizers.Adagrad(lr),'legacy_sgd':lambda:keras.optimizers.legacy.SGD(lr)}[opt]()
    m.compile(loss=str(rs.choice(['mse','mae'])),optimizer=o)
    n=64
    Xt=[(rs.randint(0,3,(n,1)).astype(np.int32) if t in('cat','catnone') else rs.uniform(-1,4,(n,1)).astype(np.float32)) for t,dv in desc]
    sign=np.array([{'inc':-1,'dec':1,'none':0,'cat':-1,'catnone':0}[t] for t,_ in desc])
    yt=sum(sign[i]*Xt[i].astype(np.float32) for i in range(len(desc)))*float(rs.choice([.3,1.,5.]))+rs.normal(size=(n,1)).astype(np.float32)
    for ep in range(2):
        m.fit(Xt,yt.astype(np.float32),epochs=1,batch_size=16,verbose=0)
        check(m,desc,omin,omax,'ep%d'%ep,info+(opt,lr))
print('time',time.time()-t0)
for k,v in cnt.items(): print(v,k)
print(len(bad),collections.Counter((b[0],b[1]) for b in bad))
seen=set()
for b in bad:
    key=(b[0],b[1]=='init',b[2][0])
    if key in seen: continue
    seen.add(key); print(b)
