import os
os.environ['TF_CPP_MIN_LOG_LEVEL']='3'
import numpy as np
import tensorflow as tf
import tensorflow_lattice as tfl
from tensorflow_lattice.python import premade_lib
v=np.random.RandomState(0).normal(size=100)
try:
    print(premade_lib.compute_keypoints(v, 5))
except Exception as e:
    print('ERR', type(e), e)
try:
    print(premade_lib.compute_keypoints(v, 5, weights=np.ones(100)))
except Exception as e:
    print('ERR', type(e), e)
print(premade_lib.compute_keypoints(v, 5, keypoints='uniform'))
