import os, sys, itertools, time, collections
os.environ['TF_CPP_MIN_LOG_LEVEL']='3'
import numpy as np
import tensorflow as tf
import tensorflow_lattice as tfl
from tensorflow_lattice.python import pwl_calibration_layer as pl, pwl_calibration_lib as plib
B = plib.BoundConstraintsType
seed = int(sys.argv[1]) if len(sys.argv)>1 else 0
N = int(sys.argv[2]) if len(sys.argv)>2 else 300
rs = np.random.RandomState(seed)
bad=[]; cnt=collections.Counter()
for i in range(N):
    nk = int(rs.choice([2,3,4,5,8]))
    units = int(rs.choice([1,2,3]))
    mono = int(rs.choice([-1,0,1])); conv = int(rs.choice([-1,0,0,1]))
    b = rs.choice(['none','min','max','both'])
    omin=omax=None
    if b in('min','both'): omin=float(rs.choice([-1.,0.,.5]))
    if b in('max','both'): omax=(omin if omin is not None else 0.)+float(rs.choice([0.,.5,1.,3.]))
    cmin = bool(rs.rand()<0.3) and omin is not None
    cmax = bool(rs.rand()<0.3) and omax is not None
    if mono==0: cmin=cmax=False
    kp = np.cumsum(rs.choice([0.01,0.5,1.,1.,7.], size=nk)).astype(np.float32)
    lengths = kp[1:]-kp[:-1]
    iters = int(rs.choice([0,1,2,8,30]))
    _,_,cmn,cmx = plib.convert_all_constraints(omin,omax,cmin,cmax)
    try:
        c = pl.PWLCalibrationConstraints(monotonicity=mono, convexity=conv, lengths=tf.constant(lengths), output_min=omin, output_max=omax,
            output_min_constraints=cmn, output_max_constraints=cmx, num_projection_iterations=iters)
    except ValueError as e:
        cnt['rej']+=1; continue
    for k in range(3):
        kind = rs.choice(['n','big','farbias','wrongsign','tiny'])
        w = rs.normal(size=(nk,units))
        if kind=='big': w*=1e3
        if kind=='farbias': w[0]+= rs.choice([-50,50])
        if kind=='wrongsign': w[1:] = -abs(w[1:])*(mono if mono else 1)
        if kind=='tiny': w*=1e-4
        w=w.astype(np.float32)
        try:
            p = c(tf.constant(w)).numpy().astype(np.float64)
        except Exception as e:
            cnt['exc '+type(e).__name__]+=1; continue
        cnt['eval']+=1
        out = np.cumsum(p,axis=0)
        scale = max(1., np.abs(w).max(), np.abs(out).max())
        tol = 1e-5*scale
        v={}
        if mono: v['mono']=float(np.max(-mono*p[1:]))   # exact
        if omin is not None: v['min']=float(omin-out.min())
        if omax is not None: v['max']=float(out.max()-omax)
        if conv and nk>2:
            slopes = p[1:]/lengths[:,None]
            v['conv']=float(np.max(-conv*np.diff(slopes,axis=0)))/max(1,np.abs(slopes).max())*scale
        if cmin: v['cmin']= float(np.max(np.abs(out.min(axis=0)-omin)))
        if cmax: v['cmax']= float(np.max(np.abs(out.max(axis=0)-omax)))
        for key,val in v.items():
            t = 0.0 if key=='mono' else tol
            if val>t:
                if key=='conv' and mono==0 and b!='none': cnt['doc-conv']+=1; continue
                if key in('cmin','cmax') and conv: cnt['doc-clampconv']+=1; continue
                bad.append((val/scale,key,dict(nk=nk,units=units,mono=mono,conv=conv,omin=omin,omax=omax,cmin=cmin,cmax=cmax,iters=iters,kind=str(kind))))
print(cnt, 'bad',len(bad))
cl=collections.Counter((b[1],b[2]['mono']!=0,b[2]['conv']!=0,b[2]['cmin'],b[2]['cmax']) for b in bad)
for k,v in sorted(cl.items(), key=str): print(v,k)
bad.sort(key=lambda x:-x[0])
for b in bad[:12]: print(b)
print('---- clamp violations by iters')
print(collections.Counter((b[1],b[2]['iters']) for b in bad if b[1] in ('cmin','cmax')))
print('---- min/max by iters')
print(collections.Counter((b[2]['iters']) for b in bad if b[1] in ('min','max')))
for b in bad:
    if b[1] in ('cmin','cmax') : print(b)
