import os, sys, itertools, time, collections
os.environ['TF_CPP_MIN_LOG_LEVEL']='3'
import numpy as np
import tensorflow as tf
import tensorflow_lattice as tfl
print(tfl.__file__)
rs=np.random.RandomState(0)
cnt=collections.Counter(); bad=[]
def verdict(layer,eps):
    try: layer.assert_constraints(eps); return 'accept'
    except tf.errors.InvalidArgumentError: return 'reject'
    except Exception as e: return 'EXC '+type(e).__name__
eps=1e-4
# Categorical
for it in range(60):
    nb=int(rs.choice([3,4,6])); units=int(rs.choice([1,2,3]))
    perm=rs.permutation(nb); pairs=set()
    for _ in range(int(rs.randint(1,nb+2))):
        a,b=sorted(rs.choice(nb,2,replace=False)); pairs.add((int(perm[a]),int(perm[b])))
    pairs=sorted(pairs)
    l=tfl.layers.CategoricalCalibration(nb,units=units,monotonicities=pairs,output_min=-1.,output_max=2.)
    l(tf.zeros([1,1],tf.int32))
    rank=np.argsort(perm)  # position in topological order
    base=np.stack([(rank/(nb-1))*1.0 for _ in range(units)],axis=1).astype(np.float32)  # strictly increasing along order => margin >= 1/(nb-1)*... ok
    l.kernel.assign(base); v=verdict(l,eps); cnt['cat feasible '+v]+=1
    if v!='accept': bad.append(('cat-feasible',pairs,v))
    for (i,j) in pairs:
        u=int(rs.randint(units)); k=base.copy(); k[i,u]=k[j,u]+0.01
        # make sure only this pair (maybe others involving i) violated: fine, any violation must reject
        l.kernel.assign(k); v=verdict(l,eps); cnt['cat inject '+v]+=1
        if v!='reject': bad.append(('cat-inject',pairs,(i,j),u,v))
    k=base.copy(); k[int(rs.randint(nb)),int(rs.randint(units))]=2.01; l.kernel.assign(k); v=verdict(l,eps); cnt['cat max '+v]+=1
    if v!='reject': bad.append(('cat-max',v))
# Linear
for it in range(80):
    n=int(rs.choice([2,3,5])); units=int(rs.choice([1,2,3]))
    mono=[int(rs.choice([-1,0,1,1])) for _ in range(n)]
    inc=[i for i in range(n) if mono[i]==1]
    md=[(inc[0],inc[1])] if len(inc)>=2 and rs.rand()<.5 else None
    norm=int(rs.choice([0,1,2])) or None
    l=tfl.layers.Linear(n,units=units,monotonicities=mono,monotonic_dominances=md,normalization_order=norm)
    l(tf.zeros([1,n]) if units==1 else tf.zeros([1,units,n]))
    w=np.zeros((n,units))
    for i in range(n): w[i]=(mono[i] if mono[i] else rs.choice([-1,1]))*rs.uniform(.2,1.,size=units)
    if md: w[md[0][0]]=w[md[0][1]]+.3
    if norm: w=w/np.linalg.norm(w,ord=norm,axis=0)
    l.kernel.assign(w.astype(np.float32)); v=verdict(l,eps); cnt['lin feasible '+v]+=1
    if v!='accept': bad.append(('lin-feasible',mono,md,norm,units,v))
    for i in range(n):
        if mono[i] and not norm:
            u=int(rs.randint(units)); k=w.copy(); k[i,u]=-mono[i]*0.01; l.kernel.assign(k.astype(np.float32)); v=verdict(l,eps); cnt['lin sign '+v]+=1
            if v!='reject': bad.append(('lin-sign',mono,i,u,v))
    if md and not norm:
        u=int(rs.randint(units)); k=w.copy(); k[md[0][0],u]=k[md[0][1],u]-.01; l.kernel.assign(k.astype(np.float32)); v=verdict(l,eps); cnt['lin dom '+v]+=1
        if v!='reject': bad.append(('lin-dom',v))
    if norm:
        u=int(rs.randint(units)); k=w.copy(); k[:,u]*=1.01; l.kernel.assign(k.astype(np.float32)); v=verdict(l,eps); cnt['lin norm '+v]+=1
        if v!='reject': bad.append(('lin-norm',norm,units,u,v))
# PWL
for it in range(80):
    nk=int(rs.choice([3,4,6])); units=int(rs.choice([1,2,3])); mono=int(rs.choice([-1,1]))
    cm=bool(rs.rand()<.4); cx=bool(rs.rand()<.4)
    l=tfl.layers.PWLCalibration(list(np.arange(nk,dtype=float)),units=units,monotonicity=mono,output_min=0.,output_max=1.,clamp_min=cm,clamp_max=cx,impute_missing=True,missing_input_value=-5.)
    l(tf.zeros([1,1]))
    lo=0. if cm else .1; hi=1. if cx else .9
    outs=np.linspace(lo,hi,nk) if mono==1 else np.linspace(hi,lo,nk)
    k=np.concatenate([[outs[0]],np.diff(outs)])[:,None].repeat(units,1).astype(np.float32)
    l.kernel.assign(k); v=verdict(l,eps); cnt['pwl feasible '+v]+=1
    if v!='accept': bad.append(('pwl-feasible',mono,cm,cx,v))
    for r in range(1,nk):
        u=int(rs.randint(units)); kk=k.copy(); kk[r,u]=-mono*0.01
        l.kernel.assign(kk); v=verdict(l,eps); cnt['pwl mono '+v]+=1
        if v!='reject': bad.append(('pwl-mono',r,u,v))
    u=int(rs.randint(units)); kk=k.copy(); kk[0,u]+= (-.2 if mono==1 else .2); 
    if mono==1: kk[0,u]=-.05
    else: kk[0,u]=1.05
    l.kernel.assign(kk); v=verdict(l,eps); cnt['pwl bound '+v]+=1
    if v!='reject': bad.append(('pwl-bound',mono,cm,cx,u,v))
    if cm or cx:
        # break clamp in one unit: shrink range
        u=int(rs.randint(units)); o2=outs.copy()
        if cm: o2=np.where(o2==o2.min(),o2.min()+.01,o2)
        elif cx: o2=np.where(o2==o2.max(),o2.max()-.01,o2)
        kk=k.copy(); kk[:,u]=np.concatenate([[o2[0]],np.diff(o2)])
        l.kernel.assign(kk); v=verdict(l,eps); cnt['pwl clamp '+v]+=1
        if v!='reject': bad.append(('pwl-clamp',mono,cm,cx,u,v))
    l.kernel.assign(k); l.missing_output.assign(np.full((1,units),.5,np.float32)); mo=l.missing_output.numpy(); mo[0,int(rs.randint(units))]=1.2; l.missing_output.assign(mo); v=verdict(l,eps); cnt['pwl missing '+v]+=1
    if v!='reject': bad.append(('pwl-missing',v))
for k_,v_ in sorted(cnt.items()): print(v_,k_)
print(len(bad),collections.Counter(b[0] for b in bad))
for b in bad[:8]: print(b)
