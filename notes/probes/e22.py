import os, sys, time, collections, itertools
os.environ['TF_CPP_MIN_LOG_LEVEL']='3'
import numpy as np
import tensorflow as tf
import tensorflow_lattice as tfl
print(tfl.__file__)
rs=np.random.RandomState(0)
cnt=collections.Counter(); bad=collections.Counter(); ex={}
def note(kind,key,cfg):
    bad[(kind,key)]+=1; ex.setdefault((kind,key),cfg)
def run_layer(kind, mk, make_input, cfg):
    try:
        l=mk()
    except ValueError: cnt[kind+' rej-construct']+=1; return
    except Exception as e: note(kind,'construct '+type(e).__name__+': '+str(e)[:60],cfg); return
    try:
        x=make_input()
        y=l(x)
    except ValueError: cnt[kind+' rej-build']+=1; return
    except Exception as e: note(kind,'build/call '+type(e).__name__+': '+str(e)[:60],cfg); return
    cnt[kind+' accepted']+=1
    # now must be total & finite
    try:
        for v in l.trainable_variables:
            v.assign(rs.normal(size=v.shape).astype(np.float32)*3)
        for v in l.trainable_variables:
            if v.constraint is not None: v.assign(v.constraint(v))
        if hasattr(l,'finalize_constraints'): l.finalize_constraints()
        y=l(x)
        ys=y if isinstance(y,(list,tuple)) else [y]
        for t in ys:
            if not np.isfinite(t.numpy()).all(): note(kind,'nonfinite output',cfg)
        for v in l.variables:
            if not np.isfinite(v.numpy()).all(): note(kind,'nonfinite weights',cfg)
    except Exception as e:
        note(kind,'accepted-then '+type(e).__name__+': '+str(e)[:70].replace('\n',' '),cfg)
# Lattice cross product
monos=[None,[0,0],[1,0],['increasing','none'],[1,1],[1,-1],[2,0]]
unis=[None,[0,'valley'],[0,-1],['peak',0]]
trusts=[None,(0,1,'positive'),[(0,1,-1)],[(1,0,1)],[(0,0,1)],[(0,1,1),(1,0,1)],[(0,1,2)],[(0,5,1)]]
doms=[None,(0,1),[(0,1),(1,0)],[(0,0)]]
bounds=[(None,None),(0.,1.),(1.,0.),(0.,None),(None,0.),(0.,0.)]
for sizes in ([2,2],[3,3],[1,2],(2,3)):
  for mono,uni,ew,tz,md,(omin,omax),interp in itertools.product(monos,unis,trusts,trusts[:4],doms,bounds,['hypercube','simplex','cubic']):
    if rs.rand()>0.03: continue
    units=int(rs.choice([1,2]))
    cfg=dict(sizes=sizes,units=units,mono=mono,uni=uni,ew=ew,tz=tz,md=md,omin=omin,omax=omax,interp=interp)
    run_layer('Lattice',lambda: tfl.layers.Lattice(sizes,units=units,monotonicities=mono,unimodalities=uni,edgeworth_trusts=ew,trapezoid_trusts=tz,monotonic_dominances=md,output_min=omin,output_max=omax,interpolation=interp,num_projection_iterations=2),
              lambda: tf.constant(rs.uniform(-1,3,size=(4,len(sizes)) if units==1 else (4,units,len(sizes))).astype(np.float32)),cfg)
# PWL
for kp,mono,conv,(omin,omax),cmin,cmax,cyc,imp,miv,mov,kt,units in itertools.product([[0.,1.,2.],[0.,0.,1.],[1.,0.],[0.],[0.,1.]],[0,1,-1,'increasing','bogus',None],[0,1,'concave'],bounds,[False,True],[False,True],[False,True],[False,True],[None,-1.],[None,.5],['fixed','learned_interior','zz'],[1,2]):
    if rs.rand()>0.02: continue
    cfg=dict(kp=kp,mono=mono,conv=conv,omin=omin,omax=omax,cmin=cmin,cmax=cmax,cyc=cyc,imp=imp,miv=miv,mov=mov,kt=kt,units=units)
    run_layer('PWL',lambda: tfl.layers.PWLCalibration(kp,units=units,monotonicity=mono,convexity=conv,output_min=omin,output_max=omax,clamp_min=cmin,clamp_max=cmax,is_cyclic=cyc,impute_missing=imp,missing_input_value=miv,missing_output_value=mov,input_keypoints_type=kt,num_projection_iterations=2),
              lambda: tf.constant(rs.uniform(-1,3,size=(4,1)).astype(np.float32)),cfg)
# Linear
for n,mono,md,rd,imin,imax,norm,bias,units in itertools.product([1,2,3],[None,1,'decreasing',[1,1],[1,0,-1],[1,1,1],['increasing']*2],[None,[(0,1)],[(0,1),(1,0)],[(0,1),(1,2),(2,0)]],[None,[(0,1)],[(1,0)]],[None,[0.,0.],[0.,None],[0.,0.,0.]],[None,[1.,1.],[1.,0.],[1.,2.,3.]],[None,1,2],[True,False],[1,2]):
    if rs.rand()>0.03: continue
    cfg=dict(n=n,mono=mono,md=md,rd=rd,imin=imin,imax=imax,norm=norm,bias=bias,units=units)
    run_layer('Linear',lambda: tfl.layers.Linear(n,units=units,monotonicities=mono,monotonic_dominances=md,range_dominances=rd,input_min=imin,input_max=imax,normalization_order=norm,use_bias=bias),
              lambda: tf.constant(rs.uniform(-1,3,size=(4,n) if units==1 else (4,units,n)).astype(np.float32)),cfg)
# Categorical
for nb,mono,(omin,omax),dv,units,split in itertools.product([1,3],[None,[(0,1)],[(0,1),(1,0)],[(0,1),(1,2),(2,0)],[(0,5)],[(0,1),(1,2),(2,1)],[[0,1],[0,2]],'none'],bounds,[None,-1],[1,2],[False,True]):
    if rs.rand()>0.2: continue
    cfg=dict(nb=nb,mono=mono,omin=omin,omax=omax,dv=dv,units=units,split=split)
    run_layer('Categorical',lambda: tfl.layers.CategoricalCalibration(nb,units=units,monotonicities=mono,output_min=omin,output_max=omax,default_input_value=dv,split_outputs=split),
              lambda: tf.constant(rs.randint(0,nb,size=(4,1)).astype(np.int32)),cfg)
# KFL
for ls,mono,(omin,omax),units,terms,clip in itertools.product([1,2,3],[None,[0,0],[1,0],[1,-1],[1],['increasing','none']],bounds,[0,1,2],[0,1,2],[True,False]):
    if rs.rand()>0.3: continue
    cfg=dict(ls=ls,mono=mono,omin=omin,omax=omax,units=units,terms=terms,clip=clip)
    run_layer('KFL',lambda: tfl.layers.KroneckerFactoredLattice(ls,units=units,num_terms=terms,monotonicities=mono,output_min=omin,output_max=omax,clip_inputs=clip),
              lambda: tf.constant(rs.uniform(-1,3,size=(4,2) if units<=1 else (4,units,2)).astype(np.float32)),cfg)
for k,v in sorted(cnt.items()): print(v,k)
print('---- BAD')
for k,v in sorted(bad.items(),key=str): print(v,k,'\n      e.g.',ex[k])
