import os, sys, time, collections, itertools
os.environ['TF_CPP_MIN_LOG_LEVEL']='3'
import numpy as np
import tensorflow as tf
import tf_keras as keras
import tensorflow_lattice as tfl
from tensorflow_lattice.python import lattice_layer, lattice_lib, pwl_calibration_layer as pl, rtl_layer, premade_lib
rs=np.random.RandomState(int(sys.argv[1]) if len(sys.argv)>1 else 0)
cnt=collections.Counter(); bad=[]
# C10 lattice init
for it in range(150):
    rank=int(rs.randint(1,5)); sizes=[int(rs.choice([2,3,4,5])) for _ in range(rank)]
    units=int(rs.choice([1,2]))
    mono=[0]*rank; uni=[0]*rank
    for d in range(rank):
        r=rs.rand()
        if r<.4: mono[d]=1
        elif r<.6 and sizes[d]>=3: uni[d]=int(rs.choice([-1,1]))
    b=rs.choice(['none','min','max','both']); omin=omax=None
    if b in('min','both'): omin=float(rs.choice([-3.,-1.,0.,.5,2.]))
    if b in('max','both'): omax=(omin if omin is not None else float(rs.choice([-2.,0.,.3])))+float(rs.choice([.5,1.,3.]))
    init=str(rs.choice(['linear_initializer','random_monotonic_initializer']))
    try:
        l=tfl.layers.Lattice(lattice_sizes=sizes,units=units,monotonicities=mono,unimodalities=uni,output_min=omin,output_max=omax,kernel_initializer=init)
        x=tf.zeros([1,rank]) if units==1 else tf.zeros([1,units,rank])
        l(x)
    except ValueError as e:
        cnt['rej '+str(e)[:40]]+=1; continue
    K=l.kernel.numpy().reshape(sizes+[units]).astype(np.float64)
    imin,imax=lattice_lib.default_init_params(omin,omax)
    cnt[init]+=1
    try: l.assert_constraints()
    except Exception as e: bad.append(('assert',init,sizes,mono,uni,omin,omax,str(e)[:80]))
    tol=1e-5*max(1,abs(imin),abs(imax))
    if K.min()<imin-tol or K.max()>imax+tol: bad.append(('range',init,sizes,mono,uni,omin,omax,K.min(),K.max(),imin,imax))
    if init=='linear_initializer':
        if abs(K.min()-imin)>tol or abs(K.max()-imax)>tol: bad.append(('minmax',init,sizes,mono,uni,omin,omax,K.min(),K.max(),imin,imax))
        eff_mono = mono if (sum(mono)+sum(1 for u in uni if u)) else [1]*rank
        for d in range(rank):
            D=np.diff(K,axis=d)
            if eff_mono[d]:
                if D.min()< -tol or (sizes[d]>2 and np.abs(np.diff(D,axis=d)).max()>tol): bad.append(('lin-mono',sizes,mono,uni,d))
            elif uni[d]:
                half=sizes[d]//2
                # valley: decreasing then increasing
                s=uni[d]
                first=np.take(D,range(0,(sizes[d]-1)//2),axis=d); last=np.take(D,range(sizes[d]//2,sizes[d]-1),axis=d)
                if (s*first).max()>tol or (-s*last).max()>tol: bad.append(('lin-uni',sizes,mono,uni,d))
            else:
                if np.abs(D).max()>tol: bad.append(('lin-const',sizes,mono,uni,d))
    else:
        for d in range(rank):
            if np.diff(K,axis=d).min()< 0: bad.append(('rand-mono',sizes,d))
    # constraint leaves init unchanged for mono+bounds only
    if not any(uni):
        p=l.kernel.constraint(l.kernel).numpy()
        if np.abs(p-l.kernel.numpy()).max()>tol: bad.append(('init-changed',init,sizes,mono,omin,omax,np.abs(p-l.kernel.numpy()).max()))
# PWL init
for it in range(150):
    nk=int(rs.choice([2,3,5,9])); kp=np.cumsum(rs.choice([.1,1.,1.,5.],size=nk)).tolist()
    mono=int(rs.choice([-1,0,1])); units=int(rs.choice([1,3]))
    b=rs.choice(['none','min','max','both']); omin=omax=None
    if b in('min','both'): omin=float(rs.choice([-3.,-1.,0.,.5,2.]))
    if b in('max','both'): omax=(omin if omin is not None else float(rs.choice([-2.,0.,.3])))+float(rs.choice([.5,1.,3.]))
    init=str(rs.choice(['equal_heights','equal_slopes']))
    cmin=bool(rs.rand()<.3 and omin is not None and mono); cmax=bool(rs.rand()<.3 and omax is not None and mono)
    try:
        l=tfl.layers.PWLCalibration(input_keypoints=kp,units=units,monotonicity=mono,output_min=omin,output_max=omax,clamp_min=cmin,clamp_max=cmax,kernel_initializer=init)
        l(tf.zeros([1,1]))
    except ValueError as e: cnt['pwlrej '+str(e)[:40]]+=1; continue
    cnt['pwl '+init]+=1
    try: l.assert_constraints()
    except Exception as e: bad.append(('pwl-assert',init,kp,mono,omin,omax,cmin,cmax,str(e)[:100]))
    p=l.kernel.constraint(l.kernel).numpy()
    if np.abs(p-l.kernel.numpy()).max()>1e-5*max(1,np.abs(p).max()): bad.append(('pwl-init-changed',init,mono,omin,omax,cmin,cmax,l.kernel.numpy()[:,0],p[:,0]))
print(cnt); print(len(bad), collections.Counter(b[0] for b in bad))
for b in bad[:12]: print(b)
