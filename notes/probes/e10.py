import os, sys, time
os.environ['TF_CPP_MIN_LOG_LEVEL']='3'
import numpy as np
import tensorflow as tf
import tf_keras as keras
import tensorflow_lattice as tfl
rs=np.random.RandomState(0)
fcs=[tfl.configs.FeatureConfig('a', lattice_size=2, monotonicity='increasing', pwl_calibration_input_keypoints=[0.,1.,2.,3.]),
     tfl.configs.FeatureConfig('b', lattice_size=2, monotonicity='decreasing', pwl_calibration_input_keypoints=[0.,1.,2.,3.]),
     tfl.configs.FeatureConfig('c', lattice_size=2, num_buckets=3, monotonicity=[(0,1),(1,2)]),
     tfl.configs.FeatureConfig('d', lattice_size=2, pwl_calibration_input_keypoints=[0.,1.,2.,3.])]
def mk(kind):
    if kind=='lattice': return tfl.premade.CalibratedLattice(tfl.configs.CalibratedLatticeConfig(feature_configs=fcs, output_min=0., output_max=1., output_initialization=[0.,1.]))
    if kind=='linear': return tfl.premade.CalibratedLinear(tfl.configs.CalibratedLinearConfig(feature_configs=fcs, output_min=0., output_max=1., output_initialization=[0.,1.]))
    if kind=='rtl': return tfl.premade.CalibratedLatticeEnsemble(tfl.configs.CalibratedLatticeEnsembleConfig(feature_configs=fcs, lattices='rtl_layer', num_lattices=3, lattice_rank=2, output_min=0., output_max=1., output_initialization=[0.,1.]))
    if kind=='rtl_kfl': return tfl.premade.CalibratedLatticeEnsemble(tfl.configs.CalibratedLatticeEnsembleConfig(feature_configs=fcs, lattices='rtl_layer', num_lattices=3, lattice_rank=2, parameterization='kronecker_factored', output_min=0., output_max=1., output_initialization=[0.,1.]))
    if kind=='ens': return tfl.premade.CalibratedLatticeEnsemble(tfl.configs.CalibratedLatticeEnsembleConfig(feature_configs=fcs, lattices=[['a','b'],['c','d'],['a','c']], output_min=0., output_max=1., output_initialization=[0.,1.]))
    if kind=='kfl': return tfl.premade.CalibratedLattice(tfl.configs.CalibratedLatticeConfig(feature_configs=fcs, parameterization='kronecker_factored', output_min=0., output_max=1., output_initialization=[0.,1.]))
def grid():
    A,B,C,D=np.meshgrid(np.linspace(-.5,3.5,7),np.linspace(-.5,3.5,7),[0,1,2],np.linspace(0,3,4),indexing='ij')
    return A,B,C,D
for kind in ['lattice','linear','ens','rtl','kfl','rtl_kfl']:
    t0=time.time()
    m=mk(kind)
    A,B,C,D=grid()
    X=[A.reshape(-1,1).astype(np.float32),B.reshape(-1,1).astype(np.float32),C.reshape(-1,1).astype(np.int32),D.reshape(-1,1).astype(np.float32)]
    def check(tag):
        y=m.predict(X,verbose=0,batch_size=4096).reshape(A.shape)
        va=float((-np.diff(y,axis=0)).max()); vb=float((np.diff(y,axis=1)).max()); vc=float((-np.diff(y,axis=2)).max())
        print(kind,tag,'inc_a %.2e dec_b %.2e cat_c %.2e  min %.3f max %.3f'%(va,vb,vc,y.min(),y.max()))
    check('init')
    m.compile(loss='mse', optimizer=keras.optimizers.SGD(5.0))
    n=256
    Xt=[rs.uniform(-1,4,(n,1)).astype(np.float32),rs.uniform(-1,4,(n,1)).astype(np.float32),rs.randint(0,3,(n,1)).astype(np.int32),rs.uniform(-1,4,(n,1)).astype(np.float32)]
    yt=(-Xt[0]+Xt[1]-Xt[2]+rs.normal(size=(n,1))*3).astype(np.float32)*5   # adversarial: against constraints
    m.fit(Xt,yt,epochs=3,batch_size=32,verbose=0)
    check('trained')
    print('  time %.1f'%(time.time()-t0))
