import os, sys, time, collections, itertools
os.environ['TF_CPP_MIN_LOG_LEVEL']='3'
import numpy as np, scipy.optimize as so
import tensorflow as tf
import tensorflow_lattice as tfl
from tensorflow_lattice.python import lattice_lib
exec(open('/tmp/scratch/e8.py').read().split("rs=np.random.RandomState")[0])
rs=np.random.RandomState(0)
cnt=collections.Counter(); bad=[]
def raises(layer,eps):
    try:
        layer.assert_constraints(eps); return False
    except tf.errors.InvalidArgumentError: return True
for it in range(60):
    rank=int(rs.randint(2,4)); sizes=[int(rs.choice([2,3])) for _ in range(rank)]; units=int(rs.choice([1,2]))
    mono=[1]*rank
    ew=[(0,1,int(rs.choice([-1,1])))] if rs.rand()<.5 else []
    tz=[(0,rank-1,int(rs.choice([-1,1])))] if rs.rand()<.5 and rank>2 else []
    md=[(0,1)] if rs.rand()<.3 and not ew else []
    jm=[(0,1)] if rs.rand()<.3 else []
    A=rows(sizes,mono,None,ew,tz,md,(),jm)
    n=int(np.prod(sizes))
    l=tfl.layers.Lattice(sizes,units=units,monotonicities=mono,edgeworth_trusts=ew or None,trapezoid_trusts=tz or None,monotonic_dominances=md or None,joint_monotonicities=jm or None,output_min=-5.,output_max=5.)
    l(tf.zeros([1,rank]) if units==1 else tf.zeros([1,units,rank]))
    # feasible with margin: interior point = sum of -A rows direction? use linear function strongly increasing in dim0 more than dim1
    # find strictly feasible w by LP: maximize t s.t. A w + t <= 0, |w|<=1
    c=np.zeros(n+1); c[-1]=-1
    res=so.linprog(c,A_ub=np.hstack([A,np.ones((len(A),1))]),b_ub=np.zeros(len(A)),bounds=[(-1,1)]*n+[(0,1)])
    w=res.x[:n]; t=res.x[-1]
    if t<1e-3: cnt['no-interior']+=1; continue
    W=np.stack([w]*units,axis=1).astype(np.float32)
    l.kernel.assign(W)
    eps=1e-4
    if raises(l,eps): bad.append(('reject-feasible',sizes,ew,tz,md,jm,t)); continue
    cnt['feasible-ok']+=1
    # inject: for each constraint row, move along +row direction until that row violated by 10*eps... simply add delta*a/|a|^2*(margin+0.01)
    for r in range(len(A)):
        a=A[r]; viol=0.01
        w2=w + a*((-(a@w)+viol)/(a@a))
        u=int(rs.randint(units))
        W2=W.copy(); W2[:,u]=w2
        l.kernel.assign(W2)
        cnt['inject']+=1
        if not raises(l,eps): bad.append(('accept-violated',sizes,units,ew,tz,md,jm,r,u))
    # bounds
    W2=W.copy(); W2[int(rs.randint(n)),int(rs.randint(units))]=5.01; l.kernel.assign(W2); cnt['inject']+=1
    if not raises(l,eps): bad.append(('accept-max',))
print(cnt,len(bad),collections.Counter(b[0] for b in bad))
for b in bad[:5]: print(b)
