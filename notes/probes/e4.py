import os, sys, itertools, time
os.environ['TF_CPP_MIN_LOG_LEVEL']='3'
import numpy as np
import tensorflow as tf
import tensorflow_lattice as tfl
from tensorflow_lattice.python import lattice_lib, lattice_layer

def violations(w, sizes, units, mono, ew, tz, omin, omax):
    """w: (prod, units). returns dict kind -> max violation (positive = violated)."""
    out = {}
    W = w.reshape(list(sizes)+[units]).astype(np.float64)
    for d,m in enumerate(mono):
        if m:
            out[('mono',d)] = float(np.max(-np.diff(W, axis=d)))
    for (m,c,dr) in ew or []:
        # move axes m,c to front
        A = np.moveaxis(W, [m,c],[0,1])
        sl = (A[1:,1:]-A[:-1,1:]) - (A[1:,:-1]-A[:-1,:-1])
        out[('edge',m,c,dr)] = float(np.max(-dr*sl))
    for (m,c,dr) in tz or []:
        A = np.moveaxis(W, [m,c],[0,1])
        lo = A[0]; hi = A[-1]
        l = dr*(lo[:-1]-lo[1:]); h = dr*(hi[1:]-hi[:-1])
        out[('trap',m,c,dr)] = float(max(np.max(-l), np.max(-h)))
    if omin is not None: out[('min',)] = float(omin - W.min())
    if omax is not None: out[('max',)] = float(W.max()-omax)
    return out

def rand_config(rs):
    rank = rs.randint(1,5)
    sizes = [int(rs.choice([2,2,3,4])) for _ in range(rank)]
    while np.prod(sizes)>200: sizes[rs.randint(rank)] = 2
    units = int(rs.choice([1,1,2,3]))
    mono = [int(rs.rand()<0.6) for _ in range(rank)]
    ew=[]; tz=[]
    mains = [d for d in range(rank) if mono[d]]
    if rank>=2 and mains and rs.rand()<0.8:
        # choose main set / cond set disjoint
        perm = list(rs.permutation(rank))
        nm = rs.randint(1, len(mains)+1)
        main_set = list(rs.choice(mains, size=nm, replace=False))
        cond_set = [d for d in range(rank) if d not in main_set]
        if cond_set:
            dirs = {}
            for _ in range(rs.randint(1,4)):
                m = int(rs.choice(main_set)); c = int(rs.choice(cond_set))
                dr = dirs.setdefault((m,c), int(rs.choice([-1,1])))
                kind = rs.choice(['e','t'])
                tup=(m,c,dr)
                if kind=='e' and tup not in ew: ew.append(tup)
                if kind=='t' and tup not in tz: tz.append(tup)
    b = rs.choice(['none','min','max','both'])
    omin = omax = None
    if b in ('min','both'): omin = float(rs.choice([-1.0, 0.0, 0.5]))
    if b in ('max','both'): omax = (omin if omin is not None else 0.0) + float(rs.choice([0.5, 1.0, 3.0]))
    iters = int(rs.choice([0,1,3,10]))
    return dict(sizes=sizes, units=units, mono=mono, ew=ew, tz=tz, omin=omin, omax=omax, iters=iters)

def rand_kernel(rs, n, units):
    kind = rs.choice(['normal','big','tiny','tied','sorted','anti','ints'])
    if kind=='normal': w = rs.normal(size=(n,units))
    elif kind=='big': w = rs.normal(size=(n,units))*1e4
    elif kind=='tiny': w = rs.normal(size=(n,units))*1e-4
    elif kind=='tied': w = rs.randint(0,2,size=(n,units)).astype(float)
    elif kind=='sorted': w = np.sort(rs.normal(size=(n,units)),axis=0)
    elif kind=='anti': w = -np.sort(rs.normal(size=(n,units)),axis=0)
    else: w = rs.randint(-3,4,size=(n,units)).astype(float)
    return kind, w.astype(np.float32)

seed = int(sys.argv[1]) if len(sys.argv)>1 else 0
N = int(sys.argv[2]) if len(sys.argv)>2 else 300
rs = np.random.RandomState(seed)
t0=time.time()
bad = []
import collections
cnt = collections.Counter()
for i in range(N):
    cfg = rand_config(rs)
    try:
        c = lattice_layer.LatticeConstraints(lattice_sizes=cfg['sizes'], monotonicities=cfg['mono'],
            edgeworth_trusts=cfg['ew'] or None, trapezoid_trusts=cfg['tz'] or None,
            output_min=cfg['omin'], output_max=cfg['omax'], num_projection_iterations=cfg['iters'])
    except ValueError as e:
        cnt['rejected']+=1; continue
    n = int(np.prod(cfg['sizes']))
    for k in range(3):
        kind, w = rand_kernel(rs, n, cfg['units'])
        p = c(tf.constant(w)).numpy()
        scale = max(1.0, float(np.abs(w).max()), float(np.abs(p).max()))
        v = violations(p, cfg['sizes'], cfg['units'], cfg['mono'], cfg['ew'], cfg['tz'], cfg['omin'], cfg['omax'])
        cnt['eval']+=1
        tol = 1e-5*scale
        for key,val in v.items():
            if val > tol:
                bad.append((val/scale, key, cfg, kind))
print('time', time.time()-t0, cnt, 'bad', len(bad))
# classify
cl = collections.Counter()
for val,key,cfg,kind in bad:
    multi_trap_shared = len(cfg['tz'])>len(set(c for _,c,_ in cfg['tz'])) and bool(cfg['ew'])
    mono_cond_trap = any(cfg['mono'][c] for _,c,_ in cfg['tz']) and bool(cfg['ew'])
    cl[(key[0], 'multi_trap_shared' if multi_trap_shared else '', 'mono_cond_trap+ew' if mono_cond_trap else '')]+=1
for k,v in cl.items(): print(v,k)
bad.sort(key=lambda x:-x[0])
for b in bad[:8]: print(b)
other = [b for b in bad if not (any(b[2]['mono'][c] for _,c,_ in b[2]['tz']) and b[2]['ew'])]
print('OTHER', len(other))
for b in other[:10]: print(b)
