import os, sys, time, collections, itertools
os.environ['TF_CPP_MIN_LOG_LEVEL']='3'
import numpy as np
import tensorflow as tf
import tf_keras as keras
import tensorflow_lattice as tfl
from tensorflow_lattice.python import (lattice_layer as ll, pwl_calibration_layer as pl, pwl_calibration_lib as plib, linear_layer as lin, categorical_calibration_layer as cl,
  kronecker_factored_lattice_layer as kl, cdf_layer, rtl_layer, parallel_combination_layer as pc, aggregation_layer, configs, premade)
def cfg_eq(a,b):
    try:
        return repr(a)==repr(b)
    except Exception: return False
objs = {
 'LatticeConstraints': lambda: ll.LatticeConstraints([2,3,2], monotonicities=['increasing','none',1], unimodalities=None, edgeworth_trusts=[(0,1,'positive')], trapezoid_trusts=[(2,1,-1)], monotonic_dominances=[(0,2)], range_dominances=[(2,0)], joint_monotonicities=[(0,1)], output_min=0., output_max=1., num_projection_iterations=3, enforce_strict_monotonicity=False),
 'LinearInitializer': lambda: ll.LinearInitializer([2,3],[1,0],-1.,2.,unimodalities=[0,1]),
 'RandomMonotonicInitializer': lambda: ll.RandomMonotonicInitializer([2,3],-1.,2.,unimodalities=[0,1]),
 'TorsionRegularizer': lambda: ll.TorsionRegularizer([2,3],l1=[.1,.2],l2=.3),
 'LaplacianRegularizer(lattice)': lambda: ll.LaplacianRegularizer([2,3],l1=[.1,.2],l2=.3),
 'Lattice': lambda: tfl.layers.Lattice([2,3,3],units=2,monotonicities=[1,0,0],unimodalities=[0,'valley',0],edgeworth_trusts=(0,1,'positive'),trapezoid_trusts=(0,2,-1),output_min=-1,output_max=1,num_projection_iterations=4,monotonic_at_every_step=False,clip_inputs=False,interpolation='simplex',kernel_initializer='random_monotonic_initializer',kernel_regularizer=[('torsion',.1,.2),('laplacian',[.1,.2,.3],0.)]),
 'PWLCalibration': lambda: tfl.layers.PWLCalibration([0.,1.,3.],units=2,output_min=0.,output_max=2.,clamp_min=True,clamp_max=True,monotonicity='decreasing',convexity='convex',kernel_initializer='equal_slopes',kernel_regularizer=[('hessian',.1,.2),('wrinkle',.1,0.),('laplacian',0.,.1)],impute_missing=True,missing_input_value=-1.,missing_output_value=.5,num_projection_iterations=3,split_outputs=True),
 'PWLCalibration-cyc-learned': lambda: tfl.layers.PWLCalibration([0.,1.,3.],is_cyclic=True,input_keypoints_type='learned_interior',impute_missing=True),
 'UniformOutputInitializer': lambda: pl.UniformOutputInitializer(0.,1.,'decreasing',keypoints=[0.,1.,4.]),
 'PWLCalibrationConstraints': lambda: pl.PWLCalibrationConstraints(monotonicity=1,convexity=-1,lengths=[1.,2.],output_min=0.,output_max=1.,output_min_constraints=plib.BoundConstraintsType.CLAMPED,output_max_constraints=plib.BoundConstraintsType.BOUND,num_projection_iterations=5),
 'NaiveBoundsConstraints': lambda: pl.NaiveBoundsConstraints(0.,1.),
 'PWL Laplacian': lambda: pl.LaplacianRegularizer(.1,.2,True),
 'PWL Hessian': lambda: pl.HessianRegularizer(.1,.2,True),
 'PWL Wrinkle': lambda: pl.WrinkleRegularizer(.1,.2,True),
 'Linear': lambda: tfl.layers.Linear(3,units=2,monotonicities=[1,1,-1],monotonic_dominances=[(0,1)],range_dominances=None,input_min=[0.,None,'none'],input_max=[1.,2.,None],use_bias=False,normalization_order=2,kernel_regularizer=keras.regularizers.l2(.1)),
 'Linear-range': lambda: tfl.layers.Linear(2,monotonicities=[1,1],range_dominances=[(0,1)],input_min=[0.,0.],input_max=[1.,2.],bias_regularizer=keras.regularizers.l1(.1)),
 'LinearConstraints': lambda: lin.LinearConstraints([1,1],monotonic_dominances=None,range_dominances=[(0,1)],input_min=[0.,0.],input_max=[1.,2.],normalization_order=1),
 'CategoricalCalibration': lambda: tfl.layers.CategoricalCalibration(4,units=2,output_min=0.,output_max=1.,monotonicities=[(0,1),(1,3)],kernel_initializer='constant',default_input_value=-1,split_outputs=True,kernel_regularizer=keras.regularizers.l2(.1)),
 'CategoricalCalibrationConstraints': lambda: cl.CategoricalCalibrationConstraints(0.,1.,[(0,1)]),
 'KFL': lambda: tfl.layers.KroneckerFactoredLattice(3,units=2,num_terms=3,monotonicities=[1,0],output_min=0.,output_max=2.,clip_inputs=False),
 'KFLRandomMonotonicInitializer': lambda: kl.KFLRandomMonotonicInitializer([1,0],.1,.9,seed=3),
 'ScaleInitializer': lambda: kl.ScaleInitializer(0.,1.),
 'BiasInitializer': lambda: kl.BiasInitializer(0.,1.),
 'ScaleConstraints': lambda: kl.ScaleConstraints(0.,1.),
 'CDF': lambda: tfl.layers.CDF(4,units=2,activation='sigmoid',reduction='geometric_mean',input_scaling_init=2.,input_scaling_type='learned_per_input',input_scaling_monotonicity='none',sparsity_factor=2),
 'RTL': lambda: tfl.layers.RTL(3,2,lattice_size=3,output_min=0.,output_max=1.,init_min=.1,init_max=.9,separate_outputs=True,random_seed=7,num_projection_iterations=3,monotonic_at_every_step=False,clip_inputs=False,interpolation='simplex',avoid_intragroup_interaction=False,kernel_initializer='linear_initializer',kernel_regularizer=[('torsion',.1,.2)],average_outputs=True),
 'ParallelCombination': lambda: tfl.layers.ParallelCombination([tfl.layers.PWLCalibration([0.,1.]),tfl.layers.CategoricalCalibration(3)],single_output=False),
 'FeatureConfig': lambda: configs.FeatureConfig('a',default_value=-1.,lattice_size=3,monotonicity='increasing',unimodality='none',reflects_trust_in=[configs.TrustConfig('b','trapezoid',-1)],dominates=[configs.DominanceConfig('c')],pwl_calibration_always_monotonic=True,pwl_calibration_convexity=1,pwl_calibration_num_keypoints=5,pwl_calibration_input_keypoints=[0.,1.],regularizer_configs=[configs.RegularizerConfig('calib_hessian',.1,.2)]),
 'CalibratedLatticeEnsembleConfig': lambda: configs.CalibratedLatticeEnsembleConfig(feature_configs=[configs.FeatureConfig('a'),configs.FeatureConfig('b')],lattices=[['a','b'],['b','a']],regularizer_configs=[configs.RegularizerConfig('torsion',.1,.2)],output_min=0.,output_max=1.,output_calibration=True,output_initialization=[0.,.5,1.],random_seed=3),
 'CalibratedLatticeConfig': lambda: configs.CalibratedLatticeConfig(feature_configs=[configs.FeatureConfig('a')],parameterization='kronecker_factored',num_terms=3,output_min=0.,output_initialization=[0.,1.]),
 'CalibratedLinearConfig': lambda: configs.CalibratedLinearConfig(feature_configs=[configs.FeatureConfig('a')],use_bias=False,output_max=2.,output_initialization=[0.,1.]),
 'AggregateFunctionConfig': lambda: configs.AggregateFunctionConfig(feature_configs=[configs.FeatureConfig('a')],middle_dimension=2,middle_calibration=True,middle_monotonicity='increasing',output_initialization=[0.,1.]),
}
with keras.utils.custom_object_scope(premade.get_custom_objects()):
  for name,mk in objs.items():
    try:
        o=mk()
    except Exception as e:
        print(name,'CONSTRUCT-EXC',type(e).__name__,str(e)[:120]); continue
    try:
        c=o.get_config()
        o2=type(o).from_config(c)
        c2=o2.get_config()
        # compare ignoring 'name'
        def strip(d):
            if isinstance(d,dict): return {k:strip(v) for k,v in d.items() if k!='name'}
            if isinstance(d,(list,tuple)): return [strip(x) for x in d]
            return d
        same = repr(strip(c))==repr(strip(c2))
        print(name,'OK' if same else 'DIFF')
        if not same:
            for k in c:
                if repr(strip(c[k]))!=repr(strip(c2.get(k))): print('    ',k,':',repr(c[k])[:100],'  !=  ',repr(c2.get(k))[:100])
    except Exception as e:
        print(name,'ROUNDTRIP-EXC',type(e).__name__,str(e)[:160].replace('\n',' '))
