import os, sys, itertools, time, collections
os.environ['TF_CPP_MIN_LOG_LEVEL']='3'
import numpy as np, scipy.optimize as so
import tensorflow as tf
import tensorflow_lattice as tfl
from tensorflow_lattice.python import pwl_calibration_layer as pl, pwl_calibration_lib as plib
def ldp_project(G,h,x0):
    """min ||x-x0|| s.t. G x <= h  via scipy SLSQP fallback to exact active-set NNLS (Lawson-Hanson LDP)."""
    # shift: y=x-x0 ; G y <= h-G x0 ; LDP: min||y|| s.t. -G y >= -(h-Gx0)
    Gm=-G; hm=-(h-G@x0)
    E=np.vstack([Gm.T,hm[None,:]]); f=np.zeros(E.shape[0]); f[-1]=1
    u,_=so.nnls(E,f,maxiter=20000); r=E@u-f
    if np.linalg.norm(r)<1e-12: return None
    y=-r[:-1]/r[-1]
    return x0+y
rs=np.random.RandomState(0)
worst=0; cnt=collections.Counter(); rows=[]
for it in range(300):
    nk=int(rs.choice([2,3,5,8])); mono=int(rs.choice([-1,1]))
    b=rs.choice(['min','max','both']); omin=omax=None
    if b in('min','both'): omin=float(rs.choice([-1.,0.,.5]))
    if b in('max','both'): omax=(omin if omin is not None else 0.)+float(rs.choice([.5,1.,3.]))
    cm=bool(rs.rand()<.3 and omin is not None); cx=bool(rs.rand()<.3 and omax is not None)
    _,_,a,bb=plib.convert_all_constraints(omin,omax,cm,cx)
    w=(rs.normal(size=(nk,1))*float(rs.choice([1.,5.]))).astype(np.float32)
    if rs.rand()<.3: w[0]+=rs.choice([-10,10])
    # constraints on x=(bias,heights): mono*h_i>=0 ; out_k=bias+sum_{i<=k}h_i in [omin,omax]; clamps equality at ends
    n=nk; G=[];h=[]
    for i in range(1,n):
        r=np.zeros(n); r[i]=-mono; G.append(r); h.append(0.)
    C=np.tril(np.ones((n,n)))  # outputs = C x
    lo_idx = 0 if mono==1 else n-1; hi_idx=n-1 if mono==1 else 0
    if omin is not None:
        G.append(-C[lo_idx]); h.append(-omin)
        if cm: G.append(C[lo_idx]); h.append(omin)
    if omax is not None:
        G.append(C[hi_idx]); h.append(omax)
        if cx: G.append(-C[hi_idx]); h.append(-omax)
    G=np.array(G);h=np.array(h)
    ref=ldp_project(G,h,w[:,0].astype(np.float64))
    if ref is None: cnt['ldp-fail']+=1; continue
    for iters in (8,200):
        c=pl.PWLCalibrationConstraints(mono,0,None,omin,omax,a,bb,iters)
        p=c(tf.constant(w)).numpy()[:,0].astype(np.float64)
        sc=max(1,np.abs(w).max()); d=np.abs(p-ref).max()/sc
        rows.append((iters,d,mono,omin,omax,cm,cx,nk))
    cnt['ok']+=1
print(cnt)
for iters in (8,200):
    ds=[r[1] for r in rows if r[0]==iters]; print(iters,'max',max(ds),'p99',np.percentile(ds,99),'median',np.median(ds))
for r in sorted([r for r in rows if r[0]==200],key=lambda r:-r[1])[:5]: print(r)
