import os, sys, itertools, time, collections
os.environ['TF_CPP_MIN_LOG_LEVEL']='3'
import numpy as np
import tensorflow as tf
import tensorflow_lattice as tfl
from tensorflow_lattice.python import lattice_lib

def ref_hypercube(x, kernel, sizes, clip=True):
    # x: (dims,), kernel (prod,) float64
    x = np.asarray(x, np.float64)
    if clip: x = np.clip(x, 0, np.array(sizes)-1.0)
    K = kernel.reshape(sizes)
    # per-dim weights 1 - min(|x - k|, 1)
    ws = [np.maximum(0, 1-np.abs(x[d]-np.arange(sizes[d]))) for d in range(len(sizes))]
    out = K
    for d in range(len(sizes)):
        out = np.tensordot(ws[d], out, axes=(0,0))
    return float(out)

def ref_simplex(x, kernel, sizes, clip=True):
    x = np.asarray(x, np.float64)
    x = np.clip(x, 0, np.array(sizes)-1.0)
    K = kernel.reshape(sizes)
    lo = np.minimum(np.floor(x).astype(int), np.array(sizes)-2)
    r = x - lo
    order = np.argsort(-r, kind='stable')
    idx = lo.copy()
    val = 0.0; prev = 1.0
    rs = r[order]
    for i in range(len(sizes)+1):
        nxt = rs[i] if i < len(sizes) else 0.0
        val += (prev-nxt)*K[tuple(idx)]
        prev = nxt
        if i < len(sizes): idx[order[i]] += 1
    return float(val)

seed=int(sys.argv[1]) if len(sys.argv)>1 else 0
rs=np.random.RandomState(seed)
worst=collections.defaultdict(float); cnt=collections.Counter()
for it in range(150):
    rank=int(rs.choice([1,2,3,4,8])); 
    sizes=[int(rs.choice([2,2,3,4])) for _ in range(rank)]
    if rs.rand()<0.3: sizes=[2]*rank
    if rank==8: sizes=[2]*7+[int(rs.choice([2,3]))]
    units=int(rs.choice([1,2,3]))
    n=int(np.prod(sizes))
    kern=rs.normal(size=(n,units)).astype(np.float32)
    B=6
    shape=(B,rank) if units==1 else (B,units,rank)
    x=rs.uniform(-0.5, np.array(sizes)-0.5, size=shape)
    # special points
    m=rs.rand(*shape)
    x=np.where(m<0.25, np.round(x), x)  # vertices / faces
    x=np.where((m>=0.25)&(m<0.35), np.round(x*2)/2, x)  # ties
    x=x.astype(np.float32)
    aslist = rs.rand()<0.4
    for interp in ['hypercube','simplex']:
        for clip in [True]:
            inp = tf.constant(x)
            if aslist: inp=[inp[...,d:d+1] for d in range(rank)]
            f = lattice_lib.evaluate_with_hypercube_interpolation if interp=='hypercube' else lattice_lib.evaluate_with_simplex_interpolation
            try:
                y=f(inp, tf.constant(kern), units, sizes, clip).numpy()
            except Exception as e:
                cnt[(interp,'EXC',type(e).__name__, aslist, units>1, str(e)[:80])]+=1; continue
            y=y.reshape(B,units)
            for b in range(B):
                for u in range(units):
                    xx = x[b] if units==1 else x[b,u]
                    ref=(ref_hypercube if interp=='hypercube' else ref_simplex)(xx, kern[:,u].astype(np.float64), sizes)
                    err=abs(ref-y[b,u]); worst[interp]=max(worst[interp],err); cnt[interp]+=1
                    if err>1e-4: print('BAD',interp,sizes,units,aslist,xx,ref,y[b,u])
print(dict(worst)); 
for k,v in cnt.items(): print(v,k)
