import os, sys, time, collections, itertools
os.environ['TF_CPP_MIN_LOG_LEVEL']='3'
import numpy as np
import tensorflow as tf
import tensorflow_lattice as tfl
print(tfl.__file__)
rs=np.random.RandomState(int(sys.argv[1]) if len(sys.argv)>1 else 0)
cnt=collections.Counter(); bad=[]
for it in range(200):
    ls=int(rs.choice([2,3,4])); dims=int(rs.randint(1,4)); units=int(rs.choice([1,2])); terms=int(rs.choice([1,2,3]))
    mono=[int(rs.rand()<.5) for _ in range(dims)]
    if rs.rand()<.25: mono=None
    b=rs.choice(['none','min','max','both']); omin=omax=None
    if b in('min','both'): omin=float(rs.choice([-1.,0.,.5]))
    if b in('max','both'): omax=(omin if omin is not None else 0.)+float(rs.choice([.5,1.,3.]))
    clip=bool(rs.rand()<.5)
    l=tfl.layers.KroneckerFactoredLattice(ls,units=units,num_terms=terms,monotonicities=mono,output_min=omin,output_max=omax,clip_inputs=clip)
    g=np.linspace(0,ls-1,2*(ls-1)+1) if not clip else np.linspace(-1,ls,2*(ls+1)+1)
    pts=np.array(list(itertools.product(g,repeat=dims)),dtype=np.float32)
    X=pts if units==1 else np.repeat(pts[:,None,:],units,axis=1)
    l(tf.constant(X))
    for step in range(3):
        k=rs.normal(size=l.kernel.shape).astype(np.float32)*float(rs.choice([.5,3.]))
        s=rs.normal(size=l.scale.shape).astype(np.float32)*float(rs.choice([.5,3.]))
        if rs.rand()<.3: s[rs.rand(*s.shape)<.4]=0
        l.kernel.assign(k); l.scale.assign(s)
        order=rs.choice(['ks','sk','fin'])
        def ck():
            if l.kernel.constraint is not None: l.kernel.assign(l.kernel.constraint(l.kernel))
        def cs():
            if l.scale.constraint is not None: l.scale.assign(l.scale.constraint(l.scale))
        if order=='ks': ck(); cs()
        elif order=='sk': cs(); ck()
        else: l.finalize_constraints()
        y=l(tf.constant(X)).numpy().reshape([len(g)]*dims+[units]).astype(np.float64)
        cnt['eval']+=1
        tol=1e-5*max(1,np.abs(y).max())
        for d,m in enumerate(mono or []):
            if m and (-np.diff(y,axis=d)).max()>tol: bad.append(('mono',ls,dims,units,terms,mono,omin,omax,clip,str(order),(-np.diff(y,axis=d)).max()))
        if omin is not None and omin-y.min()>tol: bad.append(('min',mono,omin,omax,str(order),y.min()))
        if omax is not None and y.max()-omax>tol: bad.append(('max',mono,omin,omax,str(order),y.max()))
print(cnt,len(bad)); c=collections.Counter((b[0], 'nomono' if not any(b[5] or []) else 'mono') if b[0]=='mono' else (b[0],'nomono' if not any(b[1] or []) else 'mono') for b in bad); print(c)
for b in bad[:6]: print(b)
