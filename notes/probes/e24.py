import os, sys, collections
os.environ['TF_CPP_MIN_LOG_LEVEL']='3'
import numpy as np
import tensorflow as tf
import tensorflow_lattice as tfl
from tensorflow_lattice.python import premade_lib
print(tfl.__file__)
rs=np.random.RandomState(int(sys.argv[1]) if len(sys.argv)>1 else 0)
cnt=collections.Counter(); bad=[]
for it in range(3000):
    n=int(rs.choice([1,2,3,5,10,50,200]))
    kind=rs.choice(['normal','ints','few','const','skew','dup'])
    if kind=='normal': v=rs.normal(size=n)
    elif kind=='ints': v=rs.randint(0,5,size=n).astype(float)
    elif kind=='few': v=rs.choice([0.,1.,7.],size=n)
    elif kind=='const': v=np.full(n,3.)
    elif kind=='skew': v=np.exp(rs.normal(size=n)*3)
    else: v=np.round(rs.normal(size=n),1)
    k=int(rs.choice([2,3,5,10,20]))
    mode=str(rs.choice(['quantiles','uniform']))
    cmin=float(rs.choice([-1.,0.,.5])) if rs.rand()<.4 else None
    cmax=(cmin if cmin is not None else 0.)+float(rs.choice([.5,1.,5.])) if rs.rand()<.4 else None
    dv=float(rs.choice([-1.,0.,3.])) if rs.rand()<.3 else None
    w=None
    if rs.rand()<.5:
        w=[rs.uniform(.1,2,size=n), np.ones(n), rs.exponential(size=n)+1e-6, rs.choice([0.,1.],size=n)][int(rs.randint(4))]
    red=str(rs.choice(['mean','sum']))
    vv=v[v!=dv] if dv is not None else v
    cl=vv.copy()
    if cmin is not None: cl=np.append(np.maximum(cl,cmin),cmin)
    if cmax is not None: cl=np.append(np.minimum(cl,cmax),cmax)
    distinct=np.unique(cl)
    try:
        kp=premade_lib.compute_keypoints(v,k,keypoints=mode,clip_min=cmin,clip_max=cmax,default_value=dv,weights=w,weight_reduction=red)
    except Exception as e:
        if len(distinct)==0: cnt['empty-exc']+=1; continue
        bad.append(("EXC",type(e).__name__,str(e)[:80],n,str(kind),k,mode,cmin,cmax,dv,w is not None)); continue
    cnt['ok']+=1
    kp=np.asarray(kp,dtype=float)
    info=(n,str(kind),k,mode,cmin,cmax,dv,w is not None,len(distinct))
    if len(distinct)>=2 and not np.all(np.diff(kp)>0): bad.append(('not-increasing',info,kp))
    if len(distinct)>=1 and (kp.min()<distinct[0]-1e-12 or kp.max()>distinct[-1]+1e-12): bad.append(('out-of-range',info,kp))
    if len(distinct)>=2 and (abs(kp[0]-distinct[0])>1e-12 or abs(kp[-1]-distinct[-1])>1e-12): bad.append(('ends',info,kp[[0,-1]],distinct[[0,-1]]))
    if mode=='quantiles':
        exp=k if len(distinct)>=k else len(distinct)
        if len(kp)!=exp: bad.append(('count',info,len(kp),exp))
        if not set(np.round(kp,12)).issubset(set(np.round(distinct,12))): bad.append(('not-sample-values',info))
    else:
        if len(kp)!=k: bad.append(('count-u',info,len(kp)))
    if len(distinct)>=2 and len(kp)>=2 and np.all(np.diff(kp)>0):
        try: tfl.layers.PWLCalibration(input_keypoints=kp)
        except Exception as e: bad.append(('pwl-reject',info,str(e)[:60]))
print(cnt,len(bad),collections.Counter(b[0] for b in bad))
seen=set()
for b in bad:
    if b[0] in seen: continue
    seen.add(b[0]); print(b)
