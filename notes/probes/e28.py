import os, sys, itertools, time, collections
os.environ['TF_CPP_MIN_LOG_LEVEL']='3'
import numpy as np
import tensorflow as tf
import tensorflow_lattice as tfl
from tensorflow_lattice.python import lattice_lib, lattice_layer
exec(open('/tmp/scratch/e4.py').read().split("seed = int(sys.argv[1])")[0])
def row_violations(p, sizes, units, mono, tz, ew, tol_scale):
    """returns list of (dim, maincoord info) for violated mono rows"""
    W=p.reshape(list(sizes)+[units]).astype(np.float64)
    out=[]
    for d,m in enumerate(mono):
        if not m: continue
        D=-np.diff(W,axis=d)   # >0 violated
        idx=np.argwhere(D>tol_scale)
        for ix in idx: out.append((d,tuple(ix)))
    return out
rs=np.random.RandomState(int(sys.argv[1]) if len(sys.argv)>1 else 0)
N=int(sys.argv[2]) if len(sys.argv)>2 else 600
confined=0; notconf=[]; other=collections.Counter()
for i in range(N):
    cfg=rand_config(rs)
    if not (cfg['tz'] and cfg['ew'] and any(cfg['mono'][c] for _,c,_ in cfg['tz'])): continue
    c=lattice_layer.LatticeConstraints(lattice_sizes=cfg['sizes'],monotonicities=cfg['mono'],edgeworth_trusts=cfg['ew'],trapezoid_trusts=cfg['tz'],output_min=cfg['omin'],output_max=cfg['omax'],num_projection_iterations=cfg['iters'])
    n=int(np.prod(cfg['sizes']))
    for k in range(3):
        kind,w=rand_kernel(rs,n,cfg['units'])
        p=c(tf.constant(w)).numpy()
        scale=max(1.,np.abs(w).max(),np.abs(p).max())
        v=violations(p,cfg['sizes'],cfg['units'],cfg['mono'],cfg['ew'],cfg['tz'],cfg['omin'],cfg['omax'])
        for key,val in v.items():
            if val>1e-5*scale and key[0]!='mono': other[key[0]]+=1
        rv=row_violations(p,cfg['sizes'],cfg['units'],cfg['mono'],cfg['tz'],cfg['ew'],1e-5*scale)
        for d,ix in rv:
            ok=False
            for (m,cc,dr) in cfg['tz']:
                if cc==d and cfg['mono'][cc] and ix[m] in (0,cfg['sizes'][m]-1): ok=True
            if ok: confined+=1
            else: notconf.append((d,ix,cfg))
print('confined',confined,'not confined',len(notconf),'other kinds',other)
for x in notconf[:6]: print(x)
