import os
os.environ['TF_CPP_MIN_LOG_LEVEL']='3'
import numpy as np
import tensorflow as tf
import tensorflow_lattice as tfl
from tensorflow_lattice.python import lattice_lib, lattice_layer, pwl_calibration_layer as pl, pwl_calibration_lib as plib, linear_layer, categorical_calibration_layer as cl, kronecker_factored_lattice_layer as kl, conditional_pwl_calibration as cp

def t(name, f):
    try:
        r=f(); print(name, '->', r)
    except Exception as e:
        print(name, 'EXC', type(e).__name__, str(e)[:300].replace('\n',' '))

def c07():
    l = tfl.layers.KroneckerFactoredLattice(lattice_sizes=2, output_min=0., output_max=1., num_terms=2)
    x = tf.constant([[0.,0.],[1.,1.],[0.,1.],[1.,0.]])
    l(x)
    rs=np.random.RandomState(0)
    l.kernel.assign(rs.normal(size=l.kernel.shape)*5)
    l.kernel.assign(l.kernel.constraint(l.kernel))
    l.scale.assign(l.scale.constraint(l.scale))
    o1 = l(x).numpy().ravel()
    l.finalize_constraints()
    return o1, l(x).numpy().ravel()
t('C07 KFL bounds no mono', c07)

def viol(w, sizes, mono, ew, tz, omin, omax):
    w = w.reshape(sizes)
    v = {}
    for d,m in enumerate(mono):
        if m:
            v[('mono',d)] = float(np.max(-np.diff(w, axis=d)))
    return v

def c01():
    # trapezoid (main 0, cond 1, dir +1) with monotone cond dim 1, plus an unrelated edgeworth (main 0, cond 2)
    sizes=[2,2,2]
    c = lattice_layer.LatticeConstraints(lattice_sizes=sizes, monotonicities=[1,1,0],
        edgeworth_trusts=[(0,2,1)], trapezoid_trusts=[(0,1,1)], num_projection_iterations=10)
    rs=np.random.RandomState(1)
    worst=0
    for i in range(200):
        w = rs.normal(size=(8,1)).astype(np.float32)*3
        p = c(tf.constant(w)).numpy()
        v = viol(p, sizes,[1,1,0],None,None,None,None)
        m = max(v.values())
        if m>worst: worst=m; ww=(w.ravel(),p.ravel(),v)
    return worst, ww
t('C01 trapz mono cond + edgeworth', c01)
