import os, sys, itertools, time, collections
os.environ['TF_CPP_MIN_LOG_LEVEL']='3'
import numpy as np
import tensorflow as tf
import tf_keras as keras
import tensorflow_lattice as tfl
from tensorflow_lattice.python import conditional_pwl_calibration as cpc, conditional_cdf
print(tfl.__file__)
rs=np.random.RandomState(0)
cnt=collections.Counter(); bad=[]
# C15 + C14(pwl fn vs layer)
for it in range(300):
    nk=int(rs.choice([2,3,4,6])); units=int(rs.choice([1,2,3])); mono=str(rs.choice(['none','increasing']))
    cm=bool(mono=='increasing' and rs.rand()<.4); cx=bool(mono=='increasing' and rs.rand()<.4); cyc=bool(mono=='none' and rs.rand()<.3)
    miv=-9. if rs.rand()<.3 else None; mov=.25 if (miv is not None and rs.rand()<.5) else None
    imin,imax=float(rs.choice([0.,-2.])),float(rs.choice([1.,5.])); omin=float(rs.choice([0.,-1.])); omax=omin+float(rs.choice([1.,3.]))
    mag=float(rs.choice([1.,1.,30.,1e4]))
    B=7
    psz=nk-cm-cx-cyc+(miv is not None)-(mov is not None)
    if psz<=0: cnt['skip']+=1; continue
    bshape=lambda n: (int(rs.choice([1,B])), units, n)
    kin=None if nk==2 else tf.constant((rs.normal(size=bshape(nk-2))*min(mag,30.)).astype(np.float32))
    kout=tf.constant((rs.normal(size=bshape(psz))*mag).astype(np.float32))
    x=rs.uniform(imin-1,imax+1,size=(B,1)).astype(np.float32); x[0]=imin; x[-1]=imax; x=np.sort(x,axis=0); i_lo=int(np.argmax(x[:,0]==np.float32(imin))); i_hi=int(np.argmax(x[:,0]==np.float32(imax)))
    if miv is not None:
        j=[k for k in range(B) if k not in (i_lo,i_hi)][2]; x[j]=miv
    else: j=None
    wide=bool(units>1 and rs.rand()<.4)
    xin=np.repeat(x,units,axis=1) if wide else x
    try:
        y,dl,ko=cpc.pwl_calibration_fn(tf.constant(xin),kin,kout,keypoint_input_min=imin,keypoint_input_max=imax,keypoint_output_min=omin,keypoint_output_max=omax,units=units,monotonicity=mono,clamp_min=cm,clamp_max=cx,is_cyclic=cyc,missing_input_value=miv,missing_output_value=mov,return_derived_parameters=True)
    except Exception as e:
        bad.append(('EXC',type(e).__name__,str(e)[:100].replace('\n',' '),nk,units,mono,cm,cx,cyc,miv,mov)); continue
    y=y.numpy(); cnt['eval']+=1
    tol=1e-5*max(1,abs(omin),abs(omax))
    if np.isnan(y).any(): cnt['nan']+=1; continue
    ychk=np.delete(y,j,axis=0) if j is not None else y
    if ychk.min()<omin-tol or ychk.max()>omax+tol: bad.append(('range',y.min(),y.max(),omin,omax,mono,cm,cx,cyc,mag))
    # monotone along batch only valid when params shared across batch
    if mono=='increasing' and kout.shape[0]==1 and (kin is None or kin.shape[0]==1):
        yy=ychk
        if (np.diff(yy,axis=0)<-tol).any(): bad.append(('mono',mag,nk,units))
    if kout.shape[0]==1 and (kin is None or kin.shape[0]==1):
        if cm and abs(y[i_lo]-omin).max()>tol: bad.append(('clamp_min',y[0],omin))
        if cx and abs(y[i_hi]-omax).max()>tol: bad.append(('clamp_max',y[i_hi],omax,mag,dl.numpy()[0]))
        if cyc and np.abs(y[i_lo]-y[i_hi]).max()>tol: bad.append(('cyclic',y[i_lo],y[i_hi],mag,dl.numpy()[0]))
    if miv is not None:
        if mov is not None and np.abs(y[j]-mov).max()>1e-6: bad.append(('missing',y[j],mov))
    # layer equivalence when params shared across batch (per-unit ok)
    if kout.shape[0]==1 and (kin is None or kin.shape[0]==1) and mag<=30:
        dl=dl.numpy(); ko=ko.numpy()
        for u in range(units):
            kps=imin+np.concatenate([[0],np.cumsum(dl[0,u])]); 
            if np.any(np.diff(kps)<=0): cnt['degenerate-kp']+=1; continue
            l=tfl.layers.PWLCalibration(kps.tolist(),impute_missing=miv is not None,missing_input_value=miv,missing_output_value=None)
            xu=tf.constant(xin[:,u:u+1] if wide else x)
            l(xu); l.kernel.assign(ko[0,u][:,None])
            yl=l(xu).numpy()[:,0]
            m=np.ones(B,bool)
            if miv is not None: m[j]=False
            e=np.abs(yl[m]-y[m,u]).max()
            cnt['layer-eq']+=1
            if e>1e-4*max(1,abs(omax)): bad.append(('layer-neq',e,nk,mono,cm,cx,cyc))
print(cnt,len(bad),collections.Counter(b[0] for b in bad))
seen=set()
for b in bad:
    if b[0] in seen: continue
    seen.add(b[0]); print(b)
