import os, sys
os.environ['TF_CPP_MIN_LOG_LEVEL']='3'
import numpy as np
import tensorflow as tf
import tensorflow_lattice as tfl
def t(name, f):
    try:
        r=f(); print(name, '->', r)
    except Exception as e:
        print(name, 'EXC', type(e).__name__, str(e)[:200].replace('\n',' '))
def a():
    l=tfl.layers.Linear(num_input_dims=3, units=2, monotonicities=[1,1,1], normalization_order=1)
    l(tf.zeros([1,2,3]))
    l.kernel.assign([[.2,.5],[.3,.25],[.5,.25]])
    l.assert_constraints(); return 'ok feasible'
t('linear norm units2 feasible', a)
def b():
    l=tfl.layers.Linear(num_input_dims=3, units=2, monotonicities=[1,1,1], normalization_order=1)
    l(tf.zeros([1,2,3]))
    l.kernel.assign([[.2,.5],[.3,.25],[.5,.75]])
    l.assert_constraints(); return 'accepted violated'
t('linear norm units2 one unit violated', b)
def c():
    l=tfl.layers.Linear(num_input_dims=3, units=1, monotonicities=[1,1,1], normalization_order=1)
    l(tf.zeros([1,3]))
    l.kernel.assign([[.2],[.3],[.9]])
    l.assert_constraints(); return 'accepted violated'
t('linear norm units1 violated', c)
def d():
    l=tfl.layers.PWLCalibration(input_keypoints=[0.,1.,2.], units=2, monotonicity=1, output_min=0., output_max=1.)
    l(tf.zeros([1,1]))
    l.kernel.assign([[0.,0.],[.5,.5],[.5,-.2]])
    l.assert_constraints(); return 'accepted violated'
t('pwl units2 mono violated in unit 1', d)
def e():
    l=tfl.layers.KroneckerFactoredLattice(lattice_sizes=3, units=2, monotonicities=[1,0], output_min=0., output_max=1.)
    l(tf.zeros([1,2,2]))
    l.assert_constraints(); return 'ok init'
t('kfl init', e)
def f():
    l=tfl.layers.RTL(num_lattices=3, lattice_rank=2, output_min=0, output_max=1)
    l({'unconstrained': tf.zeros([1,2]), 'increasing': tf.zeros([1,2])})
    l.assert_constraints(); return 'ok init', l._rtl_structure
t('rtl init', f)
def g():
    l=tfl.layers.Lattice(lattice_sizes=[3,3], joint_unimodalities=([0,1],'valley'))
    l(tf.zeros([1,2]))
    l.assert_constraints(); return 'ok', l.kernel.numpy().ravel()
t('lattice joint unimodal init', g)
