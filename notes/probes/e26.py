import os, sys, collections, tempfile
os.environ['TF_CPP_MIN_LOG_LEVEL']='3'
import numpy as np
import tensorflow as tf
import tf_keras as keras
import tensorflow_lattice as tfl
rs=np.random.RandomState(0)
worst=collections.defaultdict(float); cnt=collections.Counter()
# C05 PWL
for it in range(200):
    nk=int(rs.choice([2,3,5,8])); kp=np.cumsum(rs.choice([.01,.5,1.,4.],size=nk)).astype(np.float32)-2
    units=int(rs.choice([1,2,3])); cyc=bool(rs.rand()<.3 and nk>2)
    imp=rs.choice(['no','value','tensor']); mov=float(rs.normal()) if rs.rand()<.5 and imp!='no' else None
    split=bool(rs.rand()<.3)
    l=tfl.layers.PWLCalibration(kp.tolist(),units=units,is_cyclic=cyc,impute_missing=imp!='no',missing_input_value=-7. if imp=='value' else None,missing_output_value=mov,split_outputs=split)
    B=9; wide=bool(units>1 and rs.rand()<.5)
    x=rs.uniform(kp[0]-2,kp[-1]+2,size=(B,units if wide else 1)).astype(np.float32)
    x[0,:]=kp[0]; x[1,:]=kp[-1]; x[2,:]=kp[nk//2]
    miss=np.zeros_like(x)
    if imp=='value': x[3,:]=-7.
    if imp=='tensor': miss[3,:]=1.
    inp=tf.constant(x) if imp!='tensor' else [tf.constant(x),tf.constant(miss)]
    y=l(inp)
    k=rs.normal(size=l.kernel.shape).astype(np.float32); l.kernel.assign(k)
    if imp!='no' and mov is None: l.missing_output.assign(rs.normal(size=(1,units)).astype(np.float32))
    y=l(inp); 
    if split and units>1: y=tf.concat(y,axis=1)
    y=y.numpy()
    outs=np.cumsum(k.astype(np.float64),axis=0)
    if cyc: outs=np.concatenate([outs,outs[:1]],axis=0)
    for u in range(units):
        xu=x[:,u if wide else 0].astype(np.float64)
        ref=np.interp(xu,kp.astype(np.float64),outs[:,u])
        if imp!='no':
            mo=mov if mov is not None else float(l.missing_output.numpy()[0,u])
            ismiss=(xu==-7.) if imp=='value' else (miss[:,u if wide else 0]==1)
            ref=np.where(ismiss,mo,ref)
        e=np.abs(ref-y[:,u]).max()/max(1,np.abs(outs).max()); worst['pwl']=max(worst['pwl'],e); cnt['pwl']+=1
        if e>1e-4: print('PWL BAD',nk,units,cyc,imp,wide,e)
    ko=l.keypoints_outputs().numpy(); ki=l.keypoints_inputs().numpy()
    worst['kp_out']=max(worst['kp_out'],np.abs(ko-outs).max()/max(1,np.abs(outs).max())); worst['kp_in']=max(worst['kp_in'],np.abs(ki-kp[:,None]).max())
# C20
for it in range(200):
    n=int(rs.randint(1,6)); units=int(rs.choice([1,2,3])); bias=bool(rs.rand()<.6)
    imin=[float(rs.normal()) if rs.rand()<.5 else None for _ in range(n)] if rs.rand()<.7 else None
    imax=[((imin[i] if imin and imin[i] is not None else float(rs.normal()))+float(rs.choice([0.,.5,2.]))) if rs.rand()<.5 else None for i in range(n)] if rs.rand()<.7 else None
    l=tfl.layers.Linear(n,units=units,use_bias=bias,input_min=imin,input_max=imax)
    x=(rs.normal(size=(7,n) if units==1 else (7,units,n))*3).astype(np.float32)
    l(tf.constant(x)); K=rs.normal(size=(n,units)).astype(np.float32); l.kernel.assign(K)
    if bias: b=rs.normal(size=l.bias.shape).astype(np.float32); l.bias.assign(b)
    y=l(tf.constant(x)).numpy()
    lo=np.array([v if v is not None else -np.inf for v in (imin or [None]*n)]); hi=np.array([v if v is not None else np.inf for v in (imax or [None]*n)])
    xc=np.clip(x.astype(np.float64),lo,hi) if (imin and any(v is not None for v in imin)) or (imax and any(v is not None for v in imax)) else x.astype(np.float64)
    ref=(xc@K.astype(np.float64)) if units==1 else np.einsum('bun,nu->bu',xc,K.astype(np.float64))
    if bias: ref=ref+np.asarray(b,dtype=np.float64)
    e=np.abs(ref-y).max()/max(1,np.abs(ref).max()); worst['linear']=max(worst['linear'],e); cnt['linear']+=1
    if e>1e-4: print('LIN BAD',n,units,bias,imin,imax,e)
print(dict(worst),cnt)
