import os, sys, itertools, time, collections
os.environ['TF_CPP_MIN_LOG_LEVEL']='3'
import numpy as np
import tensorflow as tf
import tf_keras as keras
import tensorflow_lattice as tfl
from tensorflow_lattice.python import lattice_lib
rs=np.random.RandomState(0)
W=collections.defaultdict(float)
# ParallelCombination
cal=[tfl.layers.PWLCalibration([0.,1.,2.]),tfl.layers.CategoricalCalibration(3),tfl.layers.PWLCalibration([0.,2.,5.],monotonicity=1)]
pcl=tfl.layers.ParallelCombination(cal); x=np.stack([rs.uniform(0,2,6),rs.randint(0,3,6),rs.uniform(0,5,6)],axis=1).astype(np.float32)
y=pcl(tf.constant(x)).numpy()
for l in cal: 
    for v in l.variables: v.assign(rs.normal(size=v.shape).astype(np.float32))
y=pcl(tf.constant(x)).numpy(); ref=np.concatenate([cal[i](tf.constant(x[:,i:i+1])).numpy() for i in range(3)],axis=1)
W['parallel']=np.abs(y-ref).max()
yl=tfl.layers.ParallelCombination(cal,single_output=False)([tf.constant(x[:,i:i+1]) for i in range(3)]); W['parallel-list']=max(np.abs(yl[i].numpy()-ref[:,i:i+1]).max() for i in range(3))
# Aggregation
inp=[keras.Input((1,)),keras.Input((1,))]
out=tfl.layers.Lattice([2,2])(keras.layers.Concatenate()(inp)); sub=keras.Model(inp,out)
sub.layers[-1].kernel.assign(rs.normal(size=(4,1)).astype(np.float32))
agg=tfl.layers.Aggregation(sub)
rows=[[.1,.9,.5],[.3],[.2,.8]]; rows2=[[.4,.6,.0],[1.],[.5,.5]]
r1=tf.ragged.constant(rows,dtype=tf.float32); r2=tf.ragged.constant(rows2,dtype=tf.float32)
ya=agg([r1,r2]).numpy().ravel()
ref=[np.mean([sub([tf.constant([[a]]),tf.constant([[b]])]).numpy()[0,0] for a,b in zip(ra,rb)]) for ra,rb in zip(rows,rows2)]
W['aggregation']=np.abs(ya-np.array(ref)).max()
# RTL gather
for it in range(10):
    nu=int(rs.randint(1,4)); ni=int(rs.randint(1,4)); rank=2; nl=int(rs.randint(2,5))
    if nl*rank<nu+ni: continue
    l=tfl.layers.RTL(nl,rank,random_seed=int(rs.randint(100)),separate_outputs=False)
    xin={'unconstrained':tf.constant(rs.uniform(0,1,(5,nu)).astype(np.float32)),'increasing':tf.constant(rs.uniform(0,1,(5,ni)).astype(np.float32))}
    y=l(xin).numpy()
    flat=np.concatenate([xin['increasing'].numpy(),xin['unconstrained'].numpy()],axis=1)
    outs=[[],[]]
    for monos,lats in l._rtl_structure:
        lay=l._lattice_layers[str(monos)]; K=lay.kernel.numpy()
        for ui,idxs in enumerate(lats):
            o=lattice_lib.evaluate_with_hypercube_interpolation(tf.constant(flat[:,list(idxs)]),tf.constant(K[:,ui:ui+1]),1,[2]*rank,True).numpy()
            outs[max(monos)].append(o)
    ref=np.concatenate(outs[0]+outs[1],axis=1)
    W['rtl']=max(W['rtl'],np.abs(y-ref).max())
# C19 layer grads: Lattice d out/d kernel = interpolation weights
for it in range(30):
    rank=int(rs.randint(1,4)); sizes=[int(rs.choice([2,3])) for _ in range(rank)]; n=int(np.prod(sizes))
    for interp in ('hypercube','simplex'):
        l=tfl.layers.Lattice(sizes,interpolation=interp); x=tf.constant(rs.uniform(0,np.array(sizes)-1,(1,rank)).astype(np.float32)); l(x)
        gs=[]
        for rep in range(2):
            l.kernel.assign(rs.normal(size=(n,1)).astype(np.float32))
            with tf.GradientTape() as g: o=l(x)
            gs.append(g.gradient(o,l.kernel).numpy().ravel())
        W['grad-indep-of-kernel']=max(W['grad-indep-of-kernel'],np.abs(gs[0]-gs[1]).max()); W['grad-sum1']=max(W['grad-sum1'],abs(gs[0].sum()-1)); W['grad-neg']=max(W['grad-neg'],-gs[0].min())
        W['grad-reproduces']=max(W['grad-reproduces'],abs(float(gs[1]@l.kernel.numpy().ravel())-float(l(x).numpy().ravel()[0])))
# C09 batch independence
for mk,xs in [(lambda: tfl.layers.Lattice([2,3,2],units=2),lambda: rs.uniform(0,1,(6,2,3)).astype(np.float32)),
              (lambda: tfl.layers.PWLCalibration([0.,1.,2.],units=3),lambda: rs.uniform(-1,3,(6,1)).astype(np.float32)),
              (lambda: tfl.layers.Linear(3,units=2),lambda: rs.normal(size=(6,2,3)).astype(np.float32)),
              (lambda: tfl.layers.CDF(4,units=2,reduction='geometric_mean'),lambda: rs.normal(size=(6,3)).astype(np.float32)),
              (lambda: tfl.layers.KroneckerFactoredLattice(3,units=2),lambda: rs.uniform(0,2,(6,2,2)).astype(np.float32))]:
    l=mk(); x=xs(); y=l(tf.constant(x)).numpy()
    perm=rs.permutation(6)
    W['batch-perm']=max(W['batch-perm'],np.abs(l(tf.constant(x[perm])).numpy()-y[perm]).max())
    W['batch-single']=max(W['batch-single'],max(np.abs(l(tf.constant(x[i:i+1])).numpy()-y[i:i+1]).max() for i in range(6)))
print(dict(W))
