import os, sys, time, collections, itertools
os.environ['TF_CPP_MIN_LOG_LEVEL']='3'
import numpy as np
import tensorflow as tf
import tf_keras as keras
import tensorflow_lattice as tfl
from tensorflow_lattice.python import kronecker_factored_lattice_lib as kfl, lattice_lib, lattice_layer as ll, pwl_calibration_layer as pl
rs=np.random.RandomState(0)
# C13 lattice regs
w1=w2=0
for it in range(100):
    rank=int(rs.randint(1,5)); sizes=[int(rs.choice([2,3,4])) for _ in range(rank)]; units=int(rs.choice([1,2,3]))
    K=rs.normal(size=(int(np.prod(sizes)),units)).astype(np.float32)
    per=rs.rand()<.6
    l1=[float(rs.choice([0,.1,.5])) for _ in range(rank)] if per else float(rs.choice([0,.3]))
    l2=[float(rs.choice([0,.2,.7])) for _ in range(rank)] if per else float(rs.choice([0,.4]))
    W=K.reshape(sizes+[units]).astype(np.float64)
    def amt(a,d): return a[d] if isinstance(a,list) else a
    lap=0
    for d in range(rank):
        D=np.diff(W,axis=d); lap+=amt(l1,d)*np.abs(D).sum()+amt(l2,d)*(D**2).sum()
    got=float(ll.LaplacianRegularizer(sizes,l1,l2)(tf.constant(K)))
    w1=max(w1,abs(got-lap)/max(1,abs(lap)))
    tor=0
    for i in range(rank):
        for j in range(i+1,rank):
            T=np.diff(np.diff(W,axis=i),axis=j)
            a1=(l1[i]*l1[j]) if isinstance(l1,list) else l1
            a2=(l2[i]*l2[j]) if isinstance(l2,list) else l2
            tor+=a1*np.abs(T).sum()+a2*(T**2).sum()
    got=float(ll.TorsionRegularizer(sizes,l1,l2)(tf.constant(K)))
    w2=max(w2,abs(got-tor)/max(1,abs(tor)))
print('laplacian',w1,'torsion',w2)
# PWL regs
w=0
for it in range(100):
    n=int(rs.randint(2,8)); units=int(rs.choice([1,2])); cyc=bool(rs.rand()<.5)
    k=rs.normal(size=(n,units)).astype(np.float32)
    out=np.cumsum(k.astype(np.float64),axis=0)
    if cyc: out=np.concatenate([out,out[:1]],axis=0)   # closed
    l1,l2=float(rs.choice([0,.3])),float(rs.choice([0,.5]))
    def pen(v): return l1*np.abs(v).sum()+l2*(v**2).sum()
    d1=np.diff(out,axis=0)
    if cyc:
        ext=np.concatenate([d1,d1[:2]],axis=0); d2=np.diff(ext[:len(d1)+1],axis=0); d3=np.diff(np.diff(ext,axis=0),axis=0)
    else:
        d2=np.diff(d1,axis=0); d3=np.diff(d2,axis=0)
    for cls,ref in [(pl.LaplacianRegularizer,pen(d1)),(pl.HessianRegularizer,pen(d2)),(pl.WrinkleRegularizer,pen(d3) if k.shape[0]>=3 else 0.)]:
        got=float(cls(l1,l2,cyc)(tf.constant(k)))
        e=abs(got-ref)/max(1,abs(ref)); 
        if e>1e-4: print('PWLREG',cls.__name__,n,cyc,got,ref)
        w=max(w,e)
print('pwlreg',w)
# C19
w=0
for it in range(100):
    shape=[int(rs.randint(1,4)) for _ in range(int(rs.randint(1,4)))]; axis=int(rs.randint(0,len(shape)))
    t=rs.normal(size=shape).astype(np.float32); t[rs.rand(*shape)<.3]=0
    tt=tf.constant(t); dy=rs.normal(size=np.prod(t,axis=axis).shape).astype(np.float32)
    with tf.GradientTape(persistent=True) as g:
        g.watch(tt); a=tf.reduce_sum(kfl.custom_reduce_prod(tt,axis)*dy); b=tf.reduce_sum(tf.reduce_prod(tt,axis)*dy)
    w=max(w,np.abs(g.gradient(a,tt).numpy()-g.gradient(b,tt).numpy()).max())
print('reduce_prod grad',w)
