import os, sys, itertools, time, collections
os.environ['TF_CPP_MIN_LOG_LEVEL']='3'
import numpy as np
import tensorflow as tf
import tf_keras as keras
import tensorflow_lattice as tfl
from tensorflow_lattice.python import lattice_lib, premade_lib, lattice_layer as ll
print(tfl.__file__)
exec(open('/tmp/scratch/e6.py').read().split("seed=int(sys.argv[1])")[0].split("import tensorflow_lattice as tfl")[1].replace("from tensorflow_lattice.python import lattice_lib",""))
rs=np.random.RandomState(0)
W=collections.defaultdict(float); bad=[]
# C02 extra batch dims
for it in range(60):
    rank=int(rs.randint(1,4)); sizes=[int(rs.choice([2,3,4])) for _ in range(rank)]; units=int(rs.choice([1,2])); n=int(np.prod(sizes))
    kern=rs.normal(size=(n,units)).astype(np.float32)
    shape=(3,2,rank) if units==1 else (3,2,units,rank)
    x=rs.uniform(-.5,np.array(sizes)-.5,size=shape).astype(np.float32)
    aslist=bool(rs.rand()<.5)
    for interp,f,ref in [('h',lattice_lib.evaluate_with_hypercube_interpolation,ref_hypercube),('s',lattice_lib.evaluate_with_simplex_interpolation,ref_simplex)]:
        inp=tf.constant(x); 
        if aslist: inp=[inp[...,d:d+1] for d in range(rank)]
        try: y=f(inp,tf.constant(kern),units,sizes,True).numpy()
        except Exception as e: bad.append((interp,'EXC',aslist,units,type(e).__name__,str(e)[:80])); continue
        y=y.reshape(3,2,units)
        for a in range(3):
            for b in range(2):
                for u in range(units):
                    xx=x[a,b] if units==1 else x[a,b,u]
                    W[interp]=max(W[interp],abs(ref(xx,kern[:,u].astype(np.float64),sizes)-y[a,b,u]))
    # also layer
    l=tfl.layers.Lattice(sizes,units=units,interpolation=str(rs.choice(['hypercube','simplex'])))
    try: yl=l(tf.constant(x)); W['layer-shape-ok']=1
    except Exception as e: bad.append(('layer','EXC',units,type(e).__name__,str(e)[:80]))
print(dict(W),len(bad),bad[:4])
# C16 synonyms
def proj(**kw):
    l=tfl.layers.Lattice([3,3,2],**kw); l(tf.zeros([1,3])); 
    K=np.random.RandomState(5).normal(size=(18,1)).astype(np.float32); l.kernel.assign(K)
    return l.kernel.constraint(l.kernel).numpy()
a=proj(monotonicities=['increasing','none',1],edgeworth_trusts=(0,1,'positive'),trapezoid_trusts=[(0,2,'negative')],unimodalities=['none','peak',0])
b=proj(monotonicities=[1,0,'increasing'],edgeworth_trusts=[(0,1,1)],trapezoid_trusts=(0,2,-1),unimodalities=[0,-1,'none'])
print('lattice synonyms diff',np.abs(a-b).max())
def pw(**kw):
    l=tfl.layers.PWLCalibration([0.,1.,2.,4.],output_min=0.,output_max=1.,**kw); l(tf.zeros([1,1])); l.kernel.assign(np.random.RandomState(5).normal(size=(4,1)).astype(np.float32)); return l.kernel.constraint(l.kernel).numpy()
print('pwl synonyms diff',np.abs(pw(monotonicity='decreasing',convexity='convex')-pw(monotonicity=-1,convexity=1)).max())
# C18 helpers
fcs=[tfl.configs.FeatureConfig('a',pwl_calibration_num_keypoints=5),tfl.configs.FeatureConfig('b',pwl_calibration_input_keypoints='uniform',pwl_calibration_num_keypoints=4,pwl_calibration_clip_max=2.),tfl.configs.FeatureConfig('c',num_buckets=3),tfl.configs.FeatureConfig('d',pwl_calibration_input_keypoints=[0.,1.])]
feats={'a':rs.normal(size=100),'b':rs.exponential(size=100),'c':rs.randint(0,3,100),'d':rs.normal(size=100),'e':rs.normal(size=100)}
for w in (None,rs.uniform(.1,1,100)):
    kp=premade_lib.compute_feature_keypoints(fcs,feats,weights=w); print({k:np.round(v,3) for k,v in kp.items()})
    premade_lib.set_feature_keypoints(fcs,kp,add_missing_feature_configs=True)
print([ (f.name, f.pwl_calibration_input_keypoints if not f.num_buckets else None) for f in fcs])
mc=tfl.configs.CalibratedLatticeConfig(feature_configs=fcs,output_min=0.,output_max=1.,output_calibration_num_keypoints=4)
for labels,logits in [(rs.uniform(-1,2,100),False),(rs.randint(0,2,100).astype(float),True),(np.array(['x','y','x']),False)]:
    try: print('label kp',premade_lib.compute_label_keypoints(mc,labels,logits_output=logits))
    except Exception as e: print('label EXC',type(e).__name__,str(e)[:100])
